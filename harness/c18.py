"""C18 — incremental statistics, circular queues, prequential error."""
from __future__ import annotations

import collections
import copy
import math

import numpy as np

from lib import HEADER, Check, check_props, close, coq_eval, first_diff, fl, fl_list, gen_stream_real, z

HDR = HEADER + "From FV Require Import Queue Stats.\n"

OPS = ["Enq0", "Enq1", "Deq", "Clr", "Keep"]


def coq_op(o):
    return {"Enq0": "Enq 0", "Enq1": "Enq 1", "Deq": "Deq", "Clr": "Clr", "Keep": "Keep"}.get(o) or f"Enq {z(int(o[3:]))}"


# ------------------------------------------------------------------ implementation side


def q_snapshot(q):
    return (q.count, q.first, q.last, q.max_len, tuple(q.queue))


def q_restore(cls, snap):
    q = cls(max_len=snap[3])
    q._count, q._first, q._last = snap[0], snap[1], snap[2]
    q._queue = list(snap[4])
    return q


def q_apply_impl(q, op):
    """Apply op to an implementation queue; returns canonical output."""
    from frouros.utils.data_structures import EmptyQueueError

    try:
        if op.startswith("Enq"):
            r = q.enqueue(value=int(op[3:]))
            out = ("el", r)
        elif op == "Deq":
            out = ("el", q.dequeue())
        elif op == "Clr":
            q.clear()
            out = ("unit",)
        else:
            q.maintain_last_element()
            out = ("unit",)
    except EmptyQueueError:
        out = ("err", "EmptyQueueError")
    except ZeroDivisionError:
        out = ("err", "ZeroDivisionError")
    except ValueError:
        out = ("err", "ValueError")
    except IndexError:
        out = ("err", "IndexError")
    return out


def q_abs_impl(q):
    return [q.queue[(q.first + i) % q.max_len] for i in range(q.count)] if q.max_len else []


def canon_out_model(o):
    # OEl (Some v) | OEl None | OErr e | OUnit
    if o.name == "OUnit":
        return ("unit",)
    if o.name == "OErr":
        return ("err", o.args[0].name)
    a = o.args[0]
    return ("el", a[1] if isinstance(a, tuple) and a and a[0] == "Some" else None)


def coq_state(snap):
    cnt, first, last, mx, slots = snap
    sl = "[" + "; ".join("None" if s is None else f"Some {z(s)}" for s in slots) + "]"
    return f"{{| q_count := {z(cnt)}; q_first := {z(first)}; q_last := {z(last)}; q_max := {z(mx)}; q_slots := {sl} |}}"


def model_state_to_snap(st):
    # printed record: {| q_count := ..; ... |} is not parsed; we project in Coq instead
    raise NotImplementedError


PROJ = "(fun r : cq Z * qout Z => let '(q, o) := r in (q_count q, q_first q, q_last q, q_max q, q_slots q, o, cq_abs q))"


def run(ck: Check):
    from frouros.utils.data_structures import AccuracyQueue, CircularQueue
    from frouros.utils.stats import EWMA, CircularMean, Mean
    from frouros.metrics import PrequentialError

    rng = ck.rng
    thorough = ck.tier == "thorough"

    # ---------------------------------------------------------------- queue: closure of reachable states
    ck.rule(
        "queues: BFS to closure over all implementation states reachable with ops {enqueue 0, enqueue 1, dequeue, clear, keep-last} "
        "for max_len in {1,2,3}; every transition compared with the Gallina model applied to the same state, and with a reference deque; "
        "non-trivial = transition that evicts, raises, wraps the ring or keeps-last"
    )
    caps = [1, 2, 3] + ([4] if thorough else [])
    trans = []  # (snap, op, out_impl, snap_after, abs_after)
    for cap in caps:
        init = q_snapshot(CircularQueue(max_len=cap))
        # reference deque contents travel with the state: state key = (snap, tuple(ref))
        seen = {(init, ())}
        frontier = [(init, ())]
        while frontier:
            nxt = []
            for snap, ref in frontier:
                for op in OPS:
                    q = q_restore(CircularQueue, snap)
                    out = q_apply_impl(q, op)
                    after = q_snapshot(q)
                    # reference deque
                    d = collections.deque(ref)
                    if op.startswith("Enq"):
                        ev = d.popleft() if len(d) == cap else None
                        d.append(int(op[3:]))
                        ref_out = ("el", ev)
                    elif op == "Deq":
                        ref_out = ("el", d.popleft()) if d else ("err", "EmptyQueueError")
                    elif op == "Clr":
                        d.clear()
                        ref_out = ("unit",)
                    else:
                        if d:
                            last = d[-1]
                            d.clear()
                            d.append(last)
                        ref_out = ("unit",)
                    nontriv = out != ("el", None) or op == "Keep" or (op.startswith("Enq") and after[2] < snap[2])
                    ck.case(dict(kind="queue-transition", cap=cap, state=snap, op=op, out=out), nontrivial=nontriv)
                    ck.count("queue_transitions")
                    ck.count("queue_out_" + out[0] + ("_evict" if out[0] == "el" and out[1] is not None else ""))
                    # monitor: implementation vs reference deque
                    impl_abs = q_abs_impl(q)
                    obs_impl = (out, len(q), q.is_empty(), q.is_full(), impl_abs)
                    obs_ref = (ref_out, len(d), len(d) == 0, len(d) == cap, list(d))
                    if obs_impl != obs_ref:
                        ck.violation(
                            dict(clause="queue-vs-deque", op=("keep-last" if op == "Keep" else op[:3].lower()), empty_before=(snap[0] == 0)),
                            dict(what="CircularQueue disagrees with reference deque", max_len=cap, state_before=snap, deque_before=list(ref), op=op, impl=obs_impl, reference=obs_ref),
                        )
                    trans.append((snap, op, out, after, impl_abs))
                    key = (after, tuple(d))
                    if key not in seen and obs_impl == obs_ref:
                        seen.add(key)
                        nxt.append(key)
            frontier = nxt
        ck.count(f"queue_states_cap{cap}", len(seen))
    ck.exhaustive = True
    # model on the same transitions
    exprs = []
    CH = 300
    for i in range(0, len(trans), CH):
        chunk = trans[i : i + CH]
        items = "; ".join(f"({coq_state(s)}, {coq_op(op)})" for s, op, _, _, _ in chunk)
        exprs.append(f"map (fun so : cq Z * qop Z => {PROJ} (cq_apply (fst so) (snd so))) [{items}]")
    res = coq_eval("C18q", HDR, exprs)
    flat = [r for chunk in res for r in chunk]
    for (snap, op, out, after, impl_abs), r in zip(trans, flat):
        cnt, first, last, mx, slots, o, mabs = r
        m_after = (cnt, first, last, mx, tuple(s[1] if isinstance(s, tuple) else None for s in slots))
        m_abs = [s[1] if isinstance(s, tuple) else None for s in mabs]
        m_out = canon_out_model(o)
        ck.corr_cases += 1
        if (m_out, m_after, m_abs) != (out, after, impl_abs):
            ck.mismatch("Model/Queue.v cq_apply vs CircularQueue", dict(state=snap, op=op, impl=(out, after, impl_abs), model=(m_out, m_after, m_abs)))

    # ---------------------------------------------------------------- queue: random long sequences, larger capacities
    ck.rule("queues: random op sequences (length 20-60) for max_len in 0..9, values 0..9, compared model vs implementation vs deque")
    nseq = 120 if not thorough else 800
    seqs = []
    for _ in range(nseq):
        cap = rng.choice([0, 1, 2, 3, 4, 5, 7, 9])
        n = rng.randrange(20, 60)
        w = rng.choice([(6, 2, 1, 1), (3, 3, 1, 1), (8, 1, 0, 1), (5, 2, 0, 0)])
        ops = [rng.choices(["Enq", "Deq", "Clr", "Keep"], weights=w)[0] for _ in range(n)]
        ops = [o + str(rng.randrange(10)) if o == "Enq" else o for o in ops]
        seqs.append((cap, ops))
    impl_runs = []
    for cap, ops in seqs:
        q = CircularQueue(max_len=cap)
        d = collections.deque()
        outs = []
        bad = None
        for i, op in enumerate(ops):
            empty_before = len(q) == 0
            out = q_apply_impl(q, op)
            if op.startswith("Enq"):
                if cap == 0:
                    ref_out = ("err", "EmptyQueueError")
                else:
                    ev = d.popleft() if len(d) == cap else None
                    d.append(int(op[3:]))
                    ref_out = ("el", ev)
            elif op == "Deq":
                ref_out = ("el", d.popleft()) if d else ("err", "EmptyQueueError")
            elif op == "Clr":
                d.clear()
                ref_out = ("unit",)
            else:
                if d:
                    last = d[-1]
                    d.clear()
                    d.append(last)
                ref_out = ("unit",)
            outs.append((out, len(q), q.is_empty(), q.is_full()))
            if bad is None and (out, len(q), q_abs_impl(q)) != (ref_out, len(d), list(d)):
                bad = i
                ck.violation(
                    dict(clause="queue-vs-deque", op=("keep-last" if op == "Keep" else op[:3].lower()), empty_before=empty_before),
                    dict(what="CircularQueue disagrees with reference deque", max_len=cap, ops=ops[: i + 1], impl=(out, len(q), q_abs_impl(q)), reference=(ref_out, len(d), list(d))),
                )
                break
        ck.case(dict(kind="queue-seq", cap=cap, ops=ops[:12]), nontrivial=any(o[0][0] == "err" or (o[0][0] == "el" and o[0][1] is not None) for o in outs))
        impl_runs.append((outs, q_abs_impl(q) if bad is None else None))
    exprs = [
        f"let '(q, outs) := cq_run (cq_init {z(cap)}) [{'; '.join(coq_op(o) for o in ops)}] in (outs, cq_abs q)" for cap, ops in seqs
    ]
    res = coq_eval("C18s", HDR, exprs)
    for (cap, ops), (outs, fabs), r in zip(seqs, impl_runs, res):
        if fabs is None:
            continue
        ck.corr_cases += 1
        m_outs = [canon_out_model(o) for o in r[0]]
        m_abs = [s[1] if isinstance(s, tuple) else None for s in r[1]]
        if m_outs != [o[0] for o in outs] or m_abs != fabs:
            ck.mismatch("Model/Queue.v cq_run vs CircularQueue", dict(max_len=cap, ops=ops, impl=[o[0] for o in outs], model=m_outs))

    # ---------------------------------------------------------------- AccuracyQueue
    ck.rule("AccuracyQueue: random boolean streams, counts vs contents at every step (monitor) and vs model")
    aq_cases = []
    for _ in range(60 if not thorough else 400):
        cap = rng.choice([1, 2, 3, 5, 8])
        vals = [rng.random() < rng.choice([0.2, 0.5, 0.9]) for _ in range(rng.randrange(5, 40))]
        a = AccuracyQueue(max_len=cap)
        obs = []
        for i, v in enumerate(vals):
            try:
                r = a.enqueue(value=v)
            except Exception as e:  # noqa: BLE001
                ck.violation(dict(clause="raises", structure="AccuracyQueue", error=type(e).__name__, op="enqueue"), dict(what="AccuracyQueue.enqueue raised on a Boolean stream", max_len=cap, values=vals[: i + 1], error=repr(e)))
                break
            content = [a.queue[(a.first + k) % cap] for k in range(a.count)]
            obs.append((int(a.num_true), int(a.num_false), a.size))
            exp = vals[max(0, i + 1 - cap) : i + 1]
            if content != exp or a.num_true != sum(exp) or a.num_false != len(exp) - sum(exp):
                ck.violation(dict(clause="accuracy-queue-counts"), dict(max_len=cap, values=vals[: i + 1], contents=content, num_true=int(a.num_true), num_false=int(a.num_false)))
                break
        ck.case(dict(kind="accuracy-queue", cap=cap, n=len(vals)), nontrivial=len(vals) > cap)
        aq_cases.append((cap, vals, obs))
    exprs = [
        "(fix go (a : aq) (vs : list bool) : list (Z*Z*Z) := match vs with [] => [] | v :: r => match aq_enqueue a v with Ok a' => (aq_num_true a', aq_num_false a', aq_size a') :: go a' r | Raise _ => [] end end) "
        f"(aq_init {cap}) [{'; '.join('true' if v else 'false' for v in vals)}]"
        for cap, vals, _ in aq_cases
    ]
    res = coq_eval("C18a", HDR, exprs)
    for (cap, vals, obs), r in zip(aq_cases, res):
        ck.corr_cases += 1
        if [tuple(x) for x in r] != obs:
            ck.mismatch("Model/Queue.v aq_enqueue vs AccuracyQueue", dict(max_len=cap, values=vals, impl=obs, model=r))

    # AccuracyQueue under ALL its operations (own generator): enqueue / dequeue / clear on capacities 1-3, the counters
    # checked against a reference deque after every call; dequeue on an empty queue raises EmptyQueueError
    import random as _random
    from frouros.utils.data_structures import EmptyQueueError as _EQE

    prng = _random.Random(181818)
    for k in range(40 if not thorough else 300):
        cap = prng.choice([1, 1, 2, 3])
        a = AccuracyQueue(max_len=cap)
        ref = collections.deque()
        hist = []
        for _ in range(prng.randrange(4, 25)):
            op = prng.choice(["T", "T", "F", "D", "D", "C"])
            hist.append(op)
            try:
                if op in "TF":
                    a.enqueue(value=(op == "T"))
                    if len(ref) == cap:
                        ref.popleft()
                    ref.append(op == "T")
                elif op == "D":
                    if ref:
                        got = a.dequeue()
                        exp = ref.popleft()
                        if bool(got) != exp:
                            ck.violation(dict(clause="accuracy-queue-counts", op="dequeue"), dict(what="dequeue returned another element than the oldest", max_len=cap, ops=hist, got=bool(got), expected=exp))
                            break
                    else:
                        try:
                            a.dequeue()
                            ck.violation(dict(clause="accuracy-queue-counts", op="dequeue-empty"), dict(what="dequeue on an empty AccuracyQueue did not raise EmptyQueueError", max_len=cap, ops=hist))
                            break
                        except _EQE:
                            pass
                else:
                    a.clear()
                    ref.clear()
            except Exception as e:  # noqa: BLE001
                ck.violation(dict(clause="raises", structure="AccuracyQueue", error=type(e).__name__), dict(what="a legal AccuracyQueue operation raised", max_len=cap, ops=hist, error=repr(e)))
                break
            content = [a.queue[(a.first + j) % cap] for j in range(a.count)]
            if content != list(ref) or a.num_true != sum(ref) or a.num_false != len(ref) - sum(ref) or a.size != len(ref):
                ck.violation(dict(clause="accuracy-queue-counts", op="sequence"), dict(what="contents / counters differ from a bounded deque", max_len=cap, ops=hist, contents=content, num_true=int(a.num_true), num_false=int(a.num_false), expected=list(ref)))
                break
        ck.case(dict(kind="accuracy-queue-ops", cap=cap, n=len(hist)), nontrivial="D" in hist, key=repr(("aqops", cap, hist)))
        ck.count("accuracy_queue_op_sequences")
    # ... and with keep-last (maintain_last_element) among the operations (own generator): the counters are those of the
    # one element kept (F48: before the repair the inherited method left num_true untouched)
    krng = _random.Random(181819)
    aqk_cases = []
    for k in range(40 if not thorough else 300):
        cap = krng.choice([1, 2, 3, 4])
        a = AccuracyQueue(max_len=cap)
        ref = collections.deque()
        hist = []
        for _ in range(krng.randrange(4, 25)):
            op = krng.choice(["T", "T", "F", "F", "D", "K", "K", "C"])
            hist.append(op)
            try:
                if op in "TF":
                    a.enqueue(value=(op == "T"))
                    if len(ref) == cap:
                        ref.popleft()
                    ref.append(op == "T")
                elif op == "D":
                    if not ref:
                        continue
                    a.dequeue()
                    ref.popleft()
                elif op == "K":
                    a.maintain_last_element()
                    if ref:
                        lastv = ref[-1]
                        ref.clear()
                        ref.append(lastv)
                else:
                    a.clear()
                    ref.clear()
            except Exception as e:  # noqa: BLE001
                ck.violation(dict(clause="raises", structure="AccuracyQueue", error=type(e).__name__, ops="with-keep-last"), dict(what="a legal AccuracyQueue operation raised", max_len=cap, ops=hist, error=repr(e)))
                break
            content = [bool(a.queue[(a.first + j) % cap]) for j in range(a.count)]
            if content != list(ref) or a.num_true != sum(ref) or a.num_false != len(ref) - sum(ref) or a.size != len(ref):
                ck.violation(dict(clause="accuracy-queue-counts", op="keep-last-sequence"), dict(what="after a sequence with keep-last the contents / counters differ from a bounded deque's", max_len=cap, ops=hist, contents=content, num_true=int(a.num_true), num_false=int(a.num_false), expected=list(ref)))
                break
        ck.case(dict(kind="accuracy-queue-ops-keep-last", cap=cap, n=len(hist)), nontrivial="K" in hist, key=repr(("aqkeep", cap, hist)))
        ck.count("accuracy_queue_keep_last_sequences")
        aqk_cases.append((cap, list(hist), (int(a.count), int(a.num_true), int(a.num_false), [bool(a.queue[(a.first + j) % cap]) for j in range(a.count)])))
    # Model/AQueue.v ([aq_ops aq_keep]) on the same operation sequences (a dequeue on an empty queue is rejected and leaves
    # the object as it was, in the model as in the run above, which skips it)
    opc = {"T": "Enq true", "F": "Enq false", "D": "Deq", "K": "Keep", "C": "Clr"}
    exprs = [
        "(let a := fst (aq_ops aq_keep (aq_init " + str(cap) + ") [" + "; ".join(opc[o] for o in hist) + "]) in "
        "(aq_size a, aq_num_true a, aq_num_false a, cq_abs (a_q a)))"
        for cap, hist, _ in aqk_cases
    ]
    res = coq_eval("C18k", HDR + "From FV Require Import AQueue.\n", exprs)
    for (cap, hist, obs), r in zip(aqk_cases, res):
        ck.corr_cases += 1
        def _b(x):
            # an `option bool` slot comes back as ('Some', True / False)
            return bool(x[1]) if isinstance(x, tuple) and len(x) == 2 and x[0] == "Some" else bool(x)
        mo = (int(r[0]), int(r[1]), int(r[2]), [_b(x) for x in r[3]])
        if mo != obs:
            ck.mismatch("Model/AQueue.v aq_ops vs AccuracyQueue", dict(max_len=cap, ops=hist, impl=obs, model=mo))
    # EWMA at the ends of its range and on extreme magnitudes: mean = alpha x + (1 - alpha) mean as written (exact for
    # alpha = 1: the last value; finite whenever the weighted sum is)
    for alpha, xs in ((1.0, [1e16, 1.0, -3.0]), (1.0, [-1e300, 2.5]), (0.0, [5.0, 1e300]), (0.1, [1.7e308, -1.7e308, 1.7e308]), (0.5, [1e308, 1e308, -1e308])):
        e = EWMA(alpha=alpha)
        got = []
        for x in xs:
            e.update(x)
            got.append(float(e.get()))
        ref, exp = 0.0, []
        for x in xs:
            ref = alpha * x + (1 - alpha) * ref
            exp.append(ref)
        ck.case(dict(kind="ewma-extreme", alpha=alpha, values=xs), nontrivial=True, key=repr(("ewma-extreme", alpha, xs)))
        ck.count("ewma_extreme_cases")
        if any(not (g == r or (math.isfinite(r) and abs(g - r) <= 1e-12 * abs(r))) for g, r in zip(got, exp)):
            ck.violation(dict(clause="statistic-definition", stat="EWMA", regime="extreme"), dict(what="EWMA differs from alpha x + (1 - alpha) mean on extreme magnitudes / at the ends of alpha's range", alpha=alpha, values=xs, got=got, expected=exp))
    # the statistics fed NumPy INTEGER scalars (narrow and 64-bit, unsigned included; sums of the values pass the type's range):
    # the definitions are about the values, whatever numeric type carries them (deterministic)
    for dt, vals in ((np.uint8, [200, 100, 7, 255, 255, 255]), (np.uint64, [200, 100, 7, 255]), (np.int8, [100, 50, -7, 120, 120]), (np.int64, [2**62, 2**62, 2**62, -5]), (np.uint16, [65535, 65535, 1])):
        fv = [float(v) for v in vals]
        try:
            m, e, c, p = Mean(), EWMA(alpha=0.3), CircularMean(size=3), PrequentialError(alpha=0.9)
            got = []
            for v in vals:
                x = dt(v)
                m.update(x)
                e.update(x)
                c.update(x)
                pv = p(x)
                got.append((float(m.get()), float(e.get()), float(c.get()), float(pv)))
        except Exception as ex:  # noqa: BLE001
            ck.violation(dict(clause="statistic-definition", regime="typed-values", dtype=dt.__name__, error=type(ex).__name__), dict(what="a statistic raised on NumPy integer scalars", dtype=dt.__name__, values=vals, error=repr(ex)))
            continue
        ck.case(dict(kind="stats-typed-values", dtype=dt.__name__, values=vals), nontrivial=True, key=repr(("typed-stats", dt.__name__)))
        ck.count("typed_value_stat_cases")
        ew = 0.0
        for t in range(1, len(fv) + 1):
            ew = 0.3 * fv[t - 1] + 0.7 * ew
            den = math.fsum(0.9 ** (t - 1 - k) for k in range(t))
            ref = (math.fsum(fv[:t]) / t, ew, math.fsum(fv[max(0, t - 3) : t]) / min(t, 3), math.fsum(0.9 ** (t - 1 - k) * fv[k] for k in range(t)) / den)
            bad = [nm for nm, g, r in zip(("Mean", "EWMA", "CircularMean", "PrequentialError"), got[t - 1], ref) if not abs(g - r) <= 1e-9 * max(1.0, abs(r))]
            if bad:
                ck.violation(dict(clause="statistic-definition", stat=bad[0], regime="typed-values", dtype=dt.__name__),
                             dict(what="fed NumPy integer scalars the statistic leaves its definition", stat=bad, dtype=dt.__name__, values=vals[:t], got=got[t - 1], expected=ref))
                break
    # PrequentialError fed reduced-precision NumPy floats (np.float32 / np.float16 error values are numbers): no exception, and
    # the faded mean to the precision of the carrier type
    for dt, tolr in ((np.float32, 1e-5), (np.float16, 5e-2), (np.longdouble, 1e-9)):
        errs = [0.0, 1.0, 0.5, 1.0, 0.25, 0.0, 1.0]
        try:
            p = PrequentialError(alpha=0.9)
            got = [float(p(dt(er))) for er in errs]
        except Exception as ex:  # noqa: BLE001
            ck.violation(dict(clause="statistic-definition", stat="PrequentialError", regime="typed-values", dtype=dt.__name__, error=type(ex).__name__), dict(what="PrequentialError raised on NumPy floating error values", dtype=dt.__name__, errors=errs, error=repr(ex)))
            continue
        ck.case(dict(kind="prequential-typed-values", dtype=dt.__name__), nontrivial=True, key=repr(("preq-typed", dt.__name__)))
        ck.count("prequential_typed_value_cases")
        for t in range(1, len(errs) + 1):
            den = math.fsum(0.9 ** (t - 1 - k) for k in range(t))
            ref = math.fsum(0.9 ** (t - 1 - k) * errs[k] for k in range(t)) / den
            if not abs(got[t - 1] - ref) <= tolr:
                ck.violation(dict(clause="statistic-definition", stat="PrequentialError", regime="typed-values", dtype=dt.__name__), dict(what="PrequentialError on NumPy floating error values leaves its definition", dtype=dt.__name__, errors=errs[:t], got=got[t - 1], expected=ref))
                break
    # PrequentialError with a fading factor next to 1 (valid: alpha in (0, 1]): sum alpha^(t-i) e_i / sum alpha^(t-i), reference by
    # direct summation; an algebraically equal closed form of the denominator, (1 - alpha^t) / (1 - alpha), cancels there
    for pal in (1 - 1e-9, 1 - 1e-12, float(np.nextafter(1.0, 0.0)), 1 - 2.0**-30):
        errs = [float((7 * k) % 5 < 2) for k in range(60)]
        p = PrequentialError(alpha=pal)
        got = [float(p(er)) for er in errs]
        ck.case(dict(kind="prequential-alpha-next-to-1", alpha=repr(pal)), nontrivial=True, key=repr(("preq-near1", repr(pal))))
        ck.count("prequential_alpha_next_to_one_cases")
        for t in range(1, len(errs) + 1):
            den = math.fsum(pal ** (t - 1 - k) for k in range(t))
            ref = math.fsum(pal ** (t - 1 - k) * errs[k] for k in range(t)) / den
            if not abs(got[t - 1] - ref) <= 1e-11:
                ck.violation(dict(clause="statistic-definition", stat="PrequentialError", regime="alpha-next-to-1"),
                             dict(what="PrequentialError differs from sum alpha^(t-i) e_i / sum alpha^(t-i) for a fading factor next to 1", alpha=repr(pal), errors=errs[:t], got=got[t - 1], expected=ref))
                break
    # ---------------------------------------------------------------- statistics
    ck.rule(
        "statistics: structured random real streams (constant, gaussian, shifted, ramps, ties, cancellation-prone), parameters on their boundaries "
        "(alpha in {0,1,...}, size=1); implementation compared at every step with the closed-form definition (monitor, tolerance 1e-9) "
        "and with the FloatA model (tolerance 1e-9 rel + 1e-12 abs; in practice bit-equal)"
    )
    st_cases = []
    for _ in range(80 if not thorough else 600):
        n = rng.randrange(1, 80)
        xs = gen_stream_real(rng, n)
        alpha = rng.choice([0.0, 1.0, 0.2, 0.05, 0.9, rng.random()])
        size = rng.choice([1, 2, 3, 5, 10, 100])
        pal = rng.choice([1.0, 0.9, 0.5, 0.999, 1e-3, rng.uniform(0.01, 1)])
        errs = [float(abs(x) > 1) for x in xs] if rng.random() < 0.5 else [abs(x) for x in xs]
        m, e, c, p = Mean(), EWMA(alpha=alpha), CircularMean(size=size), PrequentialError(alpha=pal)
        om, oe, oc, op_ = [], [], [], []
        scale = max(1.0, max(abs(x) for x in xs))
        okm = True
        for i, (x, er) in enumerate(zip(xs, errs)):
            m.update(x)
            e.update(x)
            c.update(x)
            pv = p(er)
            om.append(float(m.get()))
            oe.append(float(e.get()))
            oc.append(float(c.get()))
            op_.append(float(pv))
            t = i + 1
            ref_m = math.fsum(xs[:t]) / t
            ref_c = math.fsum(xs[max(0, t - size) : t]) / min(t, size)
            ref_e = math.fsum(alpha * (1 - alpha) ** (t - 1 - k) * xs[k] for k in range(t))
            den = math.fsum(pal ** (t - 1 - k) for k in range(t))
            ref_p = math.fsum(pal ** (t - 1 - k) * errs[k] for k in range(t)) / den
            tol = 1e-7 * scale
            for nm, got, ref in (("Mean", om[-1], ref_m), ("CircularMean", oc[-1], ref_c), ("EWMA", oe[-1], ref_e), ("PrequentialError", op_[-1], ref_p)):
                if okm and not abs(got - ref) <= tol:
                    okm = False
                    ck.violation(dict(clause="statistic-definition", stat=nm), dict(stat=nm, values=xs[:t], errors=errs[:t], alpha=alpha, size=size, preq_alpha=pal, got=got, expected=ref))
        ck.case(dict(kind="stats", n=n, alpha=alpha, size=size, preq_alpha=pal, head=xs[:4]), nontrivial=(n > size or n > 3), key=repr((xs, alpha, size, pal)))
        st_cases.append((xs, errs, alpha, size, pal, om, oe, oc, op_))
    exprs = []
    for xs, errs, alpha, size, pal, *_ in st_cases:
        exprs.append(
            f"let xs := {fl_list(xs)} in let es := {fl_list(errs)} in "
            f"(m_mean (mean_run (A:=FloatA) xs), e_mean (ewma_run (A:=FloatA) {fl(alpha)} xs), "
            f"match cmean_run (A:=FloatA) (cmean_init {size}) xs with Ok s => c_mean s | Raise _ => nan end, "
            f"snd (fold_left (fun (sv : preq_st FloatA * float) e => preq_call (A:=FloatA) {fl(pal)} (fst sv) e) es (preq_init, nan)))"
        )
    res = coq_eval("C18f", HDR, exprs, shard=40)
    for (xs, errs, alpha, size, pal, om, oe, oc, op_), r in zip(st_cases, res):
        ck.corr_cases += 1
        impl = (om[-1], oe[-1], oc[-1], op_[-1])
        d = first_diff(list(impl), list(r))
        if d is not None:
            ck.mismatch("Model/Stats.v vs utils/stats.py", dict(values=xs, alpha=alpha, size=size, preq_alpha=pal, impl=impl, model=r, diff=d))
    # PrequentialError.reset behaves as new (also C02)
    p = PrequentialError(alpha=0.7)
    for v in (1, 0, 1, 1):
        p(v)
    p.reset()
    fresh = PrequentialError(alpha=0.7)
    if [p(v) for v in (0, 1, 1)] != [fresh(v) for v in (0, 1, 1)]:
        ck.violation(dict(clause="prequential-reset"), dict(what="PrequentialError after reset differs from fresh"))


def main(tier, seed):
    ck = Check("C18", tier, seed)
    ck.proof = check_props("C18")
    ck.assumptions = [
        "closed-form theorems are over Coq's R; the binary64 run of the same model is tied to the code by differential testing",
        "queue theorems are exact (Z, lists) and hold for every element type",
    ]
    run(ck)
    return ck.finish()
