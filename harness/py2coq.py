"""py2coq — a fail-closed translator from a subset of frouros' Python source to Gallina.

Second tie between the Coq development and /repo (the first is the correspondence check):
for the classes listed in `gen_units.py` the *source text* of the methods is parsed with `ast`
and compiled to Coq definitions over the same number-system interface (`NumSys.Arith`) the
hand-written models use.  `coq/Gen/Eq*.v` then proves, for every number system, that each
generated definition equals the hand-written model function (so every theorem about the model
is a theorem about what the source says now), and re-states the property theorems directly
over the generated definitions.  The translation is re-done on every run of a check.

Fail-closed: any construct outside the subset raises `Unsupported` (the run then reports the
tie as broken).  Nothing is guessed.

Subset and semantics (what the translator *assumes*, i.e. the trusted part):
  * objects are records of their storage attributes (`self._x`, `self.x`, entries of the
    `_additional_vars` dict); a class's layout is the order of first assignment in `__init__`
    (or a declared layout for detector classes whose `__init__` wires callbacks);
  * attribute reads/writes go through `@property` getters/setters of the class's C3 MRO,
    which are inlined (so setter validation is part of the generated code);
  * `int` is Z, `float`/numeric is `num A` (int -> num coerced with `ofZ`; true division of
    ints is division in `num A`), `bool` is bool, `Optional[x]` is option, `[None]*n` lists
    are `list (option T)`;  `isinstance` checks on statically typed values are decided
    statically (inputs are assumed to have their annotated types);
  * comparisons / arithmetic on floats are the `Arith` primitives, so NaN behaves as in IEEE
    when the model is run at `FloatA` (`not a <= v <= b` is `negb (andb ..)`);
  * `np.maximum(a, b)` / `max(a, b)` is `if a < b then b else a` (finite values);
  * `raise E(...)` is `Raise E`; a method returns `res (self' * result)`;
  * method calls are calls of the generated definition of the *receiver's* class (virtual
    dispatch through the MRO, `super()` handled), single-`return` methods are inlined;
  * `for cb in self.callbacks` bodies are skipped (callback-free instance: `_callbacks = []`);
  * list indexing assumes an in-range non-negative index (`nth`/`set_nth`);
  * `for _ in range(n)` over an int n is the bounded iterator `Py.iter_res`; `for i in range(a, b)` (or `range(n)` with the
    loop variable used) is the same with `i` as a carried counter; `arr[i] = x` on a float array is `set_nth` behind an
    `IndexError` guard, `arr[a:b] = x` overwrites the entries a..b-1 (0 <= a <= b <= len, guarded), `np.zeros(n)` is n zeros; `obj[i]` is the class's `__getitem__` inlined;
  * library calls declared as ORACLES (`SPEC["oracles"]`, and the fixed set `np.random.choice(a=, size=, replace=False)`,
    `ks_2samp(data1=, data2=, <constant options>)`, `scipy.special.logsumexp(vec)`, `norm(loc, scale).logpdf(x)`) are
    uninterpreted functions: section parameters of the generated file, whose NAME carries the constant keyword options;
    only the exceptions NumPy raises before computing are modelled (a sample larger than the population, a negative
    `islice` bound); `collections.deque(maxlen=config.<attr>)` fields (`SPEC["deques"]`): `append` keeps the last maxlen;
  * NumPy 1-D float arrays are `list (num A)`: `np.array([..])`, `a op b` elementwise (array with scalar: `map`; two
    arrays: equal lengths REQUIRED - broadcasting a length-1 array is outside the subset and guarded as `ValueError`),
    `a[i]` (i >= 0, `IndexError` guard), `a[:k]` (0 <= k <= len, guarded), `a[:-1]`, `np.append(x | [x] | a, b)`,
    `np.sqrt / np.exp / np.log` elementwise, `np.sum` as a left-to-right sum (NumPy adds pairwise: equal over R, a
    rounding-level difference in binary64), `a.argmax()` = position of the first maximum (`g_argmax`, defined in the
    generated prelude); a 2-D array grown by the idiom `np.concatenate((np.pad(M, ((0,0),(0,1)), constant_values=-inf),
    np.expand_dims(row, axis=0)), axis=0)` is the list of its rows WITHOUT the -inf padding, and `M[i, :k]` reads the
    first k stored entries of row i (reading into the padding is guarded as `IndexError`; the Eq proofs show every such
    guard unreachable, so on reachable states the representation is faithful).
"""
from __future__ import annotations

import ast
import re
import os
from fractions import Fraction

NUM, INT, BOOL, UNIT, ELT, NONE, STR, NUMX, NUMXN = "num", "Z", "bool", "unit", "T", "none", "str", "numx", "numxn"


class Unsupported(Exception):
    pass


def opt(t):
    return ("opt", t)


def lst(t):
    return ("list", t)


def obj(c, elt=None):
    return ("obj", c, elt)


class V:
    """symbolic value: Coq expression text + type"""

    def __init__(self, e, ty):
        self.e, self.ty = e, ty

    def __repr__(self):
        return f"V({self.e}:{self.ty})"


class O:
    """object value: class + ordered storage fields (name -> V | O | None when unset)"""

    def __init__(self, cls, fields, elt=None):
        self.cls, self.fields, self.elt = cls, fields, elt

    @property
    def ty(self):
        return obj(self.cls, self.elt)

    def copy(self):
        return O(self.cls, {k: (v.copy() if isinstance(v, O) else v) for k, v in self.fields.items()}, self.elt)


EXN = {"ValueError", "TypeError", "ZeroDivisionError", "IndexError", "AttributeError", "KeyError", "EmptyQueueError",
       "InvalidAverageRunLengthError", "MissingFitError", "DimensionError", "MismatchDimensionError"}


class Translator:
    def __init__(self, repo, spec):
        """spec: dict with optional keys
        field_types {(cls, storage): ty}, param_types {(cls, meth, param): ty}, layouts {cls: [(storage, ty)]},
        elt {cls: ty} (element type of queue-like classes), consts {(cls, name): V-like}"""
        self.repo = repo
        self.spec = spec
        self.classes = {}
        self._parse_repo()
        for alias, real in spec.get("aliases", {}).items():  # the same class under a second layout
            self.classes[alias] = self.classes[real]
        self.units = {}  # name -> coq text
        self.order = []
        self.used_oracles = {}  # name -> Coq type of the uninterpreted function
        self.use_prelude = set()
        self.sigs = {}  # name -> (param tys, self ty, ret ty)
        self.layout_cache = {}
        self.inprogress = set()
        self.fresh = 0
        self.sources = {}  # unit name -> (file, lineno)

    # ------------------------------------------------------------------ source
    def _parse_repo(self):
        root = os.path.join(self.repo, "frouros")
        for dp, dn, fn in os.walk(root):
            if "tests" in dp.split(os.sep):
                continue
            for f in fn:
                if not f.endswith(".py"):
                    continue
                path = os.path.join(dp, f)
                try:
                    tree = ast.parse(open(path).read())
                except SyntaxError as e:
                    raise Unsupported(f"cannot parse {path}: {e}")
                for node in tree.body:
                    if isinstance(node, ast.ClassDef):
                        self.classes.setdefault(node.name, []).append((node, os.path.relpath(path, self.repo)))

    def cls(self, name):
        c = self.classes.get(name)
        if not c:
            raise Unsupported(f"unknown class {name}")
        if len(c) > 1:
            raise Unsupported(f"ambiguous class name {name}")
        return c[0][0]

    def bases(self, name):
        out = []
        for b in self.cls(name).bases:
            if isinstance(b, ast.Name):
                n = b.id
            elif isinstance(b, ast.Attribute):
                n = b.attr
            else:
                raise Unsupported(f"base of {name}")
            if n in self.classes:
                out.append(n)
            elif n in ("ABC", "object", "Exception"):
                continue
            else:
                raise Unsupported(f"base {n} of {name} is not a frouros class")
        return out

    def mro(self, name):
        def merge(seqs):
            res = []
            seqs = [list(s) for s in seqs if s]
            while seqs:
                for s in seqs:
                    h = s[0]
                    if not any(h in t[1:] for t in seqs):
                        break
                else:
                    raise Unsupported(f"no C3 linearisation for {name}")
                res.append(h)
                seqs = [[x for x in t if x != h] for t in seqs]
                seqs = [t for t in seqs if t]
            return res

        bs = self.bases(name)
        return [name] + merge([self.mro(b) for b in bs] + [bs])

    def find(self, clsname, attr, after=None, kind="method"):
        """(defining class, FunctionDef) of a method / property getter / setter along the MRO."""
        m = self.mro(clsname)
        if after is not None:
            m = m[m.index(after) + 1:]
        for c in m:
            for node in self.cls(c).body:
                if isinstance(node, ast.FunctionDef) and node.name == attr:
                    decs = [ast.unparse(d) for d in node.decorator_list]
                    if kind == "getter" and "property" in decs:
                        return c, node
                    if kind == "setter" and f"{attr}.setter" in decs:
                        return c, node
                    if kind == "method" and not any(d == "property" or d.endswith(".setter") for d in decs):
                        return c, node
        return None

    # ------------------------------------------------------------------ types
    def cty(self, t, elt=None):
        if t == NUM:
            return "num A"
        if t in (NUMX, NUMXN):
            return "option (num A)"
        if isinstance(t, tuple) and t[0] == "tuple":
            return "(" + " * ".join(self.cty(x, elt) for x in t[1]) + ")"
        if t == INT:
            return "Z"
        if t == BOOL:
            return "bool"
        if t == UNIT:
            return "unit"
        if t == ELT:
            return self.cty(elt) if elt else "T"
        if isinstance(t, tuple) and t[0] == "opt":
            return f"option ({self.cty(t[1], elt)})"
        if isinstance(t, tuple) and t[0] == "list":
            return f"list ({self.cty(t[1], elt)})"
        if isinstance(t, tuple) and t[0] == "obj":
            lay = self.layout(t[1])
            if not lay:
                return "unit"
            return "(" + " * ".join(self.cty(ft, t[2] or elt) for _, ft in lay) + ")"
        raise Unsupported(f"type {t}")

    def subst(self, t, elt):
        if t == ELT and elt:
            return elt
        if isinstance(t, tuple) and t[0] in ("opt", "list"):
            return (t[0], self.subst(t[1], elt))
        return t

    def name(self, p="v"):
        self.fresh += 1
        return f"{p}{self.fresh}"

    # ------------------------------------------------------------------ object <-> tuple
    def pack(self, o: O):
        if not o.fields:
            return "tt"
        parts = []
        for k, v in o.fields.items():
            if v is None:
                raise Unsupported(f"field {o.cls}.{k} unset")
            parts.append(self.pack(v) if isinstance(v, O) else v.e)
        return parts[0] if len(parts) == 1 else "(" + ", ".join(parts) + ")"

    def fresh_obj(self, clsname, elt=None, prefix=None):
        """an object of the class's layout whose fields are fresh variables; returns (O, pattern)"""
        lay = self.layout(clsname)
        fields, pats = {}, []
        for k, t in lay:
            if isinstance(t, tuple) and t[0] == "obj":
                so, sp = self.fresh_obj(t[1], t[2] or elt)
                fields[k] = so
                pats.append(sp)
            else:
                n = self.name((prefix or "") + k.strip("_").replace(".", "_") + "_")
                fields[k] = V(n, self.subst(t, elt))
                pats.append(n)
        o = O(clsname, fields, elt)
        if not pats:
            return o, "_"
        return o, (pats[0] if len(pats) == 1 else "(" + ", ".join(pats) + ")")

    # ------------------------------------------------------------------ layouts
    def layout(self, clsname):
        if clsname in self.layout_cache:
            return self.layout_cache[clsname]
        if clsname in self.spec.get("layouts", {}):
            lay = list(self.spec["layouts"][clsname])
            self.layout_cache[clsname] = lay
            return lay
        if ("layout", clsname) in self.inprogress:
            raise Unsupported(f"recursive layout {clsname}")
        self.inprogress.add(("layout", clsname))
        try:
            o = self._run_init_for_layout(clsname)
        finally:
            self.inprogress.discard(("layout", clsname))
        lay = [(k, (v.ty if v is not None else None)) for k, v in o.fields.items()]
        for k, t in lay:
            if t is None or t == NONE:
                raise Unsupported(f"cannot type field {clsname}.{k}")
        self.layout_cache[clsname] = lay
        return lay

    def _run_init_for_layout(self, clsname):
        """symbolically run __init__ once (output discarded) to learn the storage fields and their types"""
        found = self.find(clsname, "__init__")
        if not found:
            return O(clsname, {}, self.spec.get("elt", {}).get(clsname))
        dcls, fn = found
        o = O(clsname, {}, self.spec.get("elt", {}).get(clsname))
        o.discover = True
        fr = Frame(self, o, dcls, fn, clsname, "__init__", discover=True)
        fr.bind_params([V(self.name("p"), t) for t in fr.param_types()])
        blk = Block()
        fr.run(self._body(fn), blk)
        return o

    @staticmethod
    def _body(fn):
        b = fn.body
        if b and isinstance(b[0], ast.Expr) and isinstance(b[0].value, ast.Constant) and isinstance(b[0].value.value, str):
            b = b[1:]
        return b

    # ------------------------------------------------------------------ units
    def unit_name(self, recv, meth, start=None):
        first = self.find(recv, meth)
        m = meth.strip("_") if meth.startswith("__") else meth
        m = {"init": "init", "call": "call"}.get(m, m)
        if start is None or (first and first[0] == start):
            return f"{recv}_{m}"
        return f"{recv}_super_{start}_{m}"

    def gen(self, recv, meth, start=None):
        """generate (memoised) the definition for method `meth` on receivers of class `recv`;
        `start`: class at which the MRO lookup starts (for super() calls)."""
        if start is None:
            found = self.find(recv, meth)
        else:
            m = self.mro(recv)
            found = None
            for c in m[m.index(start):]:
                f = self.find(c, meth)
                if f and f[0] in m[m.index(start):]:
                    found = f
                    break
        if not found:
            raise Unsupported(f"no method {meth} on {recv}")
        dcls, fn = found
        name = self.unit_name(recv, meth, dcls)
        if name in self.sigs:
            return name
        if name in self.inprogress:
            raise Unsupported(f"recursive method {name}")
        self.inprogress.add(name)
        try:
            is_init = meth == "__init__"
            elt = self.spec.get("elt", {}).get(recv)
            lay = self.layout(recv)
            if is_init:
                selfo = O(recv, {k: None for k, _ in lay}, elt)
                selfpat = None
            else:
                selfo, selfpat = self.fresh_obj(recv, elt)
            fr = Frame(self, selfo, dcls, fn, recv, meth)
            ptys = fr.param_types()
            pvals = [V(f"{p}_", t) for p, t in zip(fr.param_names(), ptys)]
            fr.bind_params(pvals)
            blk = Block()
            done = fr.run(self._body(fn), blk)
            if not done:
                blk.final = fr.ok_result(None)
            rty = fr.ret_type()
            body = fr.resolve_returns(blk.render(fr, rty), rty)
            args = ""
            if selfpat is not None:
                args += f" (self_ : {self.cty(obj(recv, elt))})"
            for pv in pvals:
                args += f" ({pv.e} : {self.cty(pv.ty, elt)})"
            selfty = self.cty(obj(recv, elt))
            rt = f"res ({selfty} * {self.cty(rty, elt)})"
            import re
            poly = " {T : Type}" if re.search(r"\bT\b", args + rt + body) else ""
            text = f"Definition {name}{poly}{args} : {rt} :=\n"
            if selfpat is not None and selfpat != "_":
                text += f"  let '{selfpat} := self_ in\n"
            text += body + ".\n"
            self.units[name] = text
            self.order.append(name)
            self.sigs[name] = ([pv.ty for pv in pvals], obj(recv, elt), rty, fr.param_names(), fr.param_defaults())
            self.sources[name] = (self.classes[dcls][0][1], fn.lineno, f"{dcls}.{meth}")
        finally:
            self.inprogress.discard(name)
        return name

    def emit(self, module_doc=""):
        out = [
            "(** GENERATED by harness/py2coq.py from /repo's source on every run -- do not edit. " + module_doc + " *)",
            "From Coq Require Import ZArith List Bool.",
            "From FV Require Import NumSys Py NumX Queue.",
            "Import ListNotations.",
            "Section Gen.",
            "  Context {A : Arith}" + "".join(f" ({o} : {t})" for o, t in sorted(self.used_oracles.items())) + ".",
        ]
        if "g_argmax" in self.use_prelude:
            out.append("(* numpy argmax of a 1-D array: position of the FIRST maximum *)")
            out.append("Fixpoint g_argmax_from (l : list (num A)) (i best_i : Z) (best : num A) : Z :=\n  match l with [] => best_i | x :: r => if ltb best x then g_argmax_from r (Z.add i 1%Z) i x else g_argmax_from r (Z.add i 1%Z) best_i best end.")
            out.append("Definition g_argmax (l : list (num A)) : Z := match l with [] => 0%Z | x :: r => g_argmax_from r 1%Z 0%Z x end.")
        for n in self.order:
            f, ln, q = self.sources[n]
            out.append(f"(* {q}  <-  {f}:{ln} *)")
            out.append(self.units[n])
        out.append("End Gen.")
        # every generated definition can be unfolded by name-independent proof scripts: `autounfold with gensrc`
        out.append("#[global] Hint Unfold " + " ".join(self.order) + " : gensrc.")
        return "\n".join(out) + "\n"

    def _has_elt(self, c):
        def walk(t):
            if t == ELT:
                return True
            if isinstance(t, tuple) and t[0] in ("opt", "list"):
                return walk(t[1])
            if isinstance(t, tuple) and t[0] == "obj":
                return t[2] is None and self._has_elt(t[1])
            return False

        return any(walk(t) for _, t in self.layout(c))


class Block:
    """a sequence of binders followed by a final expression of type res (...)"""

    def __init__(self):
        self.lines = []
        self.final = None  # set when the block terminates (raise / return / if with terminating branches)
        self.returns = None  # V to return at fall-through end (None -> unit)

    def let(self, pat, e):
        self.lines.append(f"let {pat} := {e} in")

    def do(self, pat, e):
        self.lines.append(f"do {pat.lstrip(chr(39))} <- {e};")

    def render(self, fr, rty, indent="  "):
        fin = self.final
        return "\n".join(indent + l for l in self.lines + [fin])

    def render_with(self, fin, indent="    "):
        return "\n".join(indent + l for l in self.lines + [fin])


class Frame:
    def __init__(self, tr: Translator, selfo: O, dcls, fn, recv, meth, discover=False):
        self.tr, self.self, self.dcls, self.fn, self.recv, self.meth = tr, selfo, dcls, fn, recv, meth
        self.env = {}
        self.discover = discover
        self.cur = None  # block receiving guards raised while evaluating expressions (ZeroDivisionError)
        self.rets = []  # values returned at the return sites (shared with forks); None = bare return / fall-through
        self.is_init = meth == "__init__"

    # -------------------------------------------------------------- params
    def param_names(self):
        a = self.fn.args
        names = [x.arg for x in a.args if x.arg != "self"] + [x.arg for x in a.kwonlyargs]
        return [n for n in names if self._ptype(n, None) != "skip"]

    def param_defaults(self):
        a = self.fn.args
        pos = [x.arg for x in a.args]
        d = {}
        for n, dv in zip(pos[len(pos) - len(a.defaults):], a.defaults):
            d[n] = dv
        for x, dv in zip(a.kwonlyargs, a.kw_defaults):
            if dv is not None:
                d[x.arg] = dv
        return d

    def _ptype(self, pname, ann):
        key = (self.recv, self.meth, pname)
        key2 = (self.dcls, self.meth, pname)
        pt = self.tr.spec.get("param_types", {})
        for k in (key, key2, ("*", self.meth, pname), ("*", "*", pname)):
            if k in pt:
                return pt[k]
        return None

    def param_types(self):
        a = self.fn.args
        out = []
        for x in [y for y in a.args if y.arg != "self"] + list(a.kwonlyargs):
            t = self._ptype(x.arg, x.annotation)
            if t == "skip":
                continue
            if t is None:
                t = self._ann(x.annotation, x.arg)
            out.append(t)
        if a.vararg:
            raise Unsupported(f"*args in {self.dcls}.{self.meth}")
        return out

    def _ann(self, ann, pname):
        s = ast.unparse(ann) if ann is not None else ""
        table = {"int": INT, "float": NUM, "bool": BOOL, "Union[int, float]": NUM, "Optional[int]": opt(INT), "str": STR}
        if s in table:
            return table[s]
        raise Unsupported(f"cannot type parameter {pname}: {s!r} of {self.dcls}.{self.meth}")

    def bind_params(self, vals):
        for n, v in zip(self.param_names(), vals):
            self.env[n] = v

    # -------------------------------------------------------------- results
    def ret_type(self):
        ts = [v.ty for v in self.rets if v is not None]
        if not ts:
            return UNIT
        t = ts[0]
        for u in ts[1:]:
            t = join(t, u)
        if t == NONE:
            raise Unsupported(f"{self.dcls}.{self.meth} only ever returns None explicitly")
        if any(v is None for v in self.rets) and not (isinstance(t, tuple) and t[0] == "opt"):
            t = opt(t)  # `return` without value next to `return x`
        return t

    def resolve_returns(self, text, rty):
        for i, v in enumerate(self.rets):
            if v is None:
                e = "tt" if rty == UNIT else "None"
            else:
                e = coerce(v, rty).e
            text = text.replace(f"@@RET{i}@@", e)
        return text

    def ok_result(self, v, rty=None):
        """`Ok (self', ret)`; the return value is coerced lazily by a second pass (see fix_returns)"""
        if self.discover:
            return "Ok tt"
        if isinstance(v, O):
            raise Unsupported("returning an object")
        self.rets.append(v)
        return f"Ok ({self.tr.pack(self.self)}, @@RET{len(self.rets) - 1}@@)"

    # -------------------------------------------------------------- running statements
    def run(self, stmts, blk: Block):
        """execute statements appending to blk; returns True when the block terminated"""
        self.cur = blk
        for i, s in enumerate(stmts):
            self.cur = blk
            rest = stmts[i + 1:]
            if isinstance(s, ast.Pass):
                continue
            if isinstance(s, ast.Expr):
                if isinstance(s.value, ast.Constant):
                    continue
                if isinstance(s.value, ast.Call):
                    self.call_stmt(s.value, blk)
                    continue
                raise Unsupported(f"expression statement {ast.unparse(s)}")
            if isinstance(s, ast.Assign):
                if len(s.targets) != 1:
                    raise Unsupported("multiple assignment targets")
                self.assign(s.targets[0], s.value, blk)
                continue
            if isinstance(s, ast.AnnAssign):
                if s.value is None:
                    continue
                self.assign(s.target, s.value, blk)
                continue
            if isinstance(s, ast.AugAssign):
                binop = ast.BinOp(left=self._as_load(s.target), op=s.op, right=s.value)
                ast.copy_location(binop, s)
                self.assign(s.target, binop, blk)
                continue
            if isinstance(s, ast.Raise):
                blk.final = "Raise " + self.exn_name(s.exc)
                return True
            if isinstance(s, ast.Return):
                if s.value is None:
                    blk.final = self.ok_result(None)
                elif self.is_effect_call(s.value):
                    v = self.call_stmt(s.value, blk)
                    blk.final = self.ok_result(v)
                else:
                    blk.final = self.ok_result(self.ev(s.value))
                return True
            if isinstance(s, ast.For):
                it = ast.unparse(s.iter)
                if it == "self.callbacks":
                    continue  # callback-free instance
                if isinstance(s.iter, ast.Call) and isinstance(s.iter.func, ast.Name) and s.iter.func.id == "range" and len(s.iter.args) in (1, 2) and not s.orelse and not s.iter.keywords:
                    used = isinstance(s.target, ast.Name) and any(isinstance(nd, ast.Name) and nd.id == s.target.id for st in s.body for nd in ast.walk(st))
                    if len(s.iter.args) == 2 or used:
                        # `for i in range(a, b): body`  ==  i = a; repeat max(b - a, 0) times: body; i = i + 1
                        # (i must not be assigned in the body; its value after the loop is not used by the subset)
                        if not isinstance(s.target, ast.Name) or any(isinstance(nd, ast.Name) and nd.id == s.target.id and isinstance(nd.ctx, ast.Store) for st in s.body for nd in ast.walk(st)):
                            raise Unsupported("for target assigned in the loop body")
                        lo, hi = (ast.Constant(value=0), s.iter.args[0]) if len(s.iter.args) == 1 else s.iter.args
                        iv = s.target.id
                        init = ast.Assign(targets=[ast.Name(id=iv, ctx=ast.Store())], value=lo)
                        step = ast.Assign(targets=[ast.Name(id=iv, ctx=ast.Store())], value=ast.BinOp(left=ast.Name(id=iv, ctx=ast.Load()), op=ast.Add(), right=ast.Constant(value=1)))
                        loop = ast.For(target=ast.Name(id="_", ctx=ast.Store()), iter=ast.Call(func=ast.Name(id="range", ctx=ast.Load()), args=[ast.BinOp(left=hi, op=ast.Sub(), right=lo)], keywords=[]), body=list(s.body) + [step], orelse=[])
                        for nd_ in (init, loop):
                            ast.copy_location(nd_, s)
                            ast.fix_missing_locations(nd_)
                        self.assign(init.targets[0], init.value, blk)
                        self.run_for_range(loop, blk)
                        self.cur = blk
                        continue
                    self.run_for_range(s, blk)
                    self.cur = blk
                    continue
                raise Unsupported(f"for loop over {it}")
            if isinstance(s, ast.If):
                if self.run_if(s, rest, blk):
                    return True
                continue
            if isinstance(s, ast.Try):
                ok = not s.orelse and not s.finalbody and all(
                    h.name and len(h.body) == 1 and isinstance(h.body[0], ast.Raise) and isinstance(h.body[0].exc, ast.Name) and h.body[0].exc.id == h.name
                    for h in s.handlers)
                if not ok:
                    raise Unsupported("try statement other than `except E as e: raise e`")
                if self.run(s.body, blk):
                    return True
                self.cur = blk
                continue
            raise Unsupported(f"statement {type(s).__name__}: {ast.unparse(s)[:80]}")
        return False

    def run_for_range(self, s, blk):
        """`for _ in range(n): body` -> iter_res (Z.to_nat n) (fun carried => body) carried0.
        The loop variable must be unused; the carried state is what the body modifies (found by a dry run)."""
        if not (isinstance(s.target, ast.Name)):
            raise Unsupported("for target")
        lv = s.target.id
        for st in s.body:
            for nd in ast.walk(st):
                if isinstance(nd, ast.Name) and nd.id == lv:
                    raise Unsupported("the loop variable is used in the body")
        if self._has_return(s.body) or any(isinstance(nd, (ast.Break, ast.Continue)) for st in s.body for nd in ast.walk(st)):
            raise Unsupported("return / break / continue inside a for loop")
        n = self.ev(s.iter.args[0])
        if n.ty != INT:
            raise Unsupported("range of a non-int")
        # dry run: which variables / fields does the body modify?
        dry = self.fork()
        b0 = Block()
        if dry.run(s.body, b0):
            raise Unsupported("loop body terminates")
        paths = self.modified([dry])
        for p in list(paths):
            if p[0] == "local" and self.get_path(p) is None:
                paths.remove(p)  # a local first bound inside the body is not carried
        if not paths:
            return
        pre = [self.get_path(p) for p in paths]
        post0 = [dry.get_path(p) for p in paths]
        tys = [join(a.ty, b_.ty) for a, b_ in zip(pre, post0)]
        carried = [self.tr.name(p[-1].strip("_").replace(".", "_") + "_") for p in paths]
        body_fr = self.fork()
        for p, nm, t in zip(paths, carried, tys):
            body_fr.set_path(p, V(nm, t))
        bb = Block()
        if body_fr.run(s.body, bb):
            raise Unsupported("loop body terminates")
        post = [coerce(body_fr.get_path(p), t).e for p, t in zip(paths, tys)]
        tup = lambda xs: xs[0] if len(xs) == 1 else "(" + ", ".join(xs) + ")"
        pat = carried[0] if len(carried) == 1 else "'(" + ", ".join(carried) + ")"
        fn = f"(fun {pat} =>\n" + bb.render_with("Ok " + (tup(post) if len(post) > 1 else f"({post[0]})")) + ")"
        out = [self.tr.name(p[-1].strip("_").replace(".", "_") + "_") for p in paths]
        opat = out[0] if len(out) == 1 else "'(" + ", ".join(out) + ")"
        init = tup([coerce(v, t).e for v, t in zip(pre, tys)])
        blk.do(opat, f"iter_res (Z.to_nat {n.e}) {fn} {init}")
        for p, nm, t in zip(paths, out, tys):
            self.set_path(p, V(nm, t))

    @staticmethod
    def _as_load(t):
        t2 = ast.parse(ast.unparse(t), mode="eval").body
        return t2

    @staticmethod
    def terminates(stmts):
        if not stmts:
            return False
        s = stmts[-1]
        if isinstance(s, (ast.Raise, ast.Return)):
            return True
        if isinstance(s, ast.If):
            return Frame.terminates(s.body) and Frame.terminates(s.orelse)
        return False

    def static_bool(self, v):
        if v.e == "true":
            return True
        if v.e == "false":
            return False
        return None

    def run_if(self, s, rest, blk):
        if self.is_effect_call(s.test):
            c = self.truth(self.call_stmt(s.test, blk))
            self.cur = blk
        else:
            c = self.truth(self.ev(s.test))
        sb = self.static_bool(c)
        if sb is not None:  # statically decided (isinstance on typed values)
            return self.run(s.body if sb else s.orelse, blk)
        tt, et = self.terminates(s.body), self.terminates(s.orelse)
        returns = lambda stmts: any(isinstance(x, ast.Return) for st in stmts for x in ast.walk(st))
        if (tt and returns(s.body)) or (et and returns(s.orelse)):
            # a branch returns early: the continuation is duplicated into the other branch
            outs = []
            for branch, term in ((s.body, tt), (s.orelse, et)):
                sub = self.fork()
                b = Block()
                done = sub.run(branch + ([] if term else rest), b)
                fin = b.final if done else sub.ok_result(None)
                outs.append(b.render_with(fin))
                self.absorb(sub)
            blk.final = f"if {c.e} then\n{outs[0]}\n  else\n{outs[1]}"
            return True
        # branches fall through or raise: merge the modified variables / fields of the falling ones
        subs, blocks, raised = [], [], []
        for branch in (s.body, s.orelse):
            sub = self.fork()
            b = Block()
            r = sub.run(branch, b)
            raised.append(r)
            subs.append(sub)
            blocks.append(b)
            self.absorb(sub)
        if all(raised):
            blk.final = f"if {c.e} then\n{blocks[0].render_with(blocks[0].final)}\n  else\n{blocks[1].render_with(blocks[1].final)}"
            return True
        if any(raised):
            live = subs[1] if raised[0] else subs[0]
            paths = self.modified([live])
            vals1 = [live.get_path(p) for p in paths]
            for v in vals1:
                if v is None:
                    raise Unsupported("unset value after guard")
            tys = [v.ty for v in vals1]
            names = [self.tr.name(p[-1].strip("_").replace(".", "_") + "_") for p in paths]
            tupv = "tt" if not vals1 else (vals1[0].e if len(vals1) == 1 else "(" + ", ".join(v.e for v in vals1) + ")")
            pat = "_" if not names else (names[0] if len(names) == 1 else "'(" + ", ".join(names) + ")")
            es = []
            for r, b in zip(raised, blocks):
                es.append(b.render_with(b.final) if r else b.render_with(f"Ok {tupv}" if tupv.startswith("(") or tupv == "tt" else f"Ok {tupv}"))
            blk.do(pat, f"(if {c.e} then\n{es[0]}\n  else\n{es[1]})")
            for p, n, t in zip(paths, names, tys):
                self.set_path(p, V(n, t))
            return False
        paths = self.modified(subs)
        if not paths:
            if any(b.lines for b in blocks):
                blk.do("_", f"(if {c.e} then\n{blocks[0].render_with('Ok tt')}\n  else\n{blocks[1].render_with('Ok tt')})")
            return False
        # a local bound in only one branch is undefined afterwards (reading it later is then an unbound name)
        for p in [p for p in paths if p[0] == "local" and any(sub.get_path(p) is None for sub in subs)]:
            paths.remove(p)
            self.env.pop(p[1], None)
        vals = [[sub.get_path(p) for p in paths] for sub in subs]
        tys = []
        for a, b_ in zip(*vals):
            if a is None or b_ is None:
                raise Unsupported(f"field set in only one branch of `if {ast.unparse(s.test)}`")
            tys.append(join(a.ty, b_.ty))
        tup = lambda vs: (lambda xs: xs[0] if len(xs) == 1 else "(" + ", ".join(xs) + ")")([coerce(v, t).e for v, t in zip(vs, tys)])
        names = [self.tr.name(p[-1].strip("_").replace(".", "_") + "_") for p in paths]
        pat = names[0] if len(names) == 1 else "'(" + ", ".join(names) + ")"
        pure = not any("do " in l or "Raise" in l for b in blocks for l in b.lines)
        if pure:
            e0 = blocks[0].render_with(tup(vals[0]))
            e1 = blocks[1].render_with(tup(vals[1]))
            blk.let(pat, f"(if {c.e} then\n{e0}\n  else\n{e1})")
        else:
            e0 = blocks[0].render_with(f"Ok {tup(vals[0])}" if len(names) > 1 else f"Ok ({tup(vals[0])})")
            e1 = blocks[1].render_with(f"Ok {tup(vals[1])}" if len(names) > 1 else f"Ok ({tup(vals[1])})")
            blk.do(pat, f"(if {c.e} then\n{e0}\n  else\n{e1})")
        for p, n, t in zip(paths, names, tys):
            self.set_path(p, V(n, t))
        return False

    def fork(self):
        f = Frame(self.tr, self.self.copy(), self.dcls, self.fn, self.recv, self.meth, self.discover)
        f.env = {k: (v.copy() if isinstance(v, O) else v) for k, v in self.env.items()}
        f.rets = self.rets
        return f

    def absorb(self, sub):
        if self.discover:  # keep discovered fields
            for k, v in sub.self.fields.items():
                if k not in self.self.fields or self.self.fields[k] is None:
                    self.self.fields[k] = v

    def modified(self, subs):
        paths = []

        def walk(prefix, base, others):
            keys = list(base.fields.keys()) if isinstance(base, O) else []
            for o in others:
                for k in o.fields:
                    if k not in keys:
                        keys.append(k)
            for k in keys:
                bv = base.fields.get(k) if isinstance(base, O) else None
                ovs = [o.fields.get(k) for o in others]
                if any(isinstance(x, O) for x in ovs):
                    if not all(isinstance(x, O) for x in ovs):
                        raise Unsupported("object/value mismatch across branches")
                    if isinstance(bv, O) and all(x.cls == bv.cls for x in ovs):
                        walk(prefix + (k,), bv, ovs)
                    else:  # object replaced: compare leaf-wise against nothing
                        walk(prefix + (k,), O(ovs[0].cls, {}), ovs)
                elif any(x is not bv for x in ovs):
                    paths.append(prefix + (k,))

        walk(("self",), self.self, [s.self for s in subs])
        for k in sorted(set().union(*[set(s.env) for s in subs])):
            vs = [s.env.get(k) for s in subs]
            if any(isinstance(x, O) for x in vs):
                if any(x is not self.env.get(k) for x in vs):
                    raise Unsupported("local object variables assigned in branches")
                continue
            if any(x is not self.env.get(k) for x in vs):
                paths.append(("local", k))
        return paths

    def get_path(self, p):
        if p[0] == "local":
            return self.env.get(p[1])
        o = self.self
        for k in p[1:-1]:
            o = o.fields[k]
        return o.fields.get(p[-1])

    def set_path(self, p, v):
        if p[0] == "local":
            self.env[p[1]] = v
            return
        o = self.self
        for k in p[1:-1]:
            o = o.fields[k]
        o.fields[p[-1]] = v

    # -------------------------------------------------------------- assignment
    def assign(self, target, value, blk):
        if isinstance(target, ast.Attribute) and target.attr in self.tr.spec.get("skip_fields", ()):
            return
        # desugar `x = call() if c else e`
        if isinstance(value, ast.IfExp) and (self.is_effect_call(value.body) or self.is_effect_call(value.orelse)):
            node = ast.If(test=value.test, body=[ast.Assign(targets=[target], value=value.body)], orelse=[ast.Assign(targets=[target], value=value.orelse)])
            ast.fix_missing_locations(node)
            if self.run_if(node, [], blk):
                raise Unsupported("terminating conditional assignment")
            return
        if self.is_effect_call(value):
            v = self.call_stmt(value, blk)
        elif isinstance(value, ast.Dict) and isinstance(target, ast.Attribute) and target.attr == "additional_vars":
            for k, e in zip(value.keys, value.values):
                if not (isinstance(k, ast.Constant) and isinstance(k.value, str)):
                    raise Unsupported("additional_vars key")
                sub = ast.Subscript(value=ast.Attribute(value=ast.Name(id="self"), attr="_additional_vars"), slice=ast.Constant(value=k.value))
                self.assign(sub, e, blk)
            return
        else:
            v = self.ev(value)
        self.store(target, v, blk)

    def store(self, target, v, blk):
        if isinstance(target, ast.Tuple):
            if not (isinstance(v, V) and isinstance(v.ty, tuple) and v.ty[0] == "tuple" and len(v.ty[1]) == len(target.elts)):
                raise Unsupported("tuple assignment from a non-tuple")
            names = [self.tr.name("t_") for _ in target.elts]
            blk.let("'(" + ", ".join(names) + ")", v.e)
            for tnode, nm, ty in zip(target.elts, names, v.ty[1]):
                self.store(tnode, V(nm, ty), blk)
            return
        if isinstance(target, ast.Name):
            if isinstance(v, V) and not self._atomic(v.e):
                n = self.tr.name(target.id + "_")
                blk.let(n, v.e)
                v = V(n, v.ty)
            self.env[target.id] = v
            return
        if isinstance(target, ast.Attribute):
            base = self.ev(target.value)
            if not isinstance(base, O):
                raise Unsupported(f"attribute store on non-object {ast.unparse(target)}")
            self.setattr(base, target.attr, v, blk)
            return
        if isinstance(target, ast.Subscript):
            key = target.slice
            if isinstance(key, ast.Constant) and isinstance(key.value, str):
                base = self.ev(target.value, allow_dict=True)
                if not (isinstance(base, tuple) and base[0] == "dict"):
                    raise Unsupported("string subscript store")
                self.setfield(base[1], f"{base[2]}.{key.value}", v, blk)
                return
            if isinstance(key, ast.Slice) and isinstance(target.value, ast.Attribute):
                # arr[a:b] = scalar on a float array (0 <= a <= b <= len, guarded): the entries a .. b-1 are overwritten
                if key.lower is None or key.upper is None or key.step is not None:
                    raise Unsupported("slice store shape")
                owner = self.ev(target.value.value)
                l = self.getattr(owner, target.value.attr)
                a, b = self.ev(key.lower), self.ev(key.upper)
                if not (is_vec(l.ty) and a.ty == INT and b.ty == INT and isinstance(v, V) and v.ty in (INT, NUM)):
                    raise Unsupported("slice store typing")
                la = self.bind_atomic(l, "arr_")
                self.guard(f"(orb (Z.ltb {a.e} 0%Z) (orb (Z.ltb {b.e} {a.e}) (Z.ltb (Z.of_nat (length {la.e})) {b.e})))", "IndexError")
                nl = V(f"(firstn (Z.to_nat {a.e}) {la.e} ++ repeat {coerce(v, NUM).e} (Z.to_nat (Z.sub {b.e} {a.e})) ++ skipn (Z.to_nat {b.e}) {la.e})", l.ty)
                self.setattr(owner, target.value.attr, nl, blk, raw_list=True)
                return
            # list element store: self.queue[i] = value
            if not isinstance(target.value, ast.Attribute):
                raise Unsupported("subscript store")
            owner = self.ev(target.value.value)
            l = self.getattr(owner, target.value.attr)
            i = self.ev(key)
            if not (isinstance(l.ty, tuple) and l.ty[0] == "list" and i.ty == INT):
                raise Unsupported("list store typing")
            et = l.ty[1]
            if isinstance(et, tuple) and et[0] == "opt":
                x = coerce(v, et)
            else:
                x = coerce(v, et)
            if is_vec(l.ty):
                # a NumPy array: an out-of-range store raises IndexError (a negative index counts from the end: outside the subset)
                self.guard(f"(orb (Z.ltb {i.e} 0%Z) (Z.leb (Z.of_nat (length {l.e})) {i.e}))", "IndexError")
            nl = V(f"(set_nth (Z.to_nat {i.e}) {x.e} {l.e})", l.ty)
            self.setattr(owner, target.value.attr, nl, blk, raw_list=True)
            return
        raise Unsupported(f"assignment target {ast.unparse(target)}")

    @staticmethod
    def _atomic(e):
        import re
        return e.replace("_", "a").replace("'", "a").isalnum() or bool(re.fullmatch(r"\d+%Z|\(-\d+\)%Z|\(ofZ \d+%Z\)|true|false|None|tt", e))

    def setattr(self, o: O, attr, v, blk, raw_list=False):
        st = self.tr.find(o.cls, attr, kind="setter")
        if st and not raw_list:
            dcls, fn = st
            pname = [a.arg for a in fn.args.args if a.arg != "self"][0]
            sub = Frame(self.tr, o, dcls, fn, o.cls, f"{attr}.setter", self.discover)
            if isinstance(v, V) and not self._atomic(v.e):
                n = self.tr.name(attr.strip("_") + "_")
                blk.let(n, v.e)
                v = V(n, v.ty)
            sub.env[pname] = v
            body = self.tr._body(fn)
            if self._has_return(body):
                raise Unsupported(f"return inside setter {dcls}.{attr}")
            b = Block()
            if sub.run(body, b):
                # setter that always raises / ends in if-with-raise: splice as a guard sequence
                blk.lines.extend(b.lines[:-0] if False else b.lines)
                if not self._splice_guard(b, blk, sub):
                    raise Unsupported(f"setter {dcls}.{attr} terminates")
            else:
                blk.lines.extend(b.lines)
            return
        if st and raw_list:
            # in-place list mutation bypasses the setter (`self.queue[i] = x` mutates the list object)
            gt = self.tr.find(o.cls, attr, kind="getter")
            storage = self._getter_storage(gt[1]) if gt else attr
            self.setfield(o, storage, v, blk)
            return
        self.setfield(o, attr, v, blk)

    def _splice_guard(self, b, blk, sub):
        return False

    @staticmethod
    def _has_return(stmts):
        return any(isinstance(n, ast.Return) for s in stmts for n in ast.walk(s))

    @staticmethod
    def _getter_storage(fn):
        body = Translator._body(fn)
        if len(body) == 1 and isinstance(body[0], ast.Return) and isinstance(body[0].value, ast.Attribute) and ast.unparse(body[0].value.value) == "self":
            return body[0].value.attr
        raise Unsupported(f"getter {fn.name} is not `return self._x`")

    def setfield(self, o: O, storage, v, blk):
        decl = self.tr.spec.get("field_types", {}).get((o.cls, storage))
        if decl is None and not self.discover:
            lay = dict(self.tr.layout(o.cls))
            if storage not in lay:
                raise Unsupported(f"assignment to undeclared field {o.cls}.{storage}")
            decl = self.tr.subst(lay[storage], o.elt)
        if isinstance(v, O):
            if decl is not None and not (isinstance(decl, tuple) and decl[0] == "obj" and decl[1] == v.cls):
                raise Unsupported(f"object of class {v.cls} stored in field {o.cls}.{storage} : {decl}")
            o.fields[storage] = v
            return
        if decl is not None:
            v = coerce(v, self.tr.subst(decl, o.elt))
        if v.ty == NONE:
            raise Unsupported(f"untyped None stored in {o.cls}.{storage} (declare its type)")
        if not self._atomic(v.e):
            n = self.tr.name(storage.strip("_").replace(".", "_") + "_")
            blk.let(n, v.e)
            v = V(n, v.ty)
        o.fields[storage] = v

    # -------------------------------------------------------------- attribute reads
    def getattr(self, o, attr, allow_dict=False):
        if not isinstance(o, O):
            raise Unsupported(f"attribute {attr} of non-object")
        consts = self.tr.spec.get("consts", {})
        if (o.cls, attr) in consts:
            return consts[(o.cls, attr)]
        gt = self.tr.find(o.cls, attr, kind="getter")
        if gt:
            dcls, fn = gt
            body = self.tr._body(fn)
            if len(body) != 1 or not isinstance(body[0], ast.Return):
                raise Unsupported(f"getter {dcls}.{attr} is not a single return")
            sub = Frame(self.tr, o, dcls, fn, o.cls, attr, self.discover)
            sub.cur = self.cur
            return sub.ev(body[0].value, allow_dict=allow_dict)
        if attr in o.fields:
            v = o.fields[attr]
            if v is None:
                raise Unsupported(f"read of unset field {o.cls}.{attr}")
            return v
        if allow_dict and attr == "_additional_vars":
            return ("dict", o, attr)
        for c in self.tr.mro(o.cls):
            for node in self.tr.cls(c).body:
                if isinstance(node, ast.Assign) and len(node.targets) == 1 and isinstance(node.targets[0], ast.Name) and node.targets[0].id == attr:
                    if isinstance(node.value, ast.Dict) and all(isinstance(k, ast.Constant) and isinstance(k.value, int) for k in node.value.keys):
                        return ("classdict", [k.value for k in node.value.keys], node.value.values)
                    raise Unsupported(f"class attribute {c}.{attr}")
        if self.tr.find(o.cls, attr, kind="method"):
            raise Unsupported(f"method {attr} used as a value")
        raise Unsupported(f"unknown attribute {o.cls}.{attr}")

    # -------------------------------------------------------------- expressions
    def ev(self, n, allow_dict=False):
        tr = self.tr
        if isinstance(n, ast.Constant):
            v = n.value
            if v is None:
                return V("None", NONE)
            if isinstance(v, bool):
                return V("true" if v else "false", BOOL)
            if isinstance(v, int):
                return V(zlit(v), INT)
            if isinstance(v, float):
                return V(flit(v), NUM)
            if isinstance(v, str):
                return V(f'"{v}"', STR)
            raise Unsupported(f"constant {v!r}")
        if isinstance(n, ast.Name):
            if n.id == "self":
                return self.self
            if n.id in self.env:
                return self.env[n.id]
            raise Unsupported(f"unbound name {n.id}")
        if isinstance(n, ast.Attribute):
            base = self.ev(n.value, allow_dict=False)
            return self.getattr(base, n.attr, allow_dict=allow_dict)
        if isinstance(n, ast.Subscript):
            if isinstance(n.slice, ast.Constant) and isinstance(n.slice.value, str):
                base = self.ev(n.value, allow_dict=True)
                if isinstance(base, tuple) and base[0] == "dict":
                    key = f"{base[2]}.{n.slice.value}"
                    v = base[1].fields.get(key)
                    if v is None:
                        raise Unsupported(f"read of unset entry {key}")
                    return v
                raise Unsupported("string subscript")
            if isinstance(n.slice, ast.Slice) or (isinstance(n.slice, ast.Tuple) and len(n.slice.elts) == 2 and isinstance(n.slice.elts[1], ast.Slice)):
                return self.ev_slice(n)
            l, i = self.ev(n.value, allow_dict=True), self.ev(n.slice)
            if isinstance(l, O):
                d = self.tr.find(l.cls, "__getitem__")
                if d and self.is_pure_inline(d[1]):
                    sub = Frame(self.tr, l, d[0], d[1], l.cls, "__getitem__", self.discover)
                    sub.cur = self.cur
                    pn = [a.arg for a in d[1].args.args if a.arg != "self"][0]
                    sub.env[pn] = i
                    return self.eval_pure_body(sub, d[1])
                raise Unsupported("subscript of an object")
            if isinstance(l, tuple) and l[0] == "classdict" and isinstance(i, V) and i.ty == INT and all(isinstance(x, ast.Lambda) for x in l[2]):
                return ("lambdasel", i, l[1], l[2])
            if isinstance(l, V) and isinstance(l.ty, tuple) and l.ty[0] == "list" and i.ty == INT and isinstance(l.ty[1], tuple) and l.ty[1][0] == "opt":
                return V(f"(nth (Z.to_nat {i.e}) {l.e} None)", l.ty[1])
            if isinstance(l, V) and is_vec(l.ty) and isinstance(i, V) and i.ty == INT:
                # arr[i], i >= 0 (a negative index counts from the end in Python: outside the subset, guarded)
                la = self.bind_atomic(l, "arr_")
                self.guard(f"(orb (Z.ltb {i.e} 0%Z) (Z.leb (Z.of_nat (length {la.e})) {i.e}))", "IndexError")
                return V(f"(nth (Z.to_nat {i.e}) {la.e} (@ofZ A 0%Z))", NUM)
            raise Unsupported(f"subscript {ast.unparse(n)}")
        if isinstance(n, ast.UnaryOp):
            x = self.ev(n.operand)
            if isinstance(n.op, ast.Not):
                t = self.truth(x)
                sb = self.static_bool(t)
                if sb is not None:
                    return V("false" if sb else "true", BOOL)
                return V(f"(negb {t.e})", BOOL)
            if isinstance(n.op, ast.USub):
                if x.ty == INT:
                    return V(f"(Z.opp {x.e})", INT)
                if x.ty == NUM:
                    return V(f"(neg {x.e})", NUM)
            raise Unsupported(f"unary {ast.unparse(n)}")
        if isinstance(n, ast.BinOp):
            return self.binop(n)
        if isinstance(n, ast.BoolOp):
            vs = []
            ndo = lambda: sum(1 for l in self.cur.lines if l.startswith("do ")) if self.cur is not None else 0
            for j, x in enumerate(n.values):
                n0 = ndo()
                vs.append(self.truth(self.ev(x)))
                if j > 0 and ndo() != n0:
                    raise Unsupported("a short-circuited operand can raise")
            op = "andb" if isinstance(n.op, ast.And) else "orb"
            e = vs[0].e
            for v in vs[1:]:
                e = f"({op} {e} {v.e})"
            return V(e, BOOL)
        if isinstance(n, ast.Compare):
            parts = []
            left = self.ev(n.left)
            for op, rn in zip(n.ops, n.comparators):
                right = self.ev(rn)
                parts.append(self.compare(op, left, right))
                left = right
            e = parts[0]
            for p in parts[1:]:
                e = V(f"(andb {e.e} {p.e})", BOOL)
            return e
        if isinstance(n, ast.IfExp):
            return self.ifexp(n)
        if isinstance(n, ast.Tuple):
            vs = [self.ev(x) for x in n.elts]
            if any(isinstance(v, O) for v in vs):
                raise Unsupported("tuple of objects")
            return V("(" + ", ".join(v.e for v in vs) + ")", ("tuple", [v.ty for v in vs]))
        if isinstance(n, ast.List) and len(n.elts) == 1 and isinstance(n.elts[0], ast.Starred) and isinstance(n.elts[0].value, ast.Call) \
                and ast.unparse(n.elts[0].value.func) == "itertools.islice" and len(n.elts[0].value.args) == 3 and not n.elts[0].value.keywords:
            # [*itertools.islice(seq, start, stop)] : the elements start .. stop-1 (islice rejects negative bounds)
            seq, a, b = (self.ev(x) for x in n.elts[0].value.args)
            if not (isinstance(seq, V) and isinstance(seq.ty, tuple) and seq.ty[0] == "list" and a.ty == INT and b.ty == INT):
                raise Unsupported("itertools.islice typing")
            self.guard(f"(orb (Z.ltb {a.e} 0%Z) (Z.ltb {b.e} 0%Z))", "ValueError")
            return V(f"(firstn (Z.to_nat (Z.sub {b.e} {a.e})) (skipn (Z.to_nat {a.e}) {seq.e}))", seq.ty)
        if isinstance(n, ast.List) and n.elts and not any(isinstance(e, ast.Starred) for e in n.elts):
            vs = [self.ev(e) for e in n.elts]
            if all(isinstance(v, V) and v.ty in (INT, NUM) for v in vs):
                return V("[" + "; ".join(coerce(v, NUM).e for v in vs) + "]", lst(NUM))
            if all(isinstance(v, V) and is_vec(v.ty) for v in vs):
                return V("[" + "; ".join(v.e for v in vs) + "]", lst(lst(NUM)))
            raise Unsupported("list literal typing")
        if isinstance(n, ast.Call):
            return self.call_expr(n)
        raise Unsupported(f"expression {type(n).__name__}: {ast.unparse(n)[:80]}")

    def ev_slice(self, n):
        """arr[:k], arr[:-1] on a 1-D array; mat[i, :k] on the ragged representation of a 2-D array (see builtin
        np.concatenate): the upper bound must not exceed the stored length (what lies beyond is padding: guarded)"""
        def upper(sl):
            if sl.lower is not None or sl.step is not None or sl.upper is None:
                raise Unsupported(f"slice {ast.unparse(n)}")
            if isinstance(sl.upper, ast.UnaryOp) and isinstance(sl.upper.op, ast.USub) and isinstance(sl.upper.operand, ast.Constant) and sl.upper.operand.value == 1:
                return "last"
            k = self.ev(sl.upper)
            if not (isinstance(k, V) and k.ty == INT):
                raise Unsupported("slice bound typing")
            return k
        if isinstance(n.slice, ast.Slice):
            l = self.ev(n.value, allow_dict=True)
            if not (isinstance(l, V) and is_vec(l.ty)):
                raise Unsupported(f"slice of {ast.unparse(n.value)}")
            k = upper(n.slice)
            if k == "last":
                return V(f"(removelast {l.e})", l.ty)
            la = self.bind_atomic(l, "arr_")
            self.guard(f"(orb (Z.ltb {k.e} 0%Z) (Z.ltb (Z.of_nat (length {la.e})) {k.e}))", "IndexError")
            return V(f"(firstn (Z.to_nat {k.e}) {la.e})", l.ty)
        m = self.ev(n.value, allow_dict=True)
        i = self.ev(n.slice.elts[0])
        k = upper(n.slice.elts[1])
        if not (isinstance(m, V) and is_mat(m.ty) and isinstance(i, V) and i.ty == INT and k != "last"):
            raise Unsupported(f"2-D subscript {ast.unparse(n)}")
        ma = self.bind_atomic(m, "mat_")
        self.guard(f"(orb (Z.ltb {i.e} 0%Z) (Z.leb (Z.of_nat (length {ma.e})) {i.e}))", "IndexError")
        row = self.tr.name("row_")
        self.cur.let(row, f"(nth (Z.to_nat {i.e}) {ma.e} [])")
        self.guard(f"(orb (Z.ltb {k.e} 0%Z) (Z.ltb (Z.of_nat (length {row})) {k.e}))", "IndexError")
        return V(f"(firstn (Z.to_nat {k.e}) {row})", lst(NUM))

    def bind_atomic(self, v, hint="t_"):
        """name a compound expression so that it is evaluated once"""
        if self._atomic(v.e) or self.cur is None:
            return v
        nm = self.tr.name(hint)
        self.cur.let(nm, v.e)
        return V(nm, v.ty)

    def guard(self, cond, exn):
        if self.cur is None:
            raise Unsupported(f"{exn} guard outside a statement")
        self.cur.do("_", f"(if {cond} then Raise {exn} else Ok tt)")

    def truth(self, v):
        if isinstance(v, O):
            raise Unsupported("truthiness of an object")
        if v.ty == BOOL:
            return v
        if v.ty == opt(BOOL):
            return V(f"(match {v.e} with Some true => true | _ => false end)", BOOL)
        raise Unsupported(f"truthiness of a value of type {v.ty}")

    def binop(self, n):
        if isinstance(n.op, ast.Mult) and isinstance(n.left, ast.List):
            if len(n.left.elts) == 1 and isinstance(n.left.elts[0], ast.Constant) and n.left.elts[0].value is None:
                k = self.ev(n.right)
                if k.ty != INT:
                    raise Unsupported("[None] * non-int")
                return V(f"(repeat None (Z.to_nat {k.e}))", lst(opt(ELT if self.self.elt is None else self.self.elt)))
            raise Unsupported("list repetition")
        a, b = self.ev(n.left), self.ev(n.right)
        if isinstance(a, O) or isinstance(b, O):
            raise Unsupported("arithmetic on objects")
        op = n.op
        if isinstance(op, ast.Pow):
            if isinstance(n.right, ast.Constant) and n.right.value == 2:
                if a.ty == NUM:
                    return V(f"(mul {a.e} {a.e})", NUM)
                if a.ty == INT:
                    return V(f"(Z.mul {a.e} {a.e})", INT)
            if a.ty == NUM and b.ty == INT:
                # float ** non-negative int (the exponents of the translated code are counters): repeated product
                return V(f"(powN {a.e} (Z.to_nat {b.e}))", NUM)
            raise Unsupported("power")
        if a.ty == BOOL:
            a = V(f"(b2z {a.e})", INT)
        if b.ty == BOOL:
            b = V(f"(b2z {b.e})", INT)
        if is_vec(a.ty) or is_vec(b.ty):
            # NumPy 1-D float arrays: elementwise arithmetic; two arrays must have the same length (broadcasting a
            # length-1 array against a longer one is outside the subset: guarded as ValueError, proved unreachable)
            f = {ast.Add: "add", ast.Sub: "sub", ast.Mult: "mul", ast.Div: "div"}.get(type(op))
            if f is None:
                raise Unsupported(f"array operator {ast.unparse(n)}")
            if is_vec(a.ty) and is_vec(b.ty):
                na, nb = self.bind_atomic(a, "va_"), self.bind_atomic(b, "vb_")
                self.guard(f"(negb (Nat.eqb (length {na.e}) (length {nb.e})))", "ValueError")
                return V(f"(map (fun ab_ : num A * num A => {f} (fst ab_) (snd ab_)) (combine {na.e} {nb.e}))", lst(NUM))
            if is_vec(a.ty) and b.ty in (INT, NUM):
                return V(f"(map (fun a_ : num A => {f} a_ {coerce(b, NUM).e}) {a.e})", lst(NUM))
            if is_vec(b.ty) and a.ty in (INT, NUM):
                return V(f"(map (fun b_ : num A => {f} {coerce(a, NUM).e} b_) {b.e})", lst(NUM))
            raise Unsupported(f"array operands of {ast.unparse(n)}: {a.ty}, {b.ty}")
        if a.ty == INT and b.ty == INT and not isinstance(op, ast.Div):
            f = {ast.Add: "Z.add", ast.Sub: "Z.sub", ast.Mult: "Z.mul", ast.Mod: "Z.modulo", ast.FloorDiv: "Z.div"}.get(type(op))
            if f is None:
                raise Unsupported(f"int operator {ast.unparse(n)}")
            if f in ("Z.modulo", "Z.div"):
                self.guard(f"(Z.eqb {b.e} 0%Z)", "ZeroDivisionError")
            return V(f"({f} {a.e} {b.e})", INT)
        if b.ty == NUMXN and a.ty in (INT, NUM) and isinstance(op, ast.Div):
            return V(f"(xn_div {coerce(a, NUM).e} {b.e})", NUM)
        if NUMXN in (a.ty, b.ty):
            raise Unsupported(f"operator on a -inf sentinel: {ast.unparse(n)}")
        if NUMX in (a.ty, b.ty) and a.ty in (INT, NUM, NUMX) and b.ty in (INT, NUM, NUMX):
            if isinstance(op, ast.Add):
                return V(f"(xadd {coerce(a, NUMX).e} {coerce(b, NUMX).e})", NUMX)
            if isinstance(op, ast.Mult):
                if a.ty == NUMX and b.ty == NUMX:
                    raise Unsupported("product of two extended numbers")
                l, x = (a, b) if b.ty == NUMX else (b, a)
                return V(f"(xmul {coerce(l, NUM).e} {x.e})", NUMX)
            raise Unsupported(f"operator on an extended number: {ast.unparse(n)}")
        if a.ty in (INT, NUM) and b.ty in (INT, NUM):
            if isinstance(op, ast.Div) and a.ty == INT and b.ty == INT:
                self.guard(f"(Z.eqb {b.e} 0%Z)", "ZeroDivisionError")  # Python ints: true division by zero raises
            a, b = coerce(a, NUM), coerce(b, NUM)
            f = {ast.Add: "add", ast.Sub: "sub", ast.Mult: "mul", ast.Div: "div"}.get(type(op))
            if f is None:
                raise Unsupported(f"float operator {ast.unparse(n)}")
            return V(f"({f} {a.e} {b.e})", NUM)
        raise Unsupported(f"operands of {ast.unparse(n)}: {a.ty}, {b.ty}")

    def compare(self, op, a, b):
        if isinstance(op, (ast.In, ast.NotIn)):
            if isinstance(b, tuple) and b[0] == "classdict" and isinstance(a, V) and a.ty == INT:
                e = "false"
                for k in b[1]:
                    e = f"(orb {e} (Z.eqb {a.e} {zlit(k)}))"
                return V(e if isinstance(op, ast.In) else f"(negb {e})", BOOL)
            raise Unsupported("`in` other than membership of an int in a class-level dict")
        if isinstance(op, (ast.Is, ast.IsNot)):
            if isinstance(b, V) and b.ty == NONE and isinstance(a, V):
                if isinstance(a.ty, tuple) and a.ty[0] == "opt":
                    e = f"(match {a.e} with None => true | Some _ => false end)"
                elif a.ty == NONE:
                    e = "true"
                else:
                    e = "false"  # a statically non-None value
                if isinstance(op, ast.IsNot):
                    e = {"true": "false", "false": "true"}.get(e, f"(negb {e})")
                return V(e, BOOL)
            raise Unsupported("`is` other than with None")
        if isinstance(a, O) or isinstance(b, O):
            raise Unsupported("comparison of objects")
        if a.ty == BOOL and b.ty == BOOL and isinstance(op, (ast.Eq, ast.NotEq)):
            e = f"(Bool.eqb {a.e} {b.e})"
            return V(e if isinstance(op, ast.Eq) else f"(negb {e})", BOOL)
        if NUMXN in (a.ty, b.ty) and a.ty in (INT, NUM, NUMXN) and b.ty in (INT, NUM, NUMXN) and not (a.ty == b.ty == NUMXN):
            if not isinstance(op, (ast.Lt, ast.Gt, ast.LtE, ast.GtE)):
                raise Unsupported("equality on a -inf sentinel")
            swap = isinstance(op, (ast.Gt, ast.GtE))
            x, y = (b, a) if swap else (a, b)  # x < y  or  x <= y
            strict = isinstance(op, (ast.Lt, ast.Gt))
            if x.ty == NUMXN:
                return V(f"({'xn_lt_xn' if strict else 'xn_le_xn'} {x.e} {coerce(y, NUM).e})", BOOL)
            return V(f"({'xn_lt_nx' if strict else 'xn_le_nx'} {coerce(x, NUM).e} {y.e})", BOOL)
        if NUMX in (a.ty, b.ty) and a.ty in (INT, NUM, NUMX) and b.ty in (INT, NUM, NUMX):
            swap = isinstance(op, (ast.Gt, ast.GtE))
            x, y = (b, a) if swap else (a, b)  # x < y  or  x <= y
            strict = isinstance(op, (ast.Lt, ast.Gt))
            if not isinstance(op, (ast.Lt, ast.Gt, ast.LtE, ast.GtE)):
                raise Unsupported("equality on an extended number")
            if x.ty == NUMX and y.ty == NUMX:
                if not strict:
                    raise Unsupported("<= between two extended numbers")
                return V(f"(x_lt_xx {x.e} {y.e})", BOOL)
            if y.ty == NUMX:
                return V(f"({'x_lt_nx' if strict else 'x_le_nx'} {coerce(x, NUM).e} {y.e})", BOOL)
            return V(f"({'x_lt_xn' if strict else 'x_le_xn'} {x.e} {coerce(y, NUM).e})", BOOL)
        if a.ty == INT and b.ty == INT:
            m = {ast.Lt: ("Z.ltb", 0), ast.LtE: ("Z.leb", 0), ast.Gt: ("Z.ltb", 1), ast.GtE: ("Z.leb", 1), ast.Eq: ("Z.eqb", 0), ast.NotEq: ("Z.eqb", 2)}
        elif a.ty in (INT, NUM) and b.ty in (INT, NUM):
            a, b = coerce(a, NUM), coerce(b, NUM)
            m = {ast.Lt: ("ltb", 0), ast.LtE: ("leb", 0), ast.Gt: ("ltb", 1), ast.GtE: ("leb", 1), ast.Eq: ("eqb", 0), ast.NotEq: ("eqb", 2)}
        else:
            raise Unsupported(f"comparison of {a.ty} and {b.ty}")
        f, mode = m[type(op)]
        if mode == 0:
            return V(f"({f} {a.e} {b.e})", BOOL)
        if mode == 1:
            return V(f"({f} {b.e} {a.e})", BOOL)
        return V(f"(negb ({f} {a.e} {b.e}))", BOOL)

    def ifexp(self, n):
        # `A if x is None else x`  /  `x if x is not None else A`
        t = n.test
        if isinstance(t, ast.Compare) and len(t.ops) == 1 and isinstance(t.ops[0], (ast.Is, ast.IsNot)) and isinstance(t.comparators[0], ast.Constant) and t.comparators[0].value is None and isinstance(t.left, ast.Name):
            x = self.ev(t.left)
            if isinstance(x, V) and isinstance(x.ty, tuple) and x.ty[0] == "opt":
                none_branch, some_branch = (n.body, n.orelse) if isinstance(t.ops[0], ast.Is) else (n.orelse, n.body)
                a = self.ev(none_branch)
                inner = self.tr.name(t.left.id + "_")
                saved = self.env[t.left.id]
                self.env[t.left.id] = V(inner, x.ty[1])
                b = self.ev(some_branch)
                self.env[t.left.id] = saved
                ty = join(a.ty, b.ty)
                return V(f"(match {x.e} with Some {inner} => {coerce(b, ty).e} | None => {coerce(a, ty).e} end)", ty)
        c = self.truth(self.ev(n.test))
        sb = self.static_bool(c)
        if sb is not None:
            return self.ev(n.body if sb else n.orelse)
        ndo = lambda: sum(1 for l in self.cur.lines if l.startswith("do ")) if self.cur is not None else 0
        n0 = ndo()
        a, b = self.ev(n.body), self.ev(n.orelse)
        if ndo() != n0:
            raise Unsupported("a branch of a conditional expression can raise")
        if isinstance(a, O) or isinstance(b, O):
            raise Unsupported("conditional expression on objects")
        ty = join(a.ty, b.ty)
        return V(f"(if {c.e} then {coerce(a, ty).e} else {coerce(b, ty).e})", ty)

    # -------------------------------------------------------------- calls
    def callee(self, call):
        """classify a call: ('builtin', name) | ('method', recv O, name, start) | ('ctor', cls)"""
        f = call.func
        if isinstance(f, ast.Name):
            if f.id in self.tr.classes:
                return ("ctor", f.id)
            return ("builtin", f.id)
        if isinstance(f, ast.Attribute):
            full = ast.unparse(f)
            if full.split(".")[0] in ("np", "math", "copy") and full.split(".")[0] not in self.env:
                return ("builtin", full)
            if isinstance(f.value, ast.Call) and isinstance(f.value.func, ast.Name) and f.value.func.id == "super" and not f.value.args:
                m = self.tr.mro(self.self.cls)
                nxt = m[m.index(self.dcls) + 1:]
                if not nxt:
                    raise Unsupported("super() at the end of the MRO")
                return ("method", self.self, f.attr, nxt[0])
            if isinstance(f.value, ast.Name) and f.value.id in self.tr.classes and f.value.id not in self.env:
                # explicit base-class call  Base.method(self, ...)
                return ("basecall", f.value.id, f.attr)
            if isinstance(f.value, ast.Attribute) and isinstance(f.value.value, ast.Name) and f.value.value.id == "self" and isinstance(self.self, O):
                # a call on an attribute declared as an ORACLE object (e.g. a frozen SciPy distribution): the method is an
                # uninterpreted function, a section variable of the generated file
                okey = (self.self.cls, f.value.attr, f.attr)
                okey2 = (self.tr.spec.get("aliases", {}).get(self.self.cls, self.self.cls), f.value.attr, f.attr)
                orc = self.tr.spec.get("oracles", {})
                if okey in orc or okey2 in orc:
                    return ("oracle", orc.get(okey, orc.get(okey2)))
            if f.attr == "logpdf" and isinstance(f.value, ast.Call) and isinstance(f.value.func, ast.Name) and f.value.func.id == "norm" and "norm" not in self.env:
                return ("normlogpdf", f.value)
            recv = self.ev(f.value)
            if isinstance(recv, V) and is_vec(recv.ty) and f.attr == "argmax":
                return ("argmax", recv)
            if isinstance(recv, O):
                if self.tr.find(recv.cls, f.attr, kind="getter") and not self.tr.find(recv.cls, f.attr, kind="method"):
                    sel = self.getattr(recv, f.attr)
                    if isinstance(sel, tuple) and sel[0] == "lambdasel":
                        return ("lambdacall", sel)
                    raise Unsupported(f"call of the value of property {f.attr}")
                return ("method", recv, f.attr, None)
            raise Unsupported(f"method call on a non-object: {ast.unparse(call)[:60]}")
        raise Unsupported(f"call {ast.unparse(call)[:60]}")

    def method_def(self, recv, meth, start):
        if start is None:
            return self.tr.find(recv.cls, meth)
        m = self.tr.mro(recv.cls)
        for c in m[m.index(start):]:
            for node in self.tr.cls(c).body:
                if isinstance(node, ast.FunctionDef) and node.name == meth and not node.decorator_list:
                    return c, node
            for node in self.tr.cls(c).body:
                if isinstance(node, ast.FunctionDef) and node.name == meth and all(ast.unparse(d) in ("staticmethod", "abc.abstractmethod") for d in node.decorator_list):
                    return c, node
        return None

    def is_pure_inline(self, fn):
        """a single `return expr`, possibly preceded by assignments of pure expressions to local names"""
        body = self.tr._body(fn)
        if not body or not isinstance(body[-1], ast.Return) or body[-1].value is None or self._contains_effect(body[-1].value):
            return False
        for st in body[:-1]:
            if not (isinstance(st, ast.Assign) and len(st.targets) == 1 and isinstance(st.targets[0], ast.Name)) or self._contains_effect(st.value):
                return False
        return True

    def eval_pure_body(self, sub, fn):
        body = self.tr._body(fn)
        for st in body[:-1]:
            v = sub.ev(st.value)
            if isinstance(v, V) and not self._atomic(v.e) and self.cur is not None:
                nm = self.tr.name(st.targets[0].id + "_")
                self.cur.let(nm, v.e)
                v = V(nm, v.ty)
            sub.env[st.targets[0].id] = v
        return sub.ev(body[-1].value)

    def _contains_effect(self, expr):
        for sub in ast.walk(expr):
            if isinstance(sub, ast.Call):
                try:
                    if self.is_effect_call(sub):
                        return True
                except Unsupported:
                    return True
        return False

    def is_effect_call(self, n):
        if not isinstance(n, ast.Call):
            return False
        k = self.callee(n)
        if k[0] in ("builtin", "lambdacall", "oracle", "normlogpdf", "argmax"):
            return False
        if k[0] in ("ctor", "basecall"):
            return True
        _, recv, meth, start = k
        d = self.method_def(recv, meth, start)
        if d is None:
            raise Unsupported(f"no method {meth} on {recv.cls}")
        return not self.is_pure_inline(d[1])

    def bind_args(self, fn, call, skip_self=True):
        names = [a.arg for a in fn.args.args if not (skip_self and a.arg == "self")]
        if any(ast.unparse(d) == "staticmethod" for d in fn.decorator_list):
            names = [a.arg for a in fn.args.args]
        names += [a.arg for a in fn.args.kwonlyargs]
        vals = {}
        for nme, a in zip(names, call.args):
            vals[nme] = a
        for kw in call.keywords:
            if kw.arg is None:
                continue  # **kwargs forwarded: ignored (no keyword extras in the modelled slice)
            if kw.arg not in names:
                if fn.args.kwarg is not None:
                    continue
                raise Unsupported(f"unexpected keyword {kw.arg}")
            vals[kw.arg] = kw.value
        pos = [a.arg for a in fn.args.args]
        for nme, dv in zip(pos[len(pos) - len(fn.args.defaults):], fn.args.defaults):
            vals.setdefault(nme, dv)
        for a, dv in zip(fn.args.kwonlyargs, fn.args.kw_defaults):
            if dv is not None:
                vals.setdefault(a.arg, dv)
        return names, vals

    def call_expr(self, n):
        k = self.callee(n)
        if k[0] == "builtin":
            return self.builtin(k[1], n)
        if k[0] == "lambdacall":
            _, key, keys, lams = k[1]
            outs = []
            for lam in lams:
                names = [a.arg for a in lam.args.args]
                sub = Frame(self.tr, self.self, self.dcls, self.fn, self.recv, self.meth, self.discover)
                sub.cur = self.cur
                for nm, a in zip(names, n.args):
                    sub.env[nm] = self.ev(a)
                for kw in n.keywords:
                    if kw.arg not in names:
                        raise Unsupported("lambda keyword")
                    sub.env[kw.arg] = self.ev(kw.value)
                outs.append(sub.ev(lam.body))
            e = outs[-1].e  # a key outside the dict is a KeyError in Python; the constructor only admits the listed keys
            for kv, o in reversed(list(zip(keys[:-1], outs[:-1]))):
                e = f"(if Z.eqb {key.e} {zlit(kv)} then {o.e} else {e})"
            return V(e, outs[0].ty)
        if k[0] == "argmax":
            if n.args or n.keywords:
                raise Unsupported("argmax with arguments")
            self.tr.use_prelude.add("g_argmax")
            return V(f"(g_argmax {k[1].e})", INT)
        if k[0] == "normlogpdf":
            # scipy.stats.norm(loc, scale).logpdf(x) with array loc / scale: elementwise, an uninterpreted function of (x, loc, scale)
            ctor = k[1]
            if len(ctor.args) != 2 or ctor.keywords or len(n.args) != 1 or n.keywords:
                raise Unsupported("norm(...).logpdf call shape")
            loc, scale, x = self.ev(ctor.args[0]), self.ev(ctor.args[1]), coerce(self.ev(n.args[0]), NUM)
            if not (is_vec(loc.ty) and is_vec(scale.ty)):
                raise Unsupported("norm(...).logpdf typing")
            la, sa = self.bind_atomic(loc, "loc_"), self.bind_atomic(scale, "scale_")
            self.guard(f"(negb (Nat.eqb (length {la.e}) (length {sa.e})))", "ValueError")
            self.tr.used_oracles["norm_logpdf"] = "num A -> num A -> num A -> num A"
            return V(f"(map (fun ls_ : num A * num A => norm_logpdf {x.e} (fst ls_) (snd ls_)) (combine {la.e} {sa.e}))", lst(NUM))
        if k[0] == "oracle":
            if len(n.args) != 1 or n.keywords:
                raise Unsupported("oracle call with other than one positional argument")
            self.tr.used_oracles[k[1]] = "num A -> num A"
            return V(f"({k[1]} {coerce(self.ev(n.args[0]), NUM).e})", NUM)
        if k[0] != "method":
            raise Unsupported(f"effectful call inside an expression: {ast.unparse(n)[:60]}")
        _, recv, meth, start = k
        dcls, fn = self.method_def(recv, meth, start)
        if not self.is_pure_inline(fn):
            raise Unsupported(f"effectful call inside an expression: {ast.unparse(n)[:60]}")
        names, vals = self.bind_args(fn, n)
        sub = Frame(self.tr, recv, dcls, fn, recv.cls, meth, self.discover)
        sub.cur = self.cur
        for nm in names:
            if nm in vals:
                sub.env[nm] = self.ev(vals[nm])
        return self.eval_pure_body(sub, fn)

    def builtin(self, name, n):
        if name == "isinstance":
            return self.isinstance_static(self.ev(n.args[0]), n.args[1])
        if name in ("copy.deepcopy", "copy.copy") and len(n.args) == 1:
            x = self.ev(n.args[0])
            return x.copy() if isinstance(x, O) else x  # value semantics: objects are tuples of their fields
        if name in ("any", "all") and len(n.args) == 1 and isinstance(n.args[0], ast.List):
            vs = [self.truth(self.ev(e)) for e in n.args[0].elts]
            op, unit = ("orb", "false") if name == "any" else ("andb", "true")
            e = unit
            for v in vs:
                e = v.e if e == unit else f"({op} {e} {v.e})"
            return V(e, BOOL)
        if name == "np.concatenate":
            # the idiom that grows a 2-D array by one row AND one column:
            #   np.concatenate((np.pad(array=M, pad_width=((0, 0), (0, 1)), constant_values=-np.inf), np.expand_dims(row, axis=0)), axis=0)
            # representation: the list of rows without their -inf padding (row i keeps the i+1 entries it was given)
            kw = {k.arg: k.value for k in n.keywords}
            ok = len(n.args) == 1 and isinstance(n.args[0], ast.Tuple) and len(n.args[0].elts) == 2 and ast.unparse(kw.get("axis", ast.Constant(value=None))) == "0"
            if ok:
                pad, exp = n.args[0].elts
                okp = isinstance(pad, ast.Call) and ast.unparse(pad.func) == "np.pad" and not pad.args and {k.arg for k in pad.keywords} == {"array", "pad_width", "constant_values"}
                oke = isinstance(exp, ast.Call) and ast.unparse(exp.func) == "np.expand_dims" and len(exp.args) == 1 and [(k.arg, ast.unparse(k.value)) for k in exp.keywords] == [("axis", "0")]
                if okp and oke:
                    pk = {k.arg: k.value for k in pad.keywords}
                    if ast.unparse(pk["pad_width"]) == "((0, 0), (0, 1))" and ast.unparse(pk["constant_values"]) == "-np.inf":
                        m, r = self.ev(pk["array"]), self.ev(exp.args[0])
                        if isinstance(m, V) and is_mat(m.ty) and isinstance(r, V) and is_vec(r.ty):
                            return V(f"({m.e} ++ [{r.e}])", m.ty)
            raise Unsupported("np.concatenate other than the pad-and-append-row idiom")
        args = [self.ev(a) for a in n.args]
        if name == "len":
            x = args[0]
            if isinstance(x, O):
                d = self.tr.find(x.cls, "__len__")
                if d and self.is_pure_inline(d[1]):
                    sub = Frame(self.tr, x, d[0], d[1], x.cls, "__len__", self.discover)
                    sub.cur = self.cur
                    return self.eval_pure_body(sub, d[1])
                raise Unsupported("len of object")
            if isinstance(x.ty, tuple) and x.ty[0] == "list":
                return V(f"(Z.of_nat (length {x.e}))", INT)
            raise Unsupported("len")
        if name in ("np.maximum", "max") and len(args) == 2 and not n.keywords:
            a, b = args
            if a.ty == INT and b.ty == INT:
                return V(f"(if Z.ltb {a.e} {b.e} then {b.e} else {a.e})", INT)
            a, b = coerce(a, NUM), coerce(b, NUM)
            return V(f"(if ltb {a.e} {b.e} then {b.e} else {a.e})", NUM)
        if name in ("np.minimum", "min") and len(args) == 2 and not n.keywords:
            a, b = args
            if a.ty == INT and b.ty == INT:
                return V(f"(if Z.ltb {b.e} {a.e} then {b.e} else {a.e})", INT)
            a, b = coerce(a, NUM), coerce(b, NUM)
            return V(f"(if ltb {b.e} {a.e} then {b.e} else {a.e})", NUM)
        if name == "np.power" and len(args) == 2 and args[0].ty == NUM and isinstance(n.args[1], ast.Constant) and isinstance(n.args[1].value, int) and n.args[1].value >= 0:
            return V(f"(powN {args[0].e} {n.args[1].value})", NUM)
        if name in ("np.sqrt", "np.exp", "np.log") and len(args) == 1 and isinstance(args[0], V) and is_vec(args[0].ty) and not n.keywords:
            return V(f"(map {dict([('np.sqrt', 'sqrt'), ('np.exp', 'exp'), ('np.log', 'ln')])[name]} {args[0].e})", lst(NUM))
        if name in ("np.sqrt", "math.sqrt") and len(args) == 1:
            return V(f"(sqrt {coerce(args[0], NUM).e})", NUM)
        if name in ("np.log", "math.log") and len(args) == 1:
            return V(f"(ln {coerce(args[0], NUM).e})", NUM)
        if name in ("np.exp", "math.exp") and len(args) == 1:
            return V(f"(exp {coerce(args[0], NUM).e})", NUM)
        if name in ("abs", "np.abs") and len(args) == 1:
            return V(f"(absA {coerce(args[0], NUM).e})", NUM)
        if name == "float" and len(args) == 1 and args[0].ty == STR and args[0].e == '"inf"':
            return V("(@None (num A))", NUMX)
        if name == "float" and len(args) == 1 and args[0].ty == STR and args[0].e == '"-inf"':
            return V("(@None (num A))", NUMXN)
        if name == "float" and len(args) == 1 and args[0].ty in (INT, NUM):
            return coerce(args[0], NUM)
        if name == "bool" and len(args) == 1 and args[0].ty == BOOL:
            return args[0]
        if name == "np.random.seed":
            a = args[0] if args else self.ev(n.keywords[0].value)
            if a.ty == opt(INT):
                self.guard(f"(match {a.e} with None => false | Some z_ => orb (Z.ltb z_ 0%Z) (Z.leb 4294967296%Z z_) end)", "ValueError")
            elif a.ty == INT:
                self.guard(f"(orb (Z.ltb {a.e} 0%Z) (Z.leb 4294967296%Z {a.e}))", "ValueError")
            elif a.ty != NONE:
                raise Unsupported("np.random.seed argument")
            return V("tt", UNIT)
        if name == "np.zeros" and len(args) == 1 and not n.keywords and args[0].ty == INT:
            self.guard(f"(Z.ltb {args[0].e} 0%Z)", "ValueError")  # NumPy: negative dimensions are not allowed
            return V(f"(repeat (@ofZ A 0%Z) (Z.to_nat {args[0].e}))", lst(NUM))
        if name == "np.array" and len(args) == 1 and not n.keywords and isinstance(n.args[0], ast.List):
            return args[0]  # a float array given by its elements (1-D) / its rows (2-D)
        if name == "np.append" and len(args) == 2 and not n.keywords:
            a, b = args
            if not (isinstance(b, V) and is_vec(b.ty)):
                raise Unsupported("np.append typing")
            if a.ty in (INT, NUM):
                return V(f"({coerce(a, NUM).e} :: {b.e})", lst(NUM))
            if is_vec(a.ty):
                return V(f"({a.e} ++ {b.e})", lst(NUM))
            raise Unsupported("np.append typing")
        if name == "np.sum" and len(args) == 1 and not n.keywords and isinstance(args[0], V) and is_vec(args[0].ty):
            return V(f"(sumA {args[0].e})", NUM)  # NumPy adds pairwise: same value over R, a rounding-level difference in binary64
        if name == "logsumexp" and len(args) == 1 and not n.keywords:
            x = args[0]
            if not (isinstance(x, V) and is_vec(x.ty)):
                raise Unsupported("logsumexp typing")
            self.tr.used_oracles["sp_logsumexp"] = "list (num A) -> num A"
            return V(f"(sp_logsumexp {x.e})", NUM)
        if name == "np.random.choice":
            kw = {k.arg: k.value for k in n.keywords}
            if n.args or set(kw) != {"a", "size", "replace"} or not (isinstance(kw["replace"], ast.Constant) and kw["replace"].value is False):
                raise Unsupported("np.random.choice other than choice(a=list, size=k, replace=False)")
            a, k = self.ev(kw["a"]), self.ev(kw["size"])
            if not (isinstance(a.ty, tuple) and a.ty[0] == "list" and a.ty[1] == NUM and k.ty == INT):
                raise Unsupported("np.random.choice typing")
            # NumPy: ValueError for a negative size or a sample larger than the population (replace=False)
            self.guard(f"(orb (Z.ltb {k.e} 0%Z) (Z.ltb (Z.of_nat (length {a.e})) {k.e}))", "ValueError")
            self.tr.used_oracles["np_choice"] = "list (num A) -> Z -> list (num A)"
            return V(f"(np_choice {a.e} {k.e})", a.ty)
        if name == "ks_2samp":
            kw = {k.arg: k.value for k in n.keywords}
            if n.args or not {"data1", "data2"} <= set(kw):
                raise Unsupported("ks_2samp call shape")
            d1, d2 = self.ev(kw["data1"]), self.ev(kw["data2"])
            if not all(isinstance(d.ty, tuple) and d.ty[0] == "list" and d.ty[1] == NUM for d in (d1, d2)):
                raise Unsupported("ks_2samp typing")
            opts = "_".join(f"{k}_{kw[k].value}" for k in sorted(kw) if k not in ("data1", "data2") and isinstance(kw[k], ast.Constant))
            oname = "ks_2samp_" + re.sub(r"[^A-Za-z0-9_]", "_", opts) if opts else "ks_2samp"
            self.tr.used_oracles[oname] = "list (num A) -> list (num A) -> num A * num A"
            return V(f"({oname} {d1.e} {d2.e})", ("tuple", [NUM, NUM]))
        if name in ("np.count_nonzero", "np.sum") and len(args) == 1 and args[0].ty == BOOL and not n.keywords:
            return V(f"(b2z {args[0].e})", INT)
        if name == "np.count_nonzero" and len(args) == 1 and args[0].ty == opt(BOOL) and not n.keywords:
            return V(f"(ob2z {args[0].e})", INT)  # a queue slot: np.count_nonzero(None) is 0
        if name == "np.sum" and len(args) == 1 and args[0].ty in (INT, NUM) and not n.keywords:
            return args[0]  # the sum of a scalar is the scalar
        raise Unsupported(f"builtin {name}")

    def isinstance_static(self, v, tnode):
        names = [ast.unparse(e) for e in tnode.elts] if isinstance(tnode, ast.Tuple) else [ast.unparse(tnode)]
        if isinstance(v, O):
            ok = any(nm in self.tr.classes and nm in self.tr.mro(v.cls) for nm in names)
            return V("true" if ok else "false", BOOL)
        t = v.ty
        numeric = {"int", "float", "np.number", "np.integer", "np.floating"}
        if t == NUM and ("float" in names or "np.number" in names):
            return V("true", BOOL)
        if t == INT and ("int" in names):
            return V("true", BOOL)
        if t == BOOL:
            if "bool" in names or "int" in names:
                return V("true", BOOL)
            return V("false", BOOL)
        if t in (NUM, INT) and not (set(names) & numeric):
            return V("false", BOOL)
        if is_vec(t) and "np.ndarray" in names:
            return V("true", BOOL)  # values of float-array type are NumPy arrays (np.zeros / np.array / array arithmetic)
        if isinstance(t, tuple) and t[0] == "list":
            return V("true" if "list" in names else "false", BOOL)
        if t == STR:
            return V("true" if "str" in names else "false", BOOL)
        raise Unsupported(f"isinstance of a {t} value against {names}")

    def call_stmt(self, n, blk):
        """effectful call at statement level; returns the result value (V, O or None)"""
        f = n.func
        if isinstance(f, ast.Attribute) and f.attr in ("append", "clear") and isinstance(f.value, ast.Attribute) and isinstance(f.value.value, ast.Name) \
                and f.value.value.id == "self" and isinstance(self.self, O):
            dq = self.tr.spec.get("deques", {}).get((self.tr.spec.get("aliases", {}).get(self.self.cls, self.self.cls), f.value.attr))
            if dq is not None:
                # a collections.deque(maxlen=config.<attr>) held in a storage field, mutated in place (no setter runs)
                storage, maxattr = dq
                w = self.getattr(self.self, f.value.attr)
                if f.attr == "clear" and not n.args and not n.keywords:
                    self.setfield(self.self, storage, V("[]", w.ty), blk)
                    return None
                if f.attr == "append" and len(n.args) == 1 and not n.keywords:
                    x = coerce(self.ev(n.args[0]), w.ty[1])
                    cap = self.getattr(self.getattr(self.self, "config"), maxattr)
                    ext = self.tr.name("appended_")
                    blk.let(ext, f"({w.e} ++ [{x.e}])")
                    # maxlen: the oldest elements beyond the capacity are dropped
                    self.setfield(self.self, storage, V(f"(skipn (Nat.sub (length {ext}) (Z.to_nat {cap.e})) {ext})", w.ty), blk)
                    return None
                raise Unsupported("deque call shape")
        k = self.callee(n)
        if k[0] == "builtin":
            return self.builtin(k[1], n)
        if k[0] == "ctor":
            return self.construct(k[1], n, blk)
        if k[0] == "basecall":
            # Base.__init__(self, x=..) : run as method of self starting the lookup at Base
            if not (n.args and isinstance(n.args[0], ast.Name) and n.args[0].id == "self"):
                raise Unsupported("explicit base call without self")
            call2 = ast.Call(func=n.func, args=n.args[1:], keywords=n.keywords)
            return self.invoke(self.self, k[2], k[1], call2, blk)
        _, recv, meth, start = k
        d = self.method_def(recv, meth, start)
        if d is None:
            raise Unsupported(f"no method {meth} on {recv.cls}")
        if self.is_pure_inline(d[1]):
            return self.call_expr(n)
        return self.invoke(recv, meth, start, n, blk)

    def invoke(self, recv: O, meth, start, call, blk):
        dcls, fn = self.method_def(recv, meth, start)
        if self.discover or meth == "__init__":
            # run the callee inline on the receiver (constructors chain through super().__init__)
            names, vals = self.bind_args(fn, call)
            sub = Frame(self.tr, recv, dcls, fn, recv.cls, meth, self.discover)
            skipped = set()
            for nm in names:
                if sub._ptype(nm, None) == "skip":
                    skipped.add(nm)
                    continue
                if nm in vals:
                    sub.env[nm] = self.ev(vals[nm]) if not isinstance(vals[nm], (V, O)) else vals[nm]
            b = Block()
            body = self.tr._body(fn)
            if self._has_return(body):
                raise Unsupported(f"return inside inlined {dcls}.{meth}")
            if sub.run(body, b):
                raise Unsupported(f"inlined {dcls}.{meth} terminates")
            blk.lines.extend(b.lines)
            return None
        name = self.tr.gen(recv.cls, meth, start if start else None)
        ptys, sty, rty, pnames, pdefaults = self.tr.sigs[name]
        names, vals = self.bind_args(fn, call)
        argv = []
        for pn, pt in zip(pnames, ptys):
            if pn not in vals:
                raise Unsupported(f"missing argument {pn} in call of {name}")
            a = self.ev(vals[pn])
            if isinstance(a, O):
                raise Unsupported("object argument")
            want = self.tr.subst(pt, recv.elt)
            if isinstance(a.ty, tuple) and a.ty[0] == "opt" and a.ty[1] == want and self._typechecks_first(fn, pn):
                # a possibly-None value handed to a method that starts with `if not isinstance(param, ...): raise TypeError`
                nm = self.tr.name(pn + "_")
                blk.do(nm, f"(match {a.e} with Some y_ => Ok y_ | None => Raise TypeError end)")
                a = V(nm, want)
            argv.append(coerce(a, want).e)
        newo, pat = self.tr.fresh_obj(recv.cls, recv.elt)
        rty = self.tr.subst(rty, recv.elt)
        r = self.tr.name("r_")
        blk.do(f"'({pat}, {r if rty != UNIT else '_'})", f"{name} {self.tr.pack(recv)} " + " ".join(argv))
        # update receiver in place
        recv.fields.clear()
        recv.fields.update(newo.fields)
        return V(r, rty) if rty != UNIT else None

    def _typechecks_first(self, fn, pname):
        body = self.tr._body(fn)
        if not body or not isinstance(body[0], ast.If):
            return False
        t = body[0].test
        ok = (isinstance(t, ast.UnaryOp) and isinstance(t.op, ast.Not) and isinstance(t.operand, ast.Call) and isinstance(t.operand.func, ast.Name)
              and t.operand.func.id == "isinstance" and isinstance(t.operand.args[0], ast.Name) and t.operand.args[0].id == pname)
        return ok and len(body[0].body) == 1 and isinstance(body[0].body[0], ast.Raise) and self.exn_name(body[0].body[0].exc) == "TypeError"

    def construct(self, clsname, call, blk):
        elt = self.tr.spec.get("elt", {}).get(clsname)
        hint = self.tr.spec.get("ctor_elt", {}).get((self.recv, clsname))
        if hint:
            elt = hint
        if self.discover:
            lay = self.tr.layout(clsname)
            o, _ = self.tr.fresh_obj(clsname, elt)
            return o
        name = self.tr.gen(clsname, "__init__")
        ptys, sty, rty, pnames, pdefaults = self.tr.sigs[name]
        found = self.tr.find(clsname, "__init__")
        argv = []
        if found:
            names, vals = self.bind_args(found[1], call)
            for pn, pt in zip(pnames, ptys):
                if pn not in vals:
                    raise Unsupported(f"missing constructor argument {pn} of {clsname}")
                a = self.ev(vals[pn])
                argv.append(coerce(a, pt).e)
        o, pat = self.tr.fresh_obj(clsname, elt)
        blk.do(f"'({pat}, _)", f"{name} " + " ".join(argv) if argv else f"{name}")
        return o

    def exn_name(self, exc):
        if isinstance(exc, ast.Call):
            exc = exc.func
        nm = exc.id if isinstance(exc, ast.Name) else (exc.attr if isinstance(exc, ast.Attribute) else None)
        if nm in EXN:
            return nm
        raise Unsupported(f"exception {ast.unparse(exc)}")


def zlit(v):
    return f"({v})%Z" if v < 0 else f"{v}%Z"


def flit(x):
    """a decimal literal as the quotient of the integers it is written with (2.76 -> 276 / 100): correctly rounded
    division of two exactly representable integers is the correctly rounded literal"""
    from decimal import Decimal

    if x != x or x in (float("inf"), float("-inf")):
        raise Unsupported("non-finite float literal")
    d = Decimal(repr(float(x)))
    sign, digits, exp = d.as_tuple()
    num = int("".join(map(str, digits))) * (-1 if sign else 1)
    if exp >= 0:
        return f"(@ofZ A {zlit(num * 10**exp)})"
    den = 10 ** (-exp)
    if abs(num) >= 2**53 or den >= 2**53 or float(num) / float(den) != x:
        raise Unsupported(f"float literal {x!r} is not an exact quotient of small integers")
    if num % den == 0:
        return f"(@ofZ A {zlit(num // den)})"
    return f"(div (@ofZ A {zlit(num)}) (@ofZ A {zlit(den)}))"


def join(a, b):
    if a == b:
        return a
    if isinstance(a, tuple) and isinstance(b, tuple) and a[0] == b[0] == "tuple" and len(a[1]) == len(b[1]):
        return ("tuple", [join(x, y) for x, y in zip(a[1], b[1])])
    if a == NONE:
        return b if isinstance(b, tuple) and b[0] == "opt" else opt(b)
    if b == NONE:
        return a if isinstance(a, tuple) and a[0] == "opt" else opt(a)
    if {a, b} == {INT, NUM}:
        return NUM
    if NUMX in (a, b) and a in (INT, NUM, NUMX) and b in (INT, NUM, NUMX):
        return NUMX
    if NUMXN in (a, b) and a in (INT, NUM, NUMXN) and b in (INT, NUM, NUMXN):
        return NUMXN
    if isinstance(a, tuple) and a[0] == "opt" and a[1] == b:
        return a
    if isinstance(b, tuple) and b[0] == "opt" and b[1] == a:
        return b
    raise Unsupported(f"cannot join types {a} and {b}")


def is_vec(t):
    return isinstance(t, tuple) and t[0] == "list" and t[1] == NUM


def is_mat(t):
    return isinstance(t, tuple) and t[0] == "list" and is_vec(t[1])


def coerce(v: V, ty):
    if isinstance(v, O):
        raise Unsupported("object where a value is expected")
    if v.ty == ty:
        return v
    if v.ty == INT and ty == NUM:
        return V(f"(@ofZ A {v.e})", NUM)
    if v.ty in (INT, NUM) and ty in (NUMX, NUMXN):
        return V(f"(Some {coerce(v, NUM).e})", ty)
    if v.ty == BOOL and ty == INT:
        return V(f"(b2z {v.e})", INT)
    if v.ty == NONE and isinstance(ty, tuple) and ty[0] == "opt":
        return V("None", ty)
    if isinstance(ty, tuple) and ty[0] == "opt" and not (isinstance(v.ty, tuple) and v.ty[0] == "opt"):
        inner = coerce(v, ty[1])
        return V(f"(Some {inner.e})", ty)
    if isinstance(ty, tuple) and ty[0] == "list" and isinstance(v.ty, tuple) and v.ty[0] == "list":
        if v.ty[1] == opt(ELT) or ty[1] == opt(ELT):
            return V(v.e, ty)
    raise Unsupported(f"cannot coerce {v.ty} to {ty}")


def finalize(tr: Translator):
    """second pass: substitute the return placeholders now that every unit's return type is known"""
    # placeholders are resolved per unit at generation time (see Translator.gen -> _resolve)
    return tr
