"""fn2coq — a fail-closed translator for PURE STATIC FUNCTIONS of frouros' source to Gallina.

Companion of py2coq (which translates methods of stateful objects).  The units listed in `FN_UNITS` are
`@staticmethod`s / module functions whose body is straight-line code over scalars and 1-D arrays: the p-value formulas
of the permutation-test callback and the histogram distances.  On every run the CURRENT source text is parsed with
`ast` and compiled to `build/gen_*/GFn.v`; `coq/Gen/EqPerm.v` / `EqDist.v` then prove the generated definitions equal
to the hand-written model (Model/Permutation.v, Model/Hist.v) and re-state the property theorems over them.

Fail-closed: any construct outside the subset raises `Unsupported` (the unit is then missing from GFn.v and the lemmas
about it do not compile: the tie is reported as broken).  Nothing is guessed.

Subset and semantics (the translator's assumptions, i.e. the trusted part):
  * parameters have the types declared in `FN_UNITS` (the annotations are not precise enough: `np.ndarray` is a vector of
    floats or of bools); `int` is Z, `float` / NumPy floats are `num A`, `str` is `string`, `Optional[int]` is `option Z`,
    1-D arrays and lists are Coq lists; objects that are only passed on to a library call are of an opaque type `T`;
  * statements: assignments to names (tuple targets on tuple values), `if / elif / else` whose branches assign names
    (joined as a tuple-valued conditional; every joined name must have one type in all branches), the idiom
    `if x is None: x = e` on an `Optional` parameter (`match x with Some v => v | None => e end`), one final `return`;
  * `a / b` is division in `num A` (ints are coerced with `ofZ`): the operands here are NumPy scalars or validated
    positive ints, so Python's `ZeroDivisionError` for a Python-int zero divisor is not modelled;
  * `v >= s` (array, scalar) is the list of booleans `s <= v_i`; `.sum()` of a boolean array counts its `True`s,
    `.mean()` is that count over the length; `np.mean` / `np.sum` of a float array is the left-to-right sum
    (NumPy adds pairwise: equal over R, a rounding-level difference in binary64) over the length; `np.arange(a, b)` is
    the list a .. b-1; `np.min([a, b])` / `np.max([a, b])` of two ints is `Z.min` / `Z.max`, of two floats the
    comparison-based minimum / maximum (finite values); `np.minimum(u, v)` is elementwise; `len` is the length;
    `u ** 2` is `u * u`; `np.sqrt`, `np.log` elementwise; `np.hstack((u, v))` is `u ++ v`; an elementwise operation on TWO
    arrays pairs their entries up to the shorter one (`g_map2`): equal lengths are assumed -- in the translated code both
    operands are histograms over the same bins (NumPy would raise, or broadcast a length-1 array, otherwise);
  * `X[k]` for a constant k >= 0 on a float array is `nth k X 0`: the index is ASSUMED in range (the arrays indexed are
    draws of a stated constant size); oracles declared `stateful` (NumPy's global generator) get the index of their call
    site as an extra argument, so two call sites are never assumed to return equal values -- a site is evaluated at most
    once per call of the function (no loops in the subset);
  * `X[X == 0.0] = c` replaces the entries equal to 0.0 by c; `sys.float_info.min` is 2^-1022 (written as a quotient of
    integers); `X.shape[0]` is the length of a 1-D array;
  * library calls listed in `FN_ORACLES` are UNINTERPRETED functions (section parameters of GFn.v): the theorems hold
    for every function of that type; an oracle whose last argument is given an array is mapped over it.
"""
from __future__ import annotations

import ast
import os

from py2coq import Unsupported, flit, zlit

NUM, INT, BOOL, STR, OPQ = "num", "Z", "bool", "str", "T"


def vec(t):
    return ("vec", t)


def opt(t):
    return ("opt", t)


def tup(*ts):
    return ("tuple", tuple(ts))


def cty(t):
    if t == NUM:
        return "num A"
    if t == INT:
        return "Z"
    if t == BOOL:
        return "bool"
    if t == STR:
        return "string"
    if t == OPQ:
        return "T"
    if t[0] == "vec":
        return f"list ({cty(t[1])})"
    if t[0] == "opt":
        return f"option ({cty(t[1])})"
    if t[0] == "tuple":
        return "(" + " * ".join(cty(x) for x in t[1]) + ")"
    raise Unsupported(f"type {t!r}")


PRELUDE = """(* helpers of the generated code *)
Definition g_count (l : list bool) : Z := Z.of_nat (List.length (List.filter (fun b => b) l)).
Definition g_len {X : Type} (l : list X) : Z := Z.of_nat (List.length l).
Definition g_zrange (a b : Z) : list Z := map (fun i => (a + Z.of_nat i)%Z) (seq 0 (Z.to_nat (b - a))).
Definition g_mean (l : list (num A)) : num A := div (sumA l) (ofZ (g_len l)).
Definition g_min (a b : num A) : num A := if ltb b a then b else a.
Definition g_max (a b : num A) : num A := if ltb a b then b else a.
Fixpoint g_map2 (f : num A -> num A -> num A) (u v : list (num A)) : list (num A) :=
  match u, v with x :: u', y :: v' => f x y :: g_map2 f u' v' | _, _ => [] end.
Definition g_fold_min (l : list (num A)) : num A := match l with [] => ofZ 0 | x :: r => fold_left g_min r x end.
Definition g_fold_max (l : list (num A)) : num A := match l with [] => ofZ 0 | x :: r => fold_left g_max r x end.
(* np.searchsorted(a, z, side="right") on a SORTED array a: the number of entries <= z *)
Definition g_searchsorted_right (a : list (num A)) (z : num A) : Z := Z.of_nat (List.length (List.filter (fun x => leb x z) a)).
(* np.argmin / np.argmax of a 1-D array: position of the FIRST minimum / maximum *)
Fixpoint g_argmin_from (l : list (num A)) (i best_i : Z) (best : num A) : Z :=
  match l with [] => best_i | x :: r => if ltb x best then g_argmin_from r (Z.add i 1%Z) i x else g_argmin_from r (Z.add i 1%Z) best_i best end.
Definition g_argmin (l : list (num A)) : Z := match l with [] => 0%Z | x :: r => g_argmin_from r 1%Z 0%Z x end.
Fixpoint g_argmax_from (l : list (num A)) (i best_i : Z) (best : num A) : Z :=
  match l with [] => best_i | x :: r => if ltb best x then g_argmax_from r (Z.add i 1%Z) i x else g_argmax_from r (Z.add i 1%Z) best_i best end.
Definition g_argmax (l : list (num A)) : Z := match l with [] => 0%Z | x :: r => g_argmax_from r 1%Z 0%Z x end.
(* np.clip(x, lo, hi) = minimum(maximum(x, lo), hi) *)
Definition g_clip (x lo hi : num A) : num A := g_min (g_max x lo) hi.
"""


class Fn:
    def __init__(self, tr, unit, fn):
        self.tr, self.unit, self.fn = tr, unit, fn
        self.site = 0

    # ------------------------------------------------------------------ expressions
    def coerce(self, e, t, want):
        if t == want:
            return e
        if t == INT and want == NUM:
            return f"(@ofZ A {e})"
        raise Unsupported(f"cannot use {t} as {want}: {e}")

    def arith(self, op, a, b):
        (ea, ta), (eb, tb) = a, b
        if isinstance(op, ast.FloorDiv) and ta == INT and tb == INT:
            return f"(Z.div {ea} {eb})", INT   # Python's floor division of ints (a zero divisor raises in Python: not modelled)
        sym = {ast.Add: "add", ast.Sub: "sub", ast.Mult: "mul", ast.Div: "div"}.get(type(op))
        if sym is None:
            raise Unsupported(f"operator {type(op).__name__}")
        isv = lambda t: isinstance(t, tuple) and t[0] == "vec"
        if not isv(ta) and not isv(tb):
            if ta == INT and tb == INT and sym != "div":
                return f"(Z.{sym} {ea} {eb})", INT
            if ta in (INT, NUM) and tb in (INT, NUM):
                return f"({sym} {self.coerce(ea, ta, NUM)} {self.coerce(eb, tb, NUM)})", NUM
            raise Unsupported(f"arithmetic on {ta}, {tb}")
        # elementwise
        def elt(t):
            return t[1] if isv(t) else t
        if elt(ta) not in (INT, NUM) or elt(tb) not in (INT, NUM):
            raise Unsupported(f"elementwise arithmetic on {ta}, {tb}")
        if isv(ta) and isv(tb):
            if ta != vec(NUM) or tb != vec(NUM):
                raise Unsupported("elementwise arithmetic on non-float arrays")
            return f"(g_map2 {sym} {ea} {eb})", vec(NUM)
        if isv(ta):
            x = self.coerce("x_", elt(ta), NUM)
            return f"(map (fun x_ => {sym} {x} {self.coerce(eb, tb, NUM)}) {ea})", vec(NUM)
        x = self.coerce("x_", elt(tb), NUM)
        return f"(map (fun x_ => {sym} {self.coerce(ea, ta, NUM)} {x}) {eb})", vec(NUM)

    def cmp(self, op, a, b):
        (ea, ta), (eb, tb) = a, b
        isv = lambda t: isinstance(t, tuple) and t[0] == "vec"
        if ta == STR and tb == STR and isinstance(op, ast.Eq):
            return f"(String.eqb {ea} {eb})", BOOL
        if ta == INT and tb == INT:
            f = {ast.Gt: "Z.gtb", ast.GtE: "Z.geb", ast.Lt: "Z.ltb", ast.LtE: "Z.leb", ast.Eq: "Z.eqb"}.get(type(op))
            if f:
                return f"({f} {ea} {eb})", BOOL
        def scalar(x, y):
            # x `op` y on floats, through the Arith primitives (NaN compares false)
            return {ast.Gt: f"(ltb {y} {x})", ast.GtE: f"(leb {y} {x})", ast.Lt: f"(ltb {x} {y})", ast.LtE: f"(leb {x} {y})", ast.Eq: f"(eqb {x} {y})"}.get(type(op))
        if ta in (INT, NUM) and tb in (INT, NUM):
            s = scalar(self.coerce(ea, ta, NUM), self.coerce(eb, tb, NUM))
            if s:
                return s, BOOL
        if isv(ta) and ta[1] == NUM and tb in (INT, NUM):
            s = scalar("x_", self.coerce(eb, tb, NUM))
            if s:
                return f"(map (fun x_ => {s}) {ea})", vec(BOOL)
        raise Unsupported(f"comparison {type(op).__name__} on {ta}, {tb}")

    def ev(self, n, env):
        if isinstance(n, ast.Constant):
            v = n.value
            if isinstance(v, bool):
                return ("true" if v else "false"), BOOL
            if isinstance(v, int):
                return zlit(v), INT
            if isinstance(v, float):
                return flit(v), NUM
            if isinstance(v, str):
                return f'"{v}"%string', STR
            raise Unsupported(f"constant {v!r}")
        if isinstance(n, ast.Name):
            if n.id in env:
                return env[n.id]
            if n.id in self.tr.consts:
                return self.tr.consts[n.id]
            raise Unsupported(f"unbound name {n.id}")
        if isinstance(n, ast.BinOp):
            if isinstance(n.op, ast.Pow) and isinstance(n.right, ast.Constant) and n.right.value == 2:
                a = self.ev(n.left, env)
                return self.arith(ast.Mult(), a, a)
            return self.arith(n.op, self.ev(n.left, env), self.ev(n.right, env))
        if isinstance(n, ast.Compare) and len(n.ops) == 1:
            return self.cmp(n.ops[0], self.ev(n.left, env), self.ev(n.comparators[0], env))
        if isinstance(n, ast.UnaryOp) and isinstance(n.op, ast.USub):
            e, t = self.ev(n.operand, env)
            if t == INT:
                return f"(Z.opp {e})", INT
            if t == NUM:
                return f"(sub (@ofZ A 0%Z) {e})", NUM
            raise Unsupported(f"unary minus on {t}")
        if isinstance(n, ast.IfExp):
            c = self.ev(n.test, env)
            a, b = self.ev(n.body, env), self.ev(n.orelse, env)
            if c[1] != BOOL or a[1] != b[1]:
                raise Unsupported("conditional expression: types")
            return f"(if {c[0]} then {a[0]} else {b[0]})", a[1]
        if isinstance(n, ast.Tuple):
            parts = [self.ev(e, env) for e in n.elts]
            return "(" + ", ".join(p[0] for p in parts) + ")", tup(*[p[1] for p in parts])
        if isinstance(n, ast.Attribute) and n.attr in ("statistic", "pvalue") and isinstance(n.value, ast.Call):
            b = self.ev(n.value, env)
            if b[1] == tup(NUM, NUM):   # a SciPy result object read as the pair (statistic, pvalue)
                return f"({'fst' if n.attr == 'statistic' else 'snd'} {b[0]})", NUM
            raise Unsupported(f".{n.attr} of {b[1]}")
        if isinstance(n, ast.Attribute):
            src = ast.unparse(n)
            if src == "np.nan":
                return "(div (@ofZ A 0%Z) (@ofZ A 0%Z))", NUM
            if src == "sys.float_info.min":
                return f"(div (@ofZ A 1%Z) (@ofZ A {zlit(2**1022)}))", NUM
            raise Unsupported(f"attribute {src}")
        if isinstance(n, ast.Subscript):
            src = ast.unparse(n)
            if isinstance(n.value, ast.Name) and n.value.id == "kwargs" and isinstance(n.slice, ast.Constant) and isinstance(n.slice.value, str):
                k = "kwargs:" + n.slice.value
                if k not in env:
                    raise Unsupported(f"undeclared keyword {n.slice.value}")
                return env[k]
            base = self.ev(n.value, env) if not isinstance(n.value, ast.Attribute) else None
            if base and base[1] == vec(NUM) and not isinstance(n.slice, (ast.Constant, ast.Slice, ast.Tuple)):
                i = self.ev(n.slice, env)
                if i[1] != INT:
                    raise Unsupported("index is not an int")
                return f"(nth (Z.to_nat {i[0]}) {base[0]} (@ofZ A 0%Z))", NUM
            if isinstance(n.value, ast.Attribute) and n.value.attr == "shape" and ast.unparse(n.slice) == "0":
                b = self.ev(n.value.value, env)
                if not (isinstance(b[1], tuple) and b[1][0] == "vec"):
                    raise Unsupported(f"shape of {b[1]}")
                return f"(g_len {b[0]})", INT
            if base and base[1] == vec(NUM) and isinstance(n.slice, ast.Constant) and isinstance(n.slice.value, int) and n.slice.value >= 0:
                return f"(nth {n.slice.value} {base[0]} (@ofZ A 0%Z))", NUM
            if base and isinstance(base[1], tuple) and base[1][0] == "tuple" and isinstance(n.slice, ast.Constant) and isinstance(n.slice.value, int):
                k, ts = n.slice.value, base[1][1]
                if len(ts) == 2 and k in (0, 1):
                    return f"({'fst' if k == 0 else 'snd'} {base[0]})", ts[k]
            raise Unsupported(f"subscript {src}")
        if isinstance(n, ast.Call):
            return self.call(n, env)
        raise Unsupported(f"expression {type(n).__name__}: {ast.unparse(n)[:60]}")

    def call(self, n, env):
        f = ast.unparse(n.func)
        kw = {k.arg: k.value for k in n.keywords}
        if None in kw:
            raise Unsupported(f"**kwargs in a call of {f}")
        isv = lambda t: isinstance(t, tuple) and t[0] == "vec"
        # ---- oracles
        if f in self.tr.oracles and isinstance(self.tr.oracles[f], list):
            # an overloaded library function: the first declared signature that fits the call's argument names and types
            last = None
            for o in self.tr.oracles[f]:
                try:
                    return self.oracle_call(o, f, n, kw, env)
                except Unsupported as e:
                    last = e
            raise Unsupported(f"oracle {f}: no declared signature fits ({last})")
        if f in self.tr.oracles:
            return self.oracle_call(self.tr.oracles[f], f, n, kw, env)
        return self.call_rest(n, f, kw, env)

    def oracle_call(self, o, f, n, kw, env):
        isv = lambda t: isinstance(t, tuple) and t[0] == "vec"
        if True:
            names = o.get("params") or [f"_{i}" for i in range(len(o["ptypes"]))]
            for k_, want_ in o.get("const_kw", {}).items():   # constant options the declared oracle stands for
                if k_ not in kw or not isinstance(kw[k_], ast.Constant) or kw[k_].value != want_:
                    raise Unsupported(f"oracle {f}: option {k_} is not the constant {want_!r}")
            kw = {k_: v_ for k_, v_ in kw.items() if k_ not in o.get("const_kw", {})}
            given = {}
            for nm, a in zip(names, n.args):
                given[nm] = a
            for k, v in kw.items():
                if k not in names or k in given:
                    raise Unsupported(f"oracle {f}: unexpected argument {k}")
                given[k] = v
            if set(given) != set(names):
                raise Unsupported(f"oracle {f}: arguments {sorted(given)} != {names}")
            args, lifted = [], None
            for i, (nm, pt) in enumerate(zip(names, o["ptypes"])):
                if isinstance(pt, tuple) and pt[0] == "fun":
                    lam = given[nm]
                    if not (isinstance(lam, ast.Lambda) and len(lam.args.args) == len(pt[1])):
                        raise Unsupported(f"oracle {f}: {nm} must be a lambda")
                    env2 = dict(env)
                    ps = []
                    for a_, t_ in zip(lam.args.args, pt[1]):
                        env2[a_.arg] = (a_.arg + "_", t_)
                        ps.append(f"({a_.arg}_ : {cty(t_)})")
                    b = self.ev(lam.body, env2)
                    args.append(f"(fun {' '.join(ps)} => {self.coerce(b[0], b[1], pt[2])})")
                    continue
                if pt == "shape1":
                    g = given[nm]
                    if not (isinstance(g, ast.Tuple) and len(g.elts) == 1 and isinstance(g.elts[0], ast.Constant) and isinstance(g.elts[0].value, int)):
                        raise Unsupported(f"oracle {f}: {nm} must be a constant 1-D shape")
                    args.append(zlit(g.elts[0].value))
                    continue
                e, t = self.ev(given[nm], env)
                if o.get("lift_last") and i == len(names) - 1 and isv(t) and t[1] in (NUM, INT) and pt == NUM:
                    lifted = (e, t)
                    args.append(self.coerce("x_", t[1], NUM))
                    continue
                if pt == OPQ:
                    if t != OPQ:
                        raise Unsupported(f"oracle {f}: {nm} is not opaque")
                    args.append(e)
                    continue
                args.append(self.coerce(e, t, pt))
            self.tr.used_oracles[o["coq"]] = o["ty"]
            head = o["coq"] + (" T" if o.get("poly") else "")
            if o.get("stateful"):
                # a call that consumes hidden state (NumPy's global generator): every call SITE of the function gets its own
                # index, so that two sites are never assumed to return the same value
                head += f" {zlit(self.site)}"
                self.site += 1
            app = f"({head} {' '.join(args)})"
            if lifted:
                return f"(map (fun x_ => {app}) {lifted[0]})", vec(o["ret"])
            return app, o["ret"]
    def call_rest(self, n, f, kw, env):
        isv = lambda t: isinstance(t, tuple) and t[0] == "vec"
        # ---- calls of other translated units: Class._static(...)
        if isinstance(n.func, ast.Attribute) and isinstance(n.func.value, ast.Name) and (n.func.value.id, n.func.attr) in self.tr.by_src:
            u = self.tr.by_src[(n.func.value.id, n.func.attr)]
            if u["name"] not in self.tr.done:
                raise Unsupported(f"{f} is called before it is translated")
            names = list(u["params"])
            given = dict(zip(names, n.args))
            for k, v in kw.items():
                if k not in names or k in given:
                    raise Unsupported(f"{f}: unexpected argument {k}")
                given[k] = v
            defaults = self.tr.done[u["name"]]["defaults"]
            args = []
            for nm in names:
                if nm in given:
                    e, t = self.ev(given[nm], env)
                elif nm in defaults:
                    e, t = self.ev(defaults[nm], {})
                else:
                    raise Unsupported(f"{f}: missing argument {nm}")
                args.append(self.coerce(e, t, u["params"][nm]))
            head = u["name"] + (" T" if self.tr.done[u["name"]]["poly"] else "")
            return f"({head} {' '.join(args)})", self.tr.done[u["name"]]["ret"]
        if f in ("np.min", "np.max") and len(n.args) == 1 and isinstance(n.args[0], ast.List) and len(n.args[0].elts) == 2 and not kw:
            a, b = (self.ev(e, env) for e in n.args[0].elts)
            if a[1] == INT and b[1] == INT:
                return f"(Z.{f[3:]} {a[0]} {b[0]})", INT
            if a[1] == NUM and b[1] == NUM:
                return f"(g_{f[3:]} {a[0]} {b[0]})", NUM
            raise Unsupported(f"{f} of {a[1]}, {b[1]}")
        if f == "np.concatenate" and len(n.args) == 1 and isinstance(n.args[0], ast.List) and len(n.args[0].elts) == 2 and not kw:
            a, b = (self.ev(e, env) for e in n.args[0].elts)
            if a[1] == vec(NUM) and b[1] == vec(NUM):
                return f"({a[0]} ++ {b[0]})", vec(NUM)
            raise Unsupported(f"np.concatenate of {a[1]}, {b[1]}")
        if f == "StatisticalResult" and not n.args and sorted(kw) == ["p_value", "statistic"]:
            a, b = self.ev(kw["statistic"], env), self.ev(kw["p_value"], env)
            return f"({a[0]}, {b[0]})", tup(a[1], b[1])   # the named tuple (statistic, p_value)
        if f == "int" and len(n.args) == 1 and isinstance(n.args[0], ast.Call) and ast.unparse(n.args[0].func) == "np.round" and len(n.args[0].args) == 1 and not kw:
            e, t = self.ev(n.args[0].args[0], env)
            self.tr.used_oracles["o_round_int"] = "num A -> Z"   # int(np.round(x)): round half to even, as an integer
            return f"(o_round_int {self.coerce(e, t, NUM)})", INT
        if f == "np.hstack" and len(n.args) == 1 and isinstance(n.args[0], ast.Tuple) and len(n.args[0].elts) == 2 and not kw:
            a, b = (self.ev(e, env) for e in n.args[0].elts)
            if a[1] == vec(NUM) and b[1] == vec(NUM):
                return f"({a[0]} ++ {b[0]})", vec(NUM)
            raise Unsupported(f"np.hstack of {a[1]}, {b[1]}")
        args = [self.ev(a, env) for a in n.args]
        # ---- methods of arrays
        if isinstance(n.func, ast.Attribute) and not n.args and not kw and n.func.attr in ("sum", "mean"):
            b = self.ev(n.func.value, env)
            if b[1] == vec(BOOL):
                return (f"(g_count {b[0]})", INT) if n.func.attr == "sum" else (f"(div (@ofZ A (g_count {b[0]})) (@ofZ A (g_len {b[0]})))", NUM)
            if b[1] == vec(NUM):
                return (f"(sumA {b[0]})", NUM) if n.func.attr == "sum" else (f"(g_mean {b[0]})", NUM)
            raise Unsupported(f".{n.func.attr}() of {b[1]}")
        # ---- NumPy / builtins
        if f == "len" and len(args) == 1 and isv(args[0][1]) and not kw:
            return f"(g_len {args[0][0]})", INT
        if f == "np.array" and len(args) == 1 and isv(args[0][1]) and not kw:
            return args[0]
        if f == "np.arange" and len(args) == 2 and args[0][1] == INT and args[1][1] == INT and not kw:
            return f"(g_zrange {args[0][0]} {args[1][0]})", vec(INT)
        if f in ("np.mean", "np.sum") and len(args) == 1 and args[0][1] == vec(NUM) and not kw:
            return (f"(g_mean {args[0][0]})" if f == "np.mean" else f"(sumA {args[0][0]})"), NUM
        if f in ("np.min", "np.max") and len(args) == 1 and args[0][1] == vec(NUM) and not kw:
            return f"(g_fold_{f[3:]} {args[0][0]})", NUM
        if f == "np.minimum" and len(args) == 2 and args[0][1] == vec(NUM) and args[1][1] == vec(NUM) and not kw:
            return f"(g_map2 g_min {args[0][0]} {args[1][0]})", vec(NUM)
        if f == "np.searchsorted" and len(args) == 2 and list(kw) == ["side"] and isinstance(kw["side"], ast.Constant) and kw["side"].value == "right" and args[0][1] == vec(NUM):
            if args[1][1] == vec(NUM):
                return f"(map (g_searchsorted_right {args[0][0]}) {args[1][0]})", vec(INT)
            if args[1][1] == NUM:
                return f"(g_searchsorted_right {args[0][0]} {args[1][0]})", INT
        if f in ("np.argmin", "np.argmax") and len(args) == 1 and args[0][1] == vec(NUM) and not kw:
            return f"(g_{f[3:]} {args[0][0]})", INT
        if f == "np.clip" and len(args) == 3 and all(a[1] in (NUM, INT) for a in args) and not kw:
            return "(g_clip " + " ".join(self.coerce(a[0], a[1], NUM) for a in args) + ")", NUM
        if f == "float" and len(args) == 1 and args[0][1] in (INT, NUM) and not kw:
            return self.coerce(args[0][0], args[0][1], NUM), NUM
        if f == "max" and len(args) == 2 and args[0][1] == INT and args[1][1] == INT and not kw:
            return f"(Z.max {args[0][0]} {args[1][0]})", INT
        if f in ("np.sqrt", "np.log") and len(args) == 1 and not kw:
            prim = {"np.sqrt": "sqrt", "np.log": "ln"}[f]
            if args[0][1] == vec(NUM):
                return f"(map {prim} {args[0][0]})", vec(NUM)
            if args[0][1] in (NUM, INT):
                return f"({prim} {self.coerce(args[0][0], args[0][1], NUM)})", NUM
        raise Unsupported(f"call {ast.unparse(n)[:80]}")

    # ------------------------------------------------------------------ statements
    @staticmethod
    def assigned(stmts):
        out = []
        for st in stmts:
            if isinstance(st, ast.Assign):
                for t in st.targets:
                    for nm in ([t] if isinstance(t, ast.Name) else list(t.elts) if isinstance(t, ast.Tuple) else []):
                        if isinstance(nm, ast.Name) and nm.id != "_" and nm.id not in out:
                            out.append(nm.id)
            elif isinstance(st, ast.If):
                for nm in Fn.assigned(st.body) + Fn.assigned(st.orelse):
                    if nm not in out:
                        out.append(nm)
        return out

    def run(self, stmts, env, lines):
        """appends `let .. in` lines, updates env; returns the (text, type) of a final `return`, else None"""
        for i, st in enumerate(stmts):
            if isinstance(st, ast.Expr) and isinstance(st.value, ast.Constant) and isinstance(st.value.value, str):
                continue
            if isinstance(st, ast.Return):
                if i != len(stmts) - 1 or st.value is None:
                    raise Unsupported("return not in final position")
                return self.ev(st.value, env)
            # if c: ...; return e      <rest>       ==>   if c then e else <rest>
            if isinstance(st, ast.If) and not st.orelse and st.body and isinstance(st.body[-1], ast.Return):
                c = self.ev(st.test, env)
                if c[1] != BOOL:
                    raise Unsupported("condition is not a bool")
                lb, lr = [], []
                rb = self.run(st.body, dict(env), lb)
                rr = self.run(stmts[i + 1:], dict(env), lr)
                if rb is None or rr is None:
                    raise Unsupported("early return without a final return")
                t = rb[1] if rb[1] == rr[1] else (NUM if {rb[1], rr[1]} == {NUM, INT} else None)
                if t is None:
                    raise Unsupported(f"early return of {rb[1]} vs {rr[1]}")
                return f"(if {c[0]} then {' '.join(lb)} {self.coerce(rb[0], rb[1], t)} else {' '.join(lr)} {self.coerce(rr[0], rr[1], t)})", t
            # with np.errstate(...): the block itself (the error state only decides whether the library calls inside raise,
            # which is part of what a `may_raise` oracle stands for)
            if isinstance(st, ast.With) and len(st.items) == 1 and ast.unparse(st.items[0].context_expr).startswith("np.errstate(") and st.items[0].optional_vars is None:
                r = self.run(st.body + stmts[i + 1:], env, lines)
                return r
            # try: <name = expression over may_raise oracles>  except (..): return h      <rest>
            #   ==>  match <expression> with None => h | Some name => <rest> end     (None: the library call raised)
            if isinstance(st, ast.Try) and not st.orelse and not st.finalbody and len(st.handlers) == 1 and len(st.handlers[0].body) == 1 and isinstance(st.handlers[0].body[0], ast.Return):
                hexc = ast.unparse(st.handlers[0].type) if st.handlers[0].type is not None else ""
                if hexc != "(FloatingPointError, OverflowError)":
                    raise Unsupported(f"except clause {hexc}")
                body = st.body
                while len(body) == 1 and isinstance(body[0], ast.With) and ast.unparse(body[0].items[0].context_expr).startswith("np.errstate("):
                    body = body[0].body
                if not (len(body) == 1 and isinstance(body[0], ast.Assign) and len(body[0].targets) == 1 and isinstance(body[0].targets[0], ast.Name)):
                    raise Unsupported("try body is not a single assignment")
                nm = body[0].targets[0].id
                e, t = self.ev(body[0].value, env)
                if t != opt(NUM):
                    raise Unsupported("try body does not call a library function declared may_raise")
                h = self.ev(st.handlers[0].body[0].value, env)
                env2, lr = dict(env), []
                env2[nm] = (nm + "_", NUM)
                rr = self.run(stmts[i + 1:], env2, lr)
                if rr is None or h[1] != rr[1]:
                    raise Unsupported("try: handler and continuation return different types")
                return f"(match {e} with None => {h[0]} | Some {nm}_ => {' '.join(lr)} {rr[0]} end)", rr[1]
            if isinstance(st, ast.Assign) and len(st.targets) == 1 and isinstance(st.targets[0], ast.Name):
                e, t = self.ev(st.value, env)
                nm = st.targets[0].id
                lines.append(f"let {nm}_ := {e} in")
                env[nm] = (nm + "_", t)
                continue
            if isinstance(st, ast.Assign) and len(st.targets) == 1 and isinstance(st.targets[0], ast.Tuple):
                e, t = self.ev(st.value, env)
                tg = st.targets[0].elts
                if not (isinstance(t, tuple) and t[0] == "tuple" and len(t[1]) == len(tg) and all(isinstance(x, ast.Name) for x in tg)):
                    raise Unsupported(f"tuple assignment from {t}")
                pat = ", ".join("_" if x.id == "_" else x.id + "_" for x in tg)
                lines.append(f"let '({pat}) := {e} in")
                for x, tt in zip(tg, t[1]):
                    if x.id != "_":
                        env[x.id] = (x.id + "_", tt)
                continue
            # X[X == c] = v  on a float array
            if (isinstance(st, ast.Assign) and len(st.targets) == 1 and isinstance(st.targets[0], ast.Subscript) and isinstance(st.targets[0].value, ast.Name)
                    and isinstance(st.targets[0].slice, ast.Compare) and len(st.targets[0].slice.ops) == 1 and isinstance(st.targets[0].slice.ops[0], ast.Eq)
                    and isinstance(st.targets[0].slice.left, ast.Name) and st.targets[0].slice.left.id == st.targets[0].value.id):
                nm = st.targets[0].value.id
                a = self.ev(st.targets[0].value, env)
                c = self.ev(st.targets[0].slice.comparators[0], env)
                v = self.ev(st.value, env)
                if a[1] != vec(NUM) or c[1] not in (NUM, INT) or v[1] not in (NUM, INT):
                    raise Unsupported("masked assignment: types")
                lines.append(f"let {nm}_ := map (fun x_ => if eqb x_ {self.coerce(c[0], c[1], NUM)} then {self.coerce(v[0], v[1], NUM)} else x_) {a[0]} in")
                env[nm] = (nm + "_", vec(NUM))
                continue
            if isinstance(st, ast.If):
                # idiom: if x is None: x = e   (x : option t)
                if (not st.orelse and isinstance(st.test, ast.Compare) and len(st.test.ops) == 1 and isinstance(st.test.ops[0], ast.Is)
                        and isinstance(st.test.left, ast.Name) and isinstance(st.test.comparators[0], ast.Constant) and st.test.comparators[0].value is None
                        and len([s for s in st.body if not isinstance(s, ast.Expr)]) == 1):
                    body = [s for s in st.body if not isinstance(s, ast.Expr)][0]
                    nm = st.test.left.id
                    cur = env.get(nm)
                    if (cur and isinstance(cur[1], tuple) and cur[1][0] == "opt" and isinstance(body, ast.Assign) and len(body.targets) == 1
                            and isinstance(body.targets[0], ast.Name) and body.targets[0].id == nm):
                        e, t = self.ev(body.value, env)
                        if t != cur[1][1]:
                            raise Unsupported(f"default of Optional {nm}: {t} vs {cur[1][1]}")
                        lines.append(f"let {nm}_ := match {cur[0]} with Some v_ => v_ | None => {e} end in")
                        env[nm] = (nm + "_", t)
                        continue
                    raise Unsupported("`is None` test outside the default idiom")
                names = self.assigned([st])
                if not names:
                    raise Unsupported("if statement without assignments")

                def branch(body):
                    env_b, lines_b = dict(env), []
                    r = self.run(body, env_b, lines_b)
                    if r is not None:
                        raise Unsupported("return inside a branch")
                    vals = []
                    for nm in names:
                        if nm not in env_b:
                            raise Unsupported(f"{nm} is not assigned on every path")
                        vals.append(env_b[nm])
                    txt = " ".join(lines_b) + " " + ("(" + ", ".join(v[0] for v in vals) + ")" if len(vals) > 1 else vals[0][0])
                    return txt.strip(), [v[1] for v in vals]

                def chain(node):
                    c = self.ev(node.test, env)
                    if c[1] != BOOL:
                        raise Unsupported("condition is not a bool")
                    tb, tt = branch(node.body)
                    if len(node.orelse) == 1 and isinstance(node.orelse[0], ast.If):
                        eb, et = chain(node.orelse[0])
                    else:
                        eb, et = branch(node.orelse)
                    if tt != et:
                        raise Unsupported(f"branches give {names} different types: {tt} vs {et}")
                    return f"(if {c[0]} then {tb} else {eb})", tt

                txt, tys = chain(st)
                pat = "'(" + ", ".join(nm + "_" for nm in names) + ")" if len(names) > 1 else names[0] + "_"
                lines.append(f"let {pat} := {txt} in")
                for nm, t in zip(names, tys):
                    env[nm] = (nm + "_", t)
                continue
            raise Unsupported(f"statement {type(st).__name__}: {ast.unparse(st)[:70]}")
        return None

    def translate(self):
        u = self.unit
        argnames = [a.arg for a in self.fn.args.args] + [a.arg for a in self.fn.args.kwonlyargs]
        if self.fn.args.vararg or [a for a in argnames if a not in u["params"]] or [p for p in u["params"] if p not in argnames]:
            raise Unsupported(f"parameters {argnames} differ from the declared {list(u['params'])}")
        if self.fn.args.kwarg is not None and not u.get("ignore_kwargs") and "kwargs" not in u:
            raise Unsupported("**kwargs")
        env = {p: (p + "_", t) for p, t in u["params"].items()}
        for k, t in u.get("kwargs", {}).items():   # keys the function reads from **kwargs: further parameters kw_<key>
            env["kwargs:" + k] = ("kw_" + k + "_", t)
        lines = []
        r = self.run(self.fn.body, env, lines)
        if r is None:
            raise Unsupported("no final return")
        sig = " ".join([f"({p}_ : {cty(t)})" for p, t in u["params"].items()] + [f"(kw_{k}_ : {cty(t)})" for k, t in u.get("kwargs", {}).items()])
        poly = any(self._has_opq(t) for t in u["params"].values())
        text = f"Definition {u['name']}{' (T : Type)' if poly else ''} {sig} : {cty(r[1])} :=\n  " + "\n  ".join(lines) + ("\n  " if lines else "") + r[0] + "."
        pos = [a.arg for a in self.fn.args.args]
        defaults = dict(zip(pos[len(pos) - len(self.fn.args.defaults):], self.fn.args.defaults))
        defaults.update({a.arg: d for a, d in zip(self.fn.args.kwonlyargs, self.fn.args.kw_defaults) if d is not None})
        return text, dict(ret=r[1], poly=poly, defaults=defaults)

    @staticmethod
    def _has_opq(t):
        return t == OPQ or (isinstance(t, tuple) and any(Fn._has_opq(x) for x in (t[1] if isinstance(t[1], tuple) else (t[1],))))


class FnTranslator:
    def __init__(self, repo, units, oracles, consts_from=()):
        self.repo, self.units, self.oracles = repo, units, oracles
        self.by_src = {(u["cls"], u["fn"]): u for u in units}
        self.done, self.used_oracles, self.texts, self.errors, self.sources = {}, {}, [], {}, []
        self.consts = {}
        for rel, names in consts_from:
            tree = ast.parse(open(os.path.join(repo, rel)).read())
            for node in tree.body:
                tg = node.target if isinstance(node, ast.AnnAssign) else (node.targets[0] if isinstance(node, ast.Assign) and len(node.targets) == 1 else None)
                if isinstance(tg, ast.Name) and tg.id in names and isinstance(node.value, ast.Constant) and isinstance(node.value.value, int) and not isinstance(node.value.value, bool):
                    self.consts[tg.id] = (zlit(node.value.value), INT)
            missing = [nm for nm in names if nm not in self.consts]
            if missing:
                self.errors[f"{rel}: constants"] = f"module constants {missing} not found as integer literals"

    def find(self, rel, cls, fn):
        tree = ast.parse(open(os.path.join(self.repo, rel)).read())
        for node in tree.body:
            if cls is None and isinstance(node, ast.FunctionDef) and node.name == fn:
                return node
            if isinstance(node, ast.ClassDef) and node.name == cls:
                for sub in node.body:
                    if isinstance(sub, ast.FunctionDef) and sub.name == fn:
                        if not any(ast.unparse(d) == "staticmethod" for d in sub.decorator_list):
                            raise Unsupported(f"{cls}.{fn} is not a staticmethod")
                        return sub
        raise Unsupported(f"{cls}.{fn} not found in {rel}")

    def run(self):
        for u in self.units:
            try:
                fn = self.find(u["file"], u["cls"], u["fn"])
                text, info = Fn(self, u, fn).translate()
            except Unsupported as e:
                self.errors[f"{u['cls']}.{u['fn']}"] = str(e)
                continue
            except (OSError, SyntaxError) as e:
                self.errors[f"{u['cls']}.{u['fn']}"] = repr(e)
                continue
            self.done[u["name"]] = info
            self.texts.append(f"(* {u['cls']}.{u['fn']}  <-  {u['file']}:{fn.lineno} *)\n{text}")
            self.sources.append(u["file"])
        return self

    def emit(self):
        ctx = "".join(f" ({o} : {t})" for o, t in sorted(self.used_oracles.items()))
        return "\n".join([
            "(** GENERATED by harness/fn2coq.py from /repo's source on every run -- do not edit. Source of: " + ", ".join(sorted(set(self.sources))) + " *)",
            "From Coq Require Import ZArith List Bool String.",
            "From FV Require Import NumSys.",
            "Import ListNotations.",
            "Section GenFn.",
            "  Context {A : Arith}" + ctx + ".",
            PRELUDE,
            "\n".join(self.texts),
            "End GenFn.",
            "",
        ])
