"""C15 — save / load at any point yields an indistinguishable detector.

For every class (13 streaming concept-drift detectors, 17 batch and 2 streaming data-drift
detectors, 3 callbacks attached to a detector), random configurations and histories:
at every prefix length k and every pickle protocol the IMPLEMENTATION is saved with
frouros.utils.save, loaded with frouros.utils.load, compared (type, whole object graph by
value, sharing included) and continued; the continuation's outputs are compared with the
original continued and with a run in which nothing was ever saved.  The Coq side
(Props/C15.v) proves that these three coincide for every detector model under the pickle
contract, that validation precedes the open(), and records which attributes hold callables;
the tie evaluates the model's save() on the rejection cases, the model's callable table on
the real object graphs, and the 13 detector models on the no-save histories.
"""
from __future__ import annotations

import collections
import functools
import os
import pickle
import shutil
import sys
import time
import types

import numpy as np

from detectors import ALL, KSWINDet, corr_compare, compare_traces, gen_ops, run_impl, run_models
from lib import BUILD, HEADER, Check, check_props, coq_eval

TMP = os.path.join(BUILD, "c15_tmp", str(os.getpid()))
HIGHEST = pickle.HIGHEST_PROTOCOL
PROTOS = list(range(HIGHEST + 1))

# --------------------------------------------------------------------------- value snapshots


def _is_frouros(o):
    return type(o).__module__.split(".")[0] == "frouros"


def snap(o, memo=None, keep=None):
    """Canonical by-value image of an object graph: types, attribute values, numpy contents
    (dtype, shape, bytes), float bits, callables by qualified name, and the SHARING structure
    (a second visit of a mutable object is rendered as a reference to the first visit)."""
    if memo is None:
        memo, keep = {}, []
    t = type(o)
    if o is None or t in (bool, int, str, bytes):
        return (t.__name__, o)
    if t is float:
        return ("float", o.hex())
    if isinstance(o, np.generic):
        return ("np", o.dtype.str, o.tobytes())
    if isinstance(o, np.ndarray):
        if o.dtype == object:
            return ("ndobj", o.shape, [snap(x, memo, keep) for x in o.flat])
        return ("nd", o.dtype.str, o.shape, np.ascontiguousarray(o).tobytes())
    if isinstance(o, (types.FunctionType, types.BuiltinFunctionType, type)):
        return ("callable", getattr(o, "__module__", None), getattr(o, "__qualname__", None))
    oid = id(o)
    if oid in memo:
        return ("ref", memo[oid])
    memo[oid] = len(memo)
    keep.append(o)
    if isinstance(o, types.MethodType):
        return ("method", snap(o.__self__, memo, keep), o.__func__.__qualname__)
    if isinstance(o, functools.partial):
        return ("partial", snap(o.func, memo, keep), snap(o.args, memo, keep), snap(o.keywords, memo, keep))
    if isinstance(o, dict):
        return ("dict", t.__name__, [(snap(k, memo, keep), snap(v, memo, keep)) for k, v in o.items()])
    if isinstance(o, collections.deque):
        return ("deque", o.maxlen, [snap(x, memo, keep) for x in o])
    if isinstance(o, (list, tuple)):
        return (t.__module__ + "." + t.__qualname__, [snap(x, memo, keep) for x in o])
    if isinstance(o, (set, frozenset)):
        return (t.__name__, sorted(repr(snap(x, memo, keep)) for x in o))
    mod = t.__module__ or ""
    if mod.startswith("scipy."):
        # library object (STEPD keeps a frozen normal distribution): identified, not opened
        return ("scipy", t.__qualname__, type(getattr(o, "dist", None)).__name__, snap(getattr(o, "args", None), memo, keep), snap(getattr(o, "kwds", None), memo, keep))
    fields = []
    if hasattr(o, "__dict__"):
        fields = [(k, snap(v, memo, keep)) for k, v in vars(o).items()]
    for k in getattr(t, "__slots__", ()):
        if hasattr(o, k):
            fields.append((k, snap(getattr(o, k), memo, keep)))
    props = []
    if _is_frouros(o):
        for name in dir(t):
            if name.startswith("_") or not isinstance(getattr(t, name, None), property):
                continue
            try:
                v = getattr(o, name)
            except Exception as e:  # noqa: BLE001
                props.append((name, ("raises", type(e).__name__)))
                continue
            props.append((name, snap(v, memo, keep)))
    if not fields and not props and not hasattr(o, "__dict__"):
        return ("opaque", mod + "." + t.__qualname__, repr(o))
    return ("obj", mod + "." + t.__qualname__, fields, props)


def snap_diff(a, b, path="$"):
    """Path of the first difference between two snapshots (or None)."""
    if type(a) is not type(b):
        return f"{path}: {str(a)[:80]} != {str(b)[:80]}"
    if isinstance(a, (tuple, list)):
        if len(a) != len(b):
            return f"{path}: length {len(a)} != {len(b)}"
        for i, (x, y) in enumerate(zip(a, b)):
            lab = x[0] if isinstance(x, tuple) and len(x) == 2 and isinstance(x[0], str) else i
            d = snap_diff(x, y, f"{path}.{lab}")
            if d is not None:
                return d
        return None
    return None if a == b else f"{path}: {str(a)[:80]} != {str(b)[:80]}"


# --------------------------------------------------------------------------- callables in an object graph


def resolve(module, qualname):
    """What pickle's by-reference lookup finds (independent of the code under test)."""
    try:
        o = sys.modules[module] if module in sys.modules else __import__(module, fromlist=["_"])
        for part in qualname.split("."):
            o = getattr(o, part)
        return o
    except Exception:  # noqa: BLE001
        return None


def classify(f):
    if isinstance(f, functools.partial):
        return classify(f.func)
    if isinstance(f, type):
        return "TypeObject"
    if isinstance(f, types.BuiltinFunctionType):
        return "BuiltinFunction"
    qn = f.__qualname__
    if "<locals>" in qn:
        return "LocalFunction"
    if "<lambda>" in qn:
        return "ClassBodyLambda" if "." in qn else "LocalFunction"
    return "ClassAttrFunction" if "." in qn else "ModuleFunction"


def callable_fields(o, path="", seen=None, out=None):
    """[(attribute path, kind, importable by qualified name)] of every callable / opaque library object."""
    if seen is None:
        seen, out = set(), []
    if o is None or isinstance(o, (bool, int, float, str, bytes, np.generic)):
        return out
    if isinstance(o, np.ndarray):
        return out
    if isinstance(o, functools.partial):
        f = o.func
        out.append((path, classify(f), resolve(f.__module__, f.__qualname__) is f))
        return out
    if isinstance(o, (types.FunctionType, types.BuiltinFunctionType, type)):
        out.append((path, classify(o), resolve(o.__module__, o.__qualname__) is o))
        return out
    if id(o) in seen:
        return out
    seen.add(id(o))
    if (type(o).__module__ or "").startswith("scipy."):
        out.append((path, "LibraryObject", True))
        return out
    if isinstance(o, dict):
        for k, v in o.items():
            callable_fields(v, f"{path}[{k!r}]", seen, out)
    elif isinstance(o, (list, tuple, collections.deque)):
        for i, x in enumerate(o):
            callable_fields(x, f"{path}[{i}]", seen, out)
    elif hasattr(o, "__dict__"):
        for k, v in vars(o).items():
            callable_fields(v, f"{path}.{k}", seen, out)
    return out


# --------------------------------------------------------------------------- the classes


def _data(rng, n, kind=None, dim=0, categorical=False):
    """A sample as nested lists: structured families, ties and constants over-represented."""
    if categorical:
        k = rng.choice([2, 3, 5])
        w = [rng.random() + 0.05 for _ in range(k)]
        return [rng.choices(range(k), w)[0] for _ in range(n)]
    kind = kind or rng.choice(["normal", "normal", "shift", "ties", "const", "uniform", "heavy"])

    def one():
        if kind == "normal":
            return rng.gauss(0.0, 1.0)
        if kind == "shift":
            return rng.gauss(1.5, 0.5)
        if kind == "ties":
            return float(rng.choice([0, 1, 2, 3]))
        if kind == "const":
            return 1.5
        if kind == "uniform":
            return rng.uniform(-2.0, 5.0)
        return rng.gauss(0.0, 1.0) ** 3 * 10.0

    if dim == 0:
        return [one() for _ in range(n)]
    return [[one() for _ in range(dim)] for _ in range(n)]


class Spec:
    name = ""
    family = ""  # concept | batch-distance | batch-test | stream-dd
    callbacks = ()  # callback kinds that may be attached

    def make(self, cfg, callbacks):
        raise NotImplementedError

    def gen_cfg(self, rng):
        return {}

    def gen_ops(self, rng, cfg, n):
        raise NotImplementedError


class ConceptSpec(Spec):
    family = "concept"
    callbacks = ("history", "history2")

    def __init__(self, det):
        self.det = det
        self.name = det.name

    def make(self, cfg, callbacks):
        return self.det.make(cfg, callbacks or None)

    def gen_cfg(self, rng):
        return self.det.gen_cfg(rng)

    def gen_ops(self, rng, cfg, n):
        return gen_ops(rng, self.det, cfg, n)


class BatchSpec(Spec):
    def __init__(self, name, family, cfgkind=None):
        self.name = name
        self.family = family
        self.cfgkind = cfgkind
        self.callbacks = ("perm",) if family == "batch-distance" else ("reset",)
        self.slow = name == "BWSTest"

    def cls(self):
        import frouros.detectors.data_drift.batch as b

        return getattr(b, self.name)

    def gen_cfg(self, rng):
        if self.cfgkind == "bins":
            return dict(num_bins=rng.choice([1, 2, 5, 10, 10, 25]))
        if self.cfgkind == "mmd":
            return dict(sigma=rng.choice([None, 0.5, 1.0, 3.0]), chunk_size=rng.choice([None, None, 1, 3, 10]), dim=rng.choice([0, 1, 2, 3]))
        return {}

    def make(self, cfg, callbacks):
        kw = {}
        if self.cfgkind == "bins":
            kw["num_bins"] = cfg["num_bins"]
        if self.cfgkind == "mmd":
            from frouros.utils.kernels import rbf_kernel

            kw["chunk_size"] = cfg["chunk_size"]
            if cfg["sigma"] is not None:
                kw["kernel"] = functools.partial(rbf_kernel, sigma=cfg["sigma"])
        return self.cls()(callbacks=callbacks or None, **kw)

    def gen_ops(self, rng, cfg, n):
        dim = cfg.get("dim", 0)
        cat = self.name == "ChiSquareTest"
        # SciPy's BWS test enumerates / resamples up to 9999 permutations per compare: small samples
        # (5+6: exact enumeration; 9+9: random resampling from the global generator)
        fit_sizes, cmp_sizes = ([6, 9], [5, 6, 9]) if self.slow else ([6, 15, 40], [5, 6, 15, 30])
        ops = []
        if rng.random() < 0.25:
            ops.append(["compare", _data(rng, rng.choice(cmp_sizes), dim=dim, categorical=cat)])  # before any fit: MissingFitError
        ops.append(["fit", _data(rng, rng.choice(fit_sizes), dim=dim, categorical=cat)])
        while len(ops) < n:
            r = rng.random()
            if r < 0.62:
                ops.append(["compare", _data(rng, rng.choice(cmp_sizes), dim=dim, categorical=cat)])
            elif r < 0.8:
                ops.append(["fit", _data(rng, rng.choice(fit_sizes), dim=dim, categorical=cat)])
            elif r < 0.92:
                ops.append(["reset"])
            else:
                ops.append(["fit", 3])  # not an array: TypeError / AttributeError, state must stay as it was
        return ops[:n]


class StreamDDSpec(Spec):
    family = "stream-dd"
    callbacks = ()

    def __init__(self, name):
        self.name = name

    def gen_cfg(self, rng):
        if self.name == "MMDStreaming":
            return dict(window_size=rng.choice([2, 3, 5]), sigma=rng.choice([None, 0.5, 2.0]), chunk_size=rng.choice([None, 2]), dim=rng.choice([1, 2]))
        return dict(window_size=rng.choice([1, 2, 5, 8]), dim=0)

    def make(self, cfg, callbacks):
        import frouros.detectors.data_drift as dd

        if self.name == "MMDStreaming":
            from frouros.utils.kernels import rbf_kernel

            kw = dict(window_size=cfg["window_size"], chunk_size=cfg["chunk_size"])
            if cfg["sigma"] is not None:
                kw["kernel"] = functools.partial(rbf_kernel, sigma=cfg["sigma"])
            return dd.MMDStreaming(callbacks=callbacks or None, **kw)
        return dd.IncrementalKSTest(window_size=cfg["window_size"], callbacks=callbacks or None)

    def gen_ops(self, rng, cfg, n):
        dim = cfg["dim"]
        ops = []
        if rng.random() < 0.25:
            ops.append(["update", _data(rng, 1, dim=dim)[0]])  # before fit: MissingFitError
        ops.append(["fit", _data(rng, rng.choice([4, 9, 20]), dim=dim)])
        kind = rng.choice(["normal", "shift", "ties"])
        while len(ops) < n:
            r = rng.random()
            if r < 0.88:
                ops.append(["update", _data(rng, 1, kind=kind, dim=dim)[0]])
            elif r < 0.94:
                ops.append(["reset"])
            else:
                ops.append(["fit", _data(rng, rng.choice([4, 9]), dim=dim)])
        return ops[:n]


BINS = ["BhattacharyyaDistance", "HellingerDistance", "HINormalizedComplement", "PSI", "JS", "KL"]
DIST = ["BhattacharyyaDistance", "EMD", "EnergyDistance", "HellingerDistance", "HINormalizedComplement", "JS", "KL", "MMD", "PSI"]
TESTS = ["AndersonDarlingTest", "BWSTest", "ChiSquareTest", "CVMTest", "KSTest", "KuiperTest", "MannWhitneyUTest", "WelchTTest"]

SPECS = (
    [ConceptSpec(d) for d in ALL]
    + [BatchSpec(n, "batch-distance", "mmd" if n == "MMD" else ("bins" if n in BINS else None)) for n in DIST]
    + [BatchSpec(n, "batch-test") for n in TESTS]
    + [StreamDDSpec("IncrementalKSTest"), StreamDDSpec("MMDStreaming")]
)
SPEC_BY_NAME = {s.name: s for s in SPECS}


def gen_callback(rng, kind):
    if kind == "perm":
        return dict(kind="perm", num_permutations=rng.choice([2, 3, 5]), method=rng.choice(["auto", "conservative", "exact", "approximate", "estimate"]), random_state=rng.randrange(1000), num_jobs=1)
    if kind == "reset":
        return dict(kind="reset", alpha=rng.choice([1e-9, 0.05, 0.5, 1.0]))
    return dict(kind=kind)


def make_callbacks(cb):
    if cb is None:
        return []
    from frouros.callbacks import HistoryConceptDrift, PermutationTestDistanceBased, ResetStatisticalTest

    k = cb["kind"]
    if k == "history":
        return [HistoryConceptDrift()]
    if k == "history2":
        return [HistoryConceptDrift(name="first"), HistoryConceptDrift(name="second")]
    if k == "perm":
        return [PermutationTestDistanceBased(num_permutations=cb["num_permutations"], method=cb["method"], random_state=cb["random_state"], num_jobs=cb["num_jobs"], name="perm")]
    return [ResetStatisticalTest(alpha=cb["alpha"])]


def build(spec, cfg, cb, end, env_seed):
    """(root object handed to save, function root -> detector).  The global NumPy generator
    (KSWIN, SciPy's BWS permutations draw from it) is part of the environment: fixed here."""
    np.random.seed(env_seed)
    cbs = make_callbacks(cb)
    det = spec.make(cfg, cbs)
    if end == "callback":
        return cbs[-1], (lambda r: r.detector)
    return det, (lambda r: r)


def step(det, spec, op):
    """Apply one operation of a history; everything the call yields, by value."""
    try:
        if spec.family == "concept":
            if op == "R":
                r = det.reset()
            else:
                r = det.update(value=op)
            return (snap(r), snap(spec.det.observe(det)), snap(det.status))
        k = op[0]
        if k == "reset":
            r = det.reset()
        elif k == "fit":
            r = det.fit(X=np.array(op[1]) if isinstance(op[1], list) else op[1])
        elif k == "compare":
            r = det.compare(X=np.array(op[1]))
        else:
            v = op[1]
            r = det.update(value=np.array(v) if isinstance(v, list) else v)
        return (snap(r),)
    except Exception as e:  # noqa: BLE001
        return (("raise", type(e).__name__),)


# --------------------------------------------------------------------------- one case


_counter = [0]


def tmp_path():
    os.makedirs(TMP, exist_ok=True)
    _counter[0] += 1
    return os.path.join(TMP, f"c15_{os.getpid()}_{_counter[0]}.pkl")


def _msg(e):
    import re

    return re.sub(r" at 0x[0-9a-f]+", "", f"{type(e).__name__}: {e}")[:300]


def _rm(path):
    try:
        os.remove(path)
    except OSError:
        pass


def save_points(rng, spec, cfg, ops):
    n = len(ops)
    if n <= 30:
        return list(range(n + 1))
    ks = {0, 1, n - 1, n}
    if spec.family == "concept":
        w = spec.det.warm(cfg)
        ks |= {k for k in (w - 1, w, w + 1) if 0 <= k <= n}
        ks |= {i + 1 for i, o in enumerate(ops) if o == "R"} | {i for i, o in enumerate(ops) if o == "R"}
    while len(ks) < 14:
        ks.add(rng.randrange(n + 1))
    return sorted(ks)


def run_case(ck, case, rng=None, report=True):
    """Returns (violations found as [(sig, detail)], no-save outputs, root of the no-save run)."""
    from frouros.utils import load, save

    spec = SPEC_BY_NAME[case["cls"]]
    cfg, cb, end, ops, env_seed = case["config"], case["callback"], case["end"], case["ops"], case["env_seed"]
    ks = case["ks"]
    cont = case.get("cont")  # {k: [protocols]} for which the continuation is run; None = all
    n = len(ops)
    found = []
    sig0 = dict(cls=spec.name, callback=(cb or {}).get("kind"), end=end)

    def bad(clause, **detail):
        sig = dict(clause=clause, **sig0)
        d = dict(what=detail.pop("what", clause), case=dict(case, ks=[detail.get("k")] if "k" in detail else ks, cont=None), **detail)
        found.append((sig, d))
        if report:
            ck.violation(sig, d)

    # 1. the run in which nothing is ever saved
    root0, tgt = build(spec, cfg, cb, end, env_seed)
    det0 = tgt(root0)
    ref = [step(det0, spec, op) for op in ops]
    ref_final = snap(root0)

    # 2. one object carried through the whole history, saved at every save point
    root, tgt = build(spec, cfg, cb, end, env_seed)
    det = tgt(root)
    outs = []
    for k in range(n + 1):
        if k in ks:
            rs = np.random.get_state()
            s_orig = snap(root)
            for p in PROTOS:
                path = tmp_path()
                try:
                    if p == pickle.DEFAULT_PROTOCOL and k % 2 == 0:
                        save(root, path)  # default argument
                    else:
                        save(root, path, p)
                except Exception as e:  # noqa: BLE001
                    left = os.path.exists(path)
                    _rm(path)
                    bad("picklable", what="save raised on a detector / callback", k=k, protocol=p, error=_msg(e), file_left_behind=left)
                    return found, ref, root0
                d = snap_diff(s_orig, snap(root))
                if d is not None:
                    _rm(path)
                    bad("save-mutates", what="save changed the object it was given", k=k, protocol=p, diff=d)
                    return found, ref, root0
                try:
                    loaded = load(path)
                except Exception as e:  # noqa: BLE001
                    _rm(path)
                    bad("load", what="load raised on a file written by save", k=k, protocol=p, error=_msg(e))
                    return found, ref, root0
                _rm(path)
                if type(loaded) is not type(root):
                    bad("type", what="loaded object has another type", k=k, protocol=p, got=str(type(loaded)), expected=str(type(root)))
                    continue
                d = snap_diff(s_orig, snap(loaded))
                if d is not None:
                    bad("state", what="observable state of the loaded object differs", k=k, protocol=p, diff=d)
                    continue
                if cont is None or p in cont.get(k, cont.get(str(k), [])):
                    np.random.set_state(rs)
                    ldet = tgt(loaded)
                    lout = [step(ldet, spec, op) for op in ops[k:]]
                    ck.count("continuation_ops", n - k)
                    for j, (a, b_) in enumerate(zip(lout, ref[k:])):
                        if a != b_:
                            bad("outputs-loaded", what="loaded object continued: output differs from the run without any save", k=k, protocol=p, step=k + j, diff=snap_diff(b_, a))
                            break
                    else:
                        d = snap_diff(ref_final, snap(loaded))
                        if d is not None:
                            bad("final-state", what="state after the continuation differs from the run without any save", k=k, protocol=p, diff=d)
            np.random.set_state(rs)
            ck.count("save_points")
            ck.count("save_load_roundtrips", len(PROTOS))
        if k < n:
            outs.append(step(det, spec, ops[k]))
    for j, (a, b_) in enumerate(zip(outs, ref)):
        if a != b_:
            bad("outputs-original", what="the original, saved along the way, differs from the run without any save", step=j, diff=snap_diff(b_, a))
            break
    else:
        d = snap_diff(ref_final, snap(root))
        if d is not None:
            bad("outputs-original", what="final state of the original, saved along the way, differs from the run without any save", diff=d)
    return found, ref, root0


def cont_plan(rng, ks, n):
    """Protocols for which the continuation is executed at each save point: all of them for
    short histories, two per save point (one cycling, one random) beyond."""
    if n <= 12:
        return None
    return {k: sorted({k % (HIGHEST + 1), rng.choice(PROTOS)}) for k in ks}


# --------------------------------------------------------------------------- rejection clause


def proto_coq(p):
    if isinstance(p, (bool, np.bool_)):
        return f"(PBool {'true' if p else 'false'})"
    if isinstance(p, (int, np.integer)):
        v = int(p)
        return f"(PInt ({v}))"
    if isinstance(p, (float, np.floating)):
        x = float(p)
        if x != x or x in (float("inf"), float("-inf")):
            return "(PFloat 0 false)"
        return f"(PFloat ({int(np.floor(x))}) {'true' if x == np.floor(x) else 'false'})"
    return "PNonNumeric"


class Holder:  # same shape as BaseECDDConfig: lambdas in a dict in a class body
    fmap = {1: lambda p: p}


REJ_HEADER = (
    HEADER
    + """From FV Require Import Persist.
Open Scope string_scope.
Definition o_t := (kind * bool)%type.
Definition sentinel : o_t := (KOther, true).
(* identity pickle; a failed dump leaves an unreadable file; file states: 0 absent, 1 unreadable, 2 previous content, 3 new pickle *)
Definition sv (w : write_order) (k : kind) (pk : bool) (pr : pyproto) (existing dir : bool) :=
  let f0 : fs (option o_t) := fun q => if existing then Some (Some sentinel) else None in
  let r := save o_t fst snd (option o_t) None (fun o _ => Some o) (fun _ _ => None) (fun _ => dir) w (k, pk) "p" pr f0 in
  (snd r,
   match fst r "p" with None => 0 | Some None => 1
   | Some (Some (KOther, _)) => 2 | Some (Some _) => 3 end,
   match load o_t (option o_t) (fun b => match b with Some o => Ok o | None => Raise OtherError end) "p" (fst r) with
   | Ok _ => true | Raise _ => false end).
"""
)


def rejection(ck, thorough):
    from frouros.callbacks import HistoryConceptDrift, ResetStatisticalTest
    from frouros.detectors.concept_drift import DDM, DDMConfig
    from frouros.detectors.data_drift import KSTest
    from frouros.utils import load, save
    from frouros.utils.data_structures import CircularQueue
    from frouros.utils.stats import Mean

    import inspect

    import foreign_objs

    rng = ck.rng
    # which revision of save() is this?  read off the source, not off its behaviour
    worder = "DumpsThenWrite" if "dumps(" in inspect.getsource(save) else "DumpIntoOpenFile"
    ck.notes.append(f"revision of save() as read off its source: {worder}")
    ck.count("revision:" + worder)

    def a_function(x):
        return x

    tainted = DDM()
    tainted.extra = Holder.fmap[1]
    tainted_cb = HistoryConceptDrift()
    tainted_cb.logs["f"] = Holder.fmap[1]

    det = DDM(callbacks=[HistoryConceptDrift()])
    for v in (0, 1, 1, 0):
        det.update(value=v)
    fitted = KSTest(callbacks=[ResetStatisticalTest(alpha=0.01)])
    fitted.fit(X=np.arange(5.0))
    objects = [
        ("int", 3, "KOther"),
        ("float", 2.5, "KOther"),
        ("str", "DDM", "KOther"),
        ("None", None, "KOther"),
        ("dict", {"a": 1}, "KOther"),
        ("list-of-detectors", [DDM()], "KOther"),
        ("function", a_function, "KOther"),
        ("lambda", lambda x: x, "KOther"),
        ("ndarray", np.zeros(3), "KOther"),
        ("detector-class", DDM, "KOther"),
        ("callback-class", HistoryConceptDrift, "KOther"),
        ("config-object", DDMConfig(), "KOther"),
        ("statistic-object", Mean(), "KOther"),
        ("queue-object", CircularQueue(max_len=3), "KOther"),
        ("foreign-object-of-a-class-named-BaseCallback", foreign_objs.BaseCallback(), "KOther"),
        ("foreign-object-whose-base-is-named-BaseCallback", foreign_objs.MyCallback(), "KOther"),
        ("foreign-object-whose-base-is-named-BaseDetector", foreign_objs.MyDetector(), "KOther"),
        ("detector", det, "KDetector"),
        ("batch-detector", fitted, "KDetector"),
        ("callback", det.callbacks[0], "KCallback"),
        ("unattached-callback", HistoryConceptDrift(), "KCallback"),
        ("detector-holding-class-body-lambda", tainted, "KDetector"),
        ("callback-holding-class-body-lambda", tainted_cb, "KCallback"),
    ]
    unpicklable = {"detector-holding-class-body-lambda", "callback-holding-class-body-lambda"}
    protos = [
        ("-1", -1), ("-2", -2), ("HIGHEST+1", HIGHEST + 1), ("huge", 10**30), ("-huge", -(10**30)), ("2.5", 2.5), ("nan", float("nan")), ("str", "2"),
        ("None", None), ("list", [1]), ("np.int64(-1)", np.int64(-1)), ("np.int64(HIGHEST+1)", np.int64(HIGHEST + 1)), ("-0.5", -0.5), ("6.0", float(HIGHEST + 1)),
        ("2.0", 2.0), ("np.float64(1.0)", np.float64(1.0)), ("0.0", 0.0),
        ("0", 0), ("HIGHEST", HIGHEST), ("True", True), ("False", False), ("np.int64(3)", np.int64(3)),
    ]
    ck.rule(
        "rejection clause: 17 kinds of non-detector objects (incl. a detector CLASS, a config object, a list of detectors, importable foreign objects whose classes are merely NAMED BaseCallback / BaseDetector) and 4 detectors/callbacks x 22 protocol values "
        "(-1, -2, HIGHEST+1, +-10^30, non-integral / integral / nan floats, str, None, list, numpy ints, bools), target path absent / holding previous content / in a missing directory"
    )
    cases, exprs = [], []
    for oname, o, kind in objects:
        for pname, p in protos:
            nonint = not isinstance(p, (int, np.integer))
            if kind != "KOther" and oname not in ("detector", "callback") and not thorough and rng.random() < 0.5:
                continue
            if kind == "KOther" and not thorough and pname not in ("-1", "HIGHEST", "2.0", "None") and rng.random() < 0.6:
                continue
            for existing, dirok in ((False, True), (True, True), (False, False)):
                if not dirok and rng.random() < 0.7:
                    continue
                cases.append((oname, o, kind, pname, p, existing, dirok, nonint))
                exprs.append(f"sv {worder} {kind} {'false' if oname in unpicklable else 'true'} {proto_coq(p)} {'true' if existing else 'false'} {'true' if dirok else 'false'}")
    model = coq_eval("C15rej", REJ_HEADER, exprs, shard=400)
    old = b"previous content, not a pickle"
    for (oname, o, kind, pname, p, existing, dirok, nonint), mo in zip(cases, model):
        path = tmp_path() if dirok else os.path.join(TMP, "no_such_dir", "x.pkl")
        if existing:
            with open(path, "wb") as fh:
                fh.write(old)
        try:
            save(o, path, p)
            outcome = "ok"
        except Exception as e:  # noqa: BLE001
            outcome = type(e).__name__
        exists = os.path.exists(path)
        content = open(path, "rb").read() if exists else None
        loadable = False
        if exists:
            try:
                load(path)
                loadable = True
            except Exception:  # noqa: BLE001
                loadable = False
        _rm(path)
        state = 0 if not exists else (2 if content == old else (3 if loadable else 1))
        m_out, m_state, m_loadable = mo
        m_outcome = "ok" if getattr(m_out, "name", None) == "Ok" else m_out.args[0].name if hasattr(m_out, "args") else str(m_out)
        ck.corr_cases += 1
        key = f"reject:{'other' if kind == 'KOther' else 'savable'}:{'int' if not nonint else 'nonint'}-protocol:{outcome}"
        ck.count(key)
        desc = dict(clause="reject", object=oname, protocol=pname, existing=existing, dir=dirok, outcome=outcome, file_state=state)
        ck.case(desc, nontrivial=outcome != "ok", key=repr((oname, pname, existing, dirok)))
        if (outcome, state) != (m_outcome, int(m_state)):
            ck.mismatch("model save() vs frouros.utils.save", dict(object=oname, protocol=pname, existing=existing, dir_exists=dirok, impl=dict(outcome=outcome, file_state=state), model=dict(outcome=m_outcome, file_state=int(m_state))))
        # the property itself, independent of the model and of the code's own range test
        try:
            in_range = isinstance(p, (bool, int, float, np.number)) and float(p) == int(p) and 0 <= int(p) <= HIGHEST
        except (ValueError, OverflowError):
            in_range = False  # nan / inf
        valid_proto = in_range and isinstance(p, (int, np.integer))
        touched = state != (2 if existing else 0)
        det_ = dict(object=oname, protocol=pname, protocol_repr=repr(p), path_existed=existing, dir_exists=dirok, outcome=outcome, file_state=["absent", "unreadable", "previous content", "new loadable pickle"][state])
        if kind == "KOther" or not in_range:
            # not a detector / callback, or a protocol that is no member of 0..HIGHEST: must be rejected
            # BEFORE the target is opened (rejects_before_write): the path is as it was
            if outcome == "ok":
                ck.violation(dict(clause="reject-type" if kind == "KOther" else "reject-protocol", object=oname, protocol=pname), dict(what="save accepted what the property says must be rejected", **det_))
            elif state == 3:
                ck.violation(dict(clause="reject-usable-file", object=oname, protocol=pname), dict(what="a rejected save left a loadable file", **det_))
            elif touched:
                ck.violation(dict(clause="reject-touches-file", object=oname, protocol=pname), dict(what="a rejected save created, emptied or replaced the target (validation after open)", **det_))
        elif not valid_proto:
            # a member of 0..HIGHEST that is not an int (2.0): the code's range test lets it through and pickle refuses it
            if outcome != "ok" and state == 3:
                ck.violation(dict(clause="reject-usable-file", object=oname, protocol=pname), dict(what="a failed save left a loadable file", **det_))
            elif outcome != "ok" and touched:
                # not what the property forbids (the file is not usable) but more than a failed save should do
                ck.count("reject:left-empty-or-truncated-file:" + pname)
        elif oname in unpicklable:
            # the user put something unpicklable into the object: save must fail, and must not leave a loadable file
            if outcome == "ok" or state == 3:
                ck.violation(dict(clause="unpicklable-accepted", object=oname, protocol=pname), dict(what="an object holding a class-body lambda was saved / left a loadable file", **det_))
            elif touched:
                ck.count("reject:left-empty-or-truncated-file:unpicklable-object")
        elif dirok:
            if outcome != "ok" or state != 3:
                ck.violation(dict(clause="picklable", cls=oname, protocol=pname), dict(what="valid object and protocol: save failed or wrote nothing loadable", **det_))
    n_trunc = sum(v for k_, v in ck.dist.items() if k_.startswith("reject:left-empty-or-truncated-file:"))
    if n_trunc:
        ck.notes.append(
            f"O-C15-1: {n_trunc} failing saves (integral FLOAT protocol 2.0 / np.float64(1.0) / 0.0, which passes `in range(...)`; or an object into which an unpicklable callable was put) opened the target "
            "(creating it or destroying its previous content) and only then raised from pickle.dump; the file left is not loadable, so the property's wording holds; "
            "model: C15_nonint_protocol_unchanged_refuted, C15_unpicklable_raises_after_open; with pickle.dumps before open: C15_failed_save_leaves_fs_when_dumps_first"
        )


# --------------------------------------------------------------------------- model table tie


def table_tie(ck):
    """Model's per-class table of callable attributes vs the real object graphs, and its
    picklable_cls verdict vs pickle itself (all protocols)."""
    from frouros.callbacks import HistoryConceptDrift, PermutationTestDistanceBased, ResetStatisticalTest
    from frouros.callbacks.base import BaseCallback
    from frouros.detectors.base import BaseDetector

    hdr = HEADER + "From FV Require Import Persist.\n"
    revs = ["StoresLambda", "StoresKey", "StoresModuleFunction"]
    res = coq_eval("C15tab", hdr, [f"map (fun c => (callable_fields {r} c, picklable_cls {r} c, cls_kind c)) all_classes" for r in revs] + ["all_classes"])
    order = res[-1]
    names = [c.name[2:] for c in order]
    by_rev = {}
    for r, rows in zip(revs, res):
        by_rev[r] = {nm: (sorted((p, k.name) for p, k in fields), bool(pk), kind.name) for nm, (fields, pk, kind) in zip(names, rows)}
    # which revision of BaseECDDConfig is this?  decided on the real object, independently of save()
    ecdd = sorted((p, k) for p, k, _ in callable_fields(SPEC_BY_NAME["ECDDWT"].make(SPEC_BY_NAME["ECDDWT"].gen_cfg(ck.rng), [])))
    rev = next((r for r in revs if by_rev[r]["ECDDWT"][0] == ecdd), None)
    if rev is None:
        ck.mismatch("no modelled revision of BaseECDDConfig matches the code", dict(impl=ecdd, model={r: by_rev[r]["ECDDWT"][0] for r in revs}))
        rev = "StoresLambda"
    ck.notes.append(
        f"code revision of BaseECDDConfig as determined on the object graph: {rev} "
        + ("(F25 present: C15_all_picklable_refuted / _partial apply)" if rev == "StoresLambda" else "(F25 fixed: C15_all_picklable applies to all 35 classes)")
    )
    ck.count("revision:" + rev)
    model = by_rev[rev]
    objs = {s.name: s.make(s.gen_cfg(ck.rng), []) for s in SPECS}
    objs["HistoryConceptDrift"] = HistoryConceptDrift()
    objs["PermutationTestDistanceBased"] = PermutationTestDistanceBased(num_permutations=3)
    objs["ResetStatisticalTest"] = ResetStatisticalTest(alpha=0.05)
    if sorted(objs) != sorted(model):
        ck.mismatch("model class list vs harness class list", dict(model=sorted(model), harness=sorted(objs)))
        return
    for nm, o in sorted(objs.items()):
        ck.corr_cases += 1
        actual = callable_fields(o)
        a_fields = sorted((p, k) for p, k, _ in actual)
        for p, k, imp in actual:
            if (k not in ("ClassBodyLambda", "LocalFunction")) != imp:
                ck.mismatch("model importable() vs by-reference lookup", dict(cls=nm, path=p, kind=k, lookup_finds_same_object=imp))
        try:
            for p in PROTOS:
                pickle.loads(pickle.dumps(o, protocol=p))
            a_pk = True
        except Exception:  # noqa: BLE001
            a_pk = False
        a_kind = "KDetector" if isinstance(o, BaseDetector) else "KCallback" if isinstance(o, BaseCallback) else "KOther"
        m_fields, m_pk, m_kind = model[nm]
        if (a_fields, a_pk, a_kind) != (m_fields, m_pk, m_kind):
            ck.mismatch("model callable_fields / picklable_cls / cls_kind vs object graph", dict(cls=nm, impl=dict(fields=a_fields, picklable=a_pk, kind=a_kind), model=dict(fields=m_fields, picklable=m_pk, kind=m_kind)))
        ck.count("table:" + ("picklable" if a_pk else "unpicklable"))
    return model


# --------------------------------------------------------------------------- the run


def expected_history(ops, trace):
    """HistD: what HistoryConceptDrift must hold after every op, from the MODEL's trace."""
    cur, out = [], []
    for op, o in zip(ops, trace):
        if op == "R":
            cur = []
        else:
            cur = cur + [(float(op), o[2], o[0])]
        out.append(list(cur))
    return out


def run(ck: Check):
    import logging

    logging.getLogger("frouros").setLevel(logging.CRITICAL)  # "Drift detected. Resetting detector..." / error lines of save()
    rng = ck.rng
    thorough = ck.tier == "thorough"
    shutil.rmtree(TMP, ignore_errors=True)
    os.makedirs(TMP, exist_ok=True)
    ck.rule(
        "per class: random configuration (boundary values from the detector registry; num_bins 1..25; MMD kernel default or functools.partial(rbf_kernel, sigma), chunking), "
        "history of update/reset (13 detectors: 0/1, unit, real streams with shifts, constants, ties, cancellation) or fit/compare/reset/update (data drift: normal, shifted, tied, constant, heavy-tailed samples; "
        "compare before fit; a non-array fit) of length 3..25 with EVERY prefix length as save point, and 60..150 with boundary save points (0, 1, n-1, n, warm-up +-1, around resets) plus random ones; "
        "every protocol 0..HIGHEST at every save point (state compared for all; continuation run for all protocols when n <= 12, two per save point beyond); "
        "no callback / HistoryConceptDrift x1, x2 / PermutationTestDistanceBased / ResetStatisticalTest(alpha up to 1.0: always resets), saved from the detector end and from the callback end; "
        "non-trivial = the history changes drift / warning, raises, resets or produces a result"
    )
    model_table = table_tie(ck)
    rejection(ck, thorough)

    tie_cases, tie_impl, tie_hist = [], [], []
    for spec in SPECS:
        variants = [(None, "detector")]
        for kind in spec.callbacks:
            variants.append((kind, "detector"))
            variants.append((kind, "callback"))
        reps = (1 if spec.family == "concept" else 2) * (1 if not thorough else 6)
        for rep in range(reps):
            for vi, (cbkind, end) in enumerate(variants):
                if cbkind == "perm" and rep >= 1 and not thorough:
                    continue
                cfg = spec.gen_cfg(rng)
                cb = gen_callback(rng, cbkind) if cbkind else None
                if spec.family == "concept":
                    lens = [rng.choice([6, 12]), 25] if cbkind is None else [rng.choice([5, 12, 20])]
                    if cbkind is None:
                        lens.append(rng.choice([60, 150]) if spec.name not in ("BOCD",) else 60)
                elif spec.family == "stream-dd":
                    lens = [rng.choice([6, 12]), 25, 45]
                elif cbkind == "perm" or getattr(spec, "slow", False):
                    lens = [3]  # every compare spawns a process pool / runs thousands of permutations
                else:
                    lens = [rng.choice([3, 5]), 8, 12] if cbkind is None else [rng.choice([3, 6]), 8]
                for n in lens:
                    ops = spec.gen_ops(rng, cfg, n)
                    ks = save_points(rng, spec, cfg, ops)
                    case = dict(cls=spec.name, config=cfg, callback=cb, end=end, ops=ops, env_seed=rng.randrange(2**31), ks=ks)
                    case["cont"] = cont_plan(rng, ks, len(ops))
                    if cbkind == "perm" or getattr(spec, "slow", False):
                        case["cont"] = {k: [rng.choice(PROTOS)] for k in ks}
                    t0 = time.time()
                    found, ref, root0 = run_case(ck, case)
                    ck.count(f"seconds:{spec.family}" + (":perm" if cbkind == "perm" else ""), round(time.time() - t0, 3))
                    raised = sum(1 for o in ref if o[0][:1] == ("raise",))
                    if spec.family == "concept":
                        flags = {(o[1][1][0][1], o[1][1][1][1]) for o in ref if len(o) > 1}
                        nontrivial = len(flags) > 1 or "R" in ops
                    else:
                        nontrivial = any(o[0][:1] != ("raise",) and o[0] != ("NoneType", None) for o in ref)
                    ck.case(dict(cls=spec.name, config=cfg, callback=cb, end=end, n=len(ops), save_points=len(ks), raised=raised), nontrivial=nontrivial, key=repr((spec.name, cfg, cb, end, ops)))
                    ck.count(f"class:{spec.name}")
                    ck.count(f"callback:{cbkind}:{end}")
                    ck.count("history_ops", len(ops))
                    # callables never appear / disappear along a history (model table is per class)
                    if model_table is not None:
                        fields = sorted({(p, k) for p, k, _ in callable_fields(root0 if end == "detector" else root0.detector)})
                        exp = list(model_table[spec.name][0])
                        if cb is not None:
                            fields = [f for f in fields if not f[0].startswith("._callbacks")]
                        if fields != exp:
                            ck.mismatch("callable attributes after a history vs model table", dict(cls=spec.name, impl=fields, model=exp, case=case))
                    # model tie on the no-save run of the 13 detectors (the model says: = resumed = original)
                    if spec.family == "concept" and len(ops) <= 25 and end == "detector" and cbkind in (None, "history") and (thorough or vi <= 1) and len([c for c in tie_cases if c[0] is spec.det]) < (3 if not thorough else 8):
                        np.random.seed(case["env_seed"])
                        cbs = make_callbacks(cb)
                        out, exc, extra = run_impl(spec.det, cfg, ops, callbacks=cbs or None)
                        if exc is None:
                            if [o[1] for o in ref] != [snap(o) for o in out]:
                                ck.mismatch("harness no-save run vs detectors.run_impl", dict(cls=spec.name, case=case))
                            tie_cases.append((spec.det, cfg, ops, extra if isinstance(spec.det, KSWINDet) else None))
                            tie_impl.append(out)
                            tie_hist.append(cbs[0].history if cbs else None)
                            ck.count("tie:model-trace" + (":with-history-callback" if cbs else ""))
    # ------------------------------------------------------------------ one file loaded TWICE (and again after it was re-written):
    # every load() yields a NEW object in the saved state - what a first loaded copy went through afterwards, and what the
    # file held before, must not show (deterministic)
    from frouros.detectors.concept_drift import DDM as _DDM, DDMConfig as _DDMC
    from frouros.utils.persistence import load as _load, save as _save

    path2 = tmp_path()
    try:
        d0 = _DDM(config=_DDMC(min_num_instances=5))
        for v in (0, 1, 0, 0, 1, 1):
            d0.update(value=v)
        saved = snap(d0)
        _save(obj=d0, filename=path2)
        l1 = _load(filename=path2)
        for v in (1, 1, 1, 1):
            l1.update(value=v)
        l2 = _load(filename=path2)
        ok_twice = l2 is not l1 and snap_diff(saved, snap(l2)) is None
        for v in (0, 0):
            d0.update(value=v)
        saved2 = snap(d0)
        _save(obj=d0, filename=path2)
        l3 = _load(filename=path2)
        ok_rewrite = snap_diff(saved2, snap(l3)) is None
        err = None
    except Exception as e:  # noqa: BLE001
        ok_twice = ok_rewrite = False
        err = repr(e)
    finally:
        _rm(path2)
    ck.case(dict(kind="load-twice"), nontrivial=True, key=repr(("load-twice",)))
    ck.count("load_twice_cases")
    if not (ok_twice and ok_rewrite):
        ck.violation(dict(clause="resume-equivalence", scenario="load-twice"), dict(what="a second load() of the same file (after the first loaded object was updated), or a load() after the file was re-written, does not yield a new object in the saved state", second_load_ok=ok_twice, load_after_rewrite_ok=ok_rewrite, error=err))
    # ------------------------------------------------------------------ model evaluation
    if tie_cases:
        models = run_models("C15", tie_cases, shard=30)
        corr_compare(ck, "C15", tie_cases, tie_impl, models)
        for case, im, mo, hist in zip(tie_cases, tie_impl, models, tie_hist):
            if hist is None or compare_traces(im, mo) is not None:
                continue
            exp = expected_history(case[2], mo)[-1] if case[2] else []
            got = list(zip([float(v) for v in hist["value"]], [int(v) for v in hist["num_instances"]], [bool(v) for v in hist["drift"]]))
            ck.corr_cases += 1
            if got != exp:
                ck.mismatch("model HistD vs HistoryConceptDrift.history", dict(detector=case[0].name, config=case[1], ops=case[2], impl=got, model=exp))
    shutil.rmtree(TMP, ignore_errors=True)


ASSUMPTIONS = [
    "pickle is not modelled: the theorems assume PickleContract (a picklable graph written with protocol 0..5 is read back equal, sharing included; an empty file cannot be read). "
    "This run exercises the real pickle at every save point and protocol; its byte format, cross-version / cross-process compatibility of the files and partial writes are outside every model here",
    "file-system failure modes (disk full, permissions, concurrent writers, a crash between open and close) are not modelled; only a missing target directory is (FileNotFoundError, nothing written)",
    "the global NumPy generator (np.random.*: KSWIN's sub-sampling, SciPy's BWS permutations, permutation callback with a seed) is part of the environment, not of the saved object: "
    "every continuation is started with the generator in the state it had at the save point (in the KSWIN model the drawn sample is an input of the step). "
    "A KSWIN loaded in a NEW process does not re-apply config.seed (observation O-C15-2)",
    "frozen SciPy distribution held by STEPD is identified by class / args only; that the reloaded one behaves alike is checked through the continuation outputs",
    "PermutationTestDistanceBased is run with an integer random_state and num_jobs=1 (random_state=None draws OS entropy: outputs are not comparable); HistoryConceptDrift cannot be attached to the two streaming data-drift detectors (it reads detector.drift)",
    "resume theorems are stated for every Detector record (any number system); the model/implementation comparison of the 13 detectors runs the binary64 instance on the no-save history (tolerance 1e-9, near-tied flags skipped)",
]


def main(tier, seed):
    ck = Check("C15", tier, seed)
    ck.proof = check_props("C15")
    ck.assumptions = ASSUMPTIONS
    try:
        run(ck)
    finally:
        shutil.rmtree(TMP, ignore_errors=True)
        try:
            os.rmdir(os.path.dirname(TMP))  # only if no other run is using it
        except OSError:
            pass
    return ck.finish()


def replay(obj):
    """Re-run the recorded failing input against the implementation on PYTHONPATH."""
    ck = Check("C15", "replay", 0)
    ck.known = []
    if "case" in obj:
        case = dict(obj["case"])
        case["ks"] = [k for k in case.get("ks") or [] if k is not None] or list(range(len(case["ops"]) + 1))
        case["cont"] = None
        os.makedirs(TMP, exist_ok=True)
        found, _, _ = run_case(ck, case, report=False)
        shutil.rmtree(TMP, ignore_errors=True)
        for sig, d in found:
            print("REPRODUCED", sig, {k: v for k, v in d.items() if k != "case"})
        if not found:
            print("not reproduced: save/load is indistinguishable on this case")
        return 1 if found else 0
    if obj.get("kind") == "correspondence-broken":
        print("correspondence case; re-run ./check C15:", obj.get("correspondence"), obj.get("first"))
        return 1
    print("rejection-clause case; re-run ./check C15:", {k: obj.get(k) for k in ("object", "protocol_repr", "path_existed", "outcome", "file_state")})
    return 1
