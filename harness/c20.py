"""C20 — synthetic generators follow their concept; dataset download falls through mirrors.

Correspondence: Model/Datasets.v (vm_compute, binary64 instance) vs frouros.datasets on the same
inputs.  NumPy's global generator, the network and the ARFF parser are oracles of the model:
the harness records / scripts what they return and hands exactly that to the model.

Monitor (independent of the code under test): exact rational arithmetic for the labelling rule,
a reference "first reachable mirror" computed from the scripts, byte comparison of the target
file, direct ARFF parse for load().
"""
from __future__ import annotations

import io
import itertools
import logging
import math
import os
import shutil
import tempfile
from fractions import Fraction

import numpy as np

from lib import BUILD, HEADER, Check, check_props, coq_eval, fl, z

THR = {1: 8.0, 2: 9.0, 3: 7.0, 4: 9.5}  # the property's thresholds (not read from the code)

HDR = (
    HEADER
    + """From FV Require Import Datasets.
Definition rc {T} (r : res T) : Z :=
  match r with Ok _ => 0 | Raise InvalidBlockError => 1 | Raise ValueError => 2 | Raise TypeError => 3 | Raise _ => 9 end.
Definition D (a b c u : float) (k : Z) : sea_draw FloatA := {| d_x0 := a; d_x1 := b; d_x2 := c; d_u := u; d_bit := k |}.
Definition E (a b : float) : dummy_draw FloatA := {| e_x0 := a; e_x1 := b |}.
Definition sea_obs (full : bool) (blk nz ns : pyval FloatA) (ds : list (sea_draw FloatA)) :=
  match sea_generate blk nz ns with
  | Ok g => let l := sea_drain (S (Z.to_nat (g_n g))) g (sea_tape ds) in
            (0, map snd l, map (sea_uses_bit (g_noise g)) (firstn (Z.to_nat (g_n g)) ds), if full then map fst l else [])
  | Raise e => (rc (Raise (T:=unit) e), [], [], [])
  end.
Definition dummy_obs (cls ns : pyval FloatA) (ds : list (dummy_draw FloatA)) :=
  match dummy_generate cls ns with
  | Ok g => let l := dummy_drain (S (Z.to_nat (h_n g))) g (dummy_tape ds) in (0, map snd l, map fst l)
  | Raise e => (rc (Raise (T:=unit) e), [], [])
  end.
Definition sea_arg (t : pyval FloatA * pyval FloatA * pyval FloatA) :=
  let '(b, nz, ns) := t in
  match sea_generate b nz ns with Ok g => (0, g_n g, g_thr g, g_noise g) | Raise e => (rc (Raise (T:=unit) e), 0, 0%float, 0%float) end.
Definition dummy_arg (t : pyval FloatA * pyval FloatA) :=
  let '(c, ns) := t in
  match dummy_generate c ns with Ok g => (0, h_n g, h_cls g) | Raise e => (rc (Raise (T:=unit) e), 0, 0) end.
Definition dcode {T} (r : dres T) : Z :=
  match r with DOk _ => 0 | DRaise ExDownloadError => 1 | DRaise ExReadFileError => 2 | DRaise ExFileNotFoundError => 3
             | DRaise ExTypeError => 4 | DRaise ExPropagated => 5 end.
Definition tr (c : call) : Z * Z := match c with CHead i => (0, Z.of_nat i) | CGet i => (1, Z.of_nat i) end.
Definition M (h : head_out) (g : get_out) : mirror := {| m_head := h; m_get := g |}.
Definition S_ (p : bool) (f : option bytes) : dl := {| dl_path := p; dl_file := f |}.
Definition dl_obs (x : list mirror * dl) :=
  let '(r, st, t) := download (fst x) (snd x) in (dcode r, dl_path st, dl_file st, map tr t).
Inductive op := ODown (ms : list mirror) | OLoad (p : parse_out Z).
Fixpoint run_ops (st : dl) (ops : list op) : list (Z * bool * option bytes * list (Z * Z)) :=
  match ops with
  | [] => []
  | ODown ms :: r => let '(res, st', t) := download ms st in (dcode res, dl_path st', dl_file st', map tr t) :: run_ops st' r
  | OLoad p :: r => let '(res, st') := load (fun _ => p) st in (dcode res, dl_path st', dl_file st', []) :: run_ops st' r
  end.
"""
)

# ------------------------------------------------------------------ Python value -> pyval


def pv(v) -> str:
    if isinstance(v, (bool, np.bool_)):
        return f"(PBool {'true' if v else 'false'})"
    if isinstance(v, (int, np.integer)):
        return f"(PInt {z(int(v))})"
    if isinstance(v, (float, np.floating)):
        return "PNan" if math.isnan(v) else f"(PFloat {fl(float(v))})"
    if v is None:
        return "PNone"
    if isinstance(v, str):
        return "PStr"
    if isinstance(v, list):
        return "PList"
    raise TypeError(v)


def vclass(v) -> str:
    """Input class of an argument value (for signatures / distribution)."""
    if isinstance(v, (bool, np.bool_)):
        return "bool"
    if isinstance(v, (int, np.integer)):
        return "int"
    if isinstance(v, (float, np.floating)):
        return "nan" if math.isnan(v) else ("inf" if math.isinf(v) else "float")
    return type(v).__name__


def num_value(v):
    """Exact numeric value of an argument or None (independent oracle for validity)."""
    if isinstance(v, (bool, np.bool_)):
        return Fraction(int(v))
    if isinstance(v, (int, np.integer)):
        return Fraction(int(v))
    if isinstance(v, (float, np.floating)):
        v = float(v)
        return None if math.isnan(v) else (v if math.isinf(v) else Fraction(v))
    return None


def valid_block(v):
    x = num_value(v)
    return isinstance(x, Fraction) and x in (1, 2, 3, 4)


def valid_noise(v):
    x = num_value(v)
    return isinstance(x, Fraction) and 0 <= x <= 1


def valid_n(v):
    return isinstance(v, (bool, np.bool_, int, np.integer)) and int(v) >= 1


def valid_class(v):
    x = num_value(v)
    return isinstance(x, Fraction) and x in (0, 1)


def exc_code(e) -> int:
    from frouros.datasets.exceptions import InvalidBlockError

    if isinstance(e, InvalidBlockError):
        return 1
    if isinstance(e, ValueError):
        return 2
    if isinstance(e, TypeError):
        return 3
    return 9


# ------------------------------------------------------------------ scripted NumPy generator


class ScriptedRandom:
    """Replaces np.random.uniform / random / randint in this process and logs the calls."""

    def __init__(self, draws, dummy=False):
        self.draws = draws
        self.i = 0  # sample index
        self.log = []
        self.dummy = dummy
        self.bad_args = None

    def uniform(self, *a, **k):
        low = k.get("low", a[0] if a else None)
        high = k.get("high", a[1] if len(a) > 1 else None)
        size = k.get("size", a[2] if len(a) > 2 else None)
        want = (2,) if self.dummy else (3,)
        if (low, high) != (0.0, 10.0) or tuple(np.atleast_1d(size)) != want:
            self.bad_args = dict(low=low, high=high, size=size)
        d = self.draws[self.i]
        self.log.append(("uniform", self.i))
        self.cur = self.i
        self.i += 1
        return np.array(d[: want[0]], dtype=float)

    def random(self, *a, **k):
        self.log.append(("random", self.cur))
        return self.draws[self.cur][3]

    def randint(self, *a, **k):
        if a != (2,) and k.get("high", k.get("low")) != 2:
            self.bad_args = dict(randint=(a, k))
        self.log.append(("randint", self.cur))
        return self.draws[self.cur][4]

    def __enter__(self):
        self.saved = (np.random.uniform, np.random.random, np.random.randint, np.random.random_sample)
        np.random.uniform, np.random.random, np.random.randint, np.random.random_sample = self.uniform, self.random, self.randint, self.random
        return self

    def __exit__(self, *exc):
        np.random.uniform, np.random.random, np.random.randint, np.random.random_sample = self.saved
        return False


def exact_sea_label(x0, x1, thr):
    """(label by the real-number rule, tie?) — tie = binary64 sum and exact sum disagree."""
    ex = Fraction(x0) + Fraction(x1) <= Fraction(thr)
    flo = (x0 + x1) <= thr
    return (1 if ex else 0), (ex != flo)


def exact_dummy_label(x0, x1, cls):
    ex = Fraction(x0) + Fraction(x1) < 10
    flo = (x0 + x1) < 10.0
    return (cls if ex else 1 - cls), (ex != flo)


# ------------------------------------------------------------------ generators: cases


def run_sea_seeded(ck, case):
    """Real NumPy generator, seeded. Returns (labels, features, draws) or None after a violation."""
    from frouros.datasets.synthetic import SEA

    seed, block, noise, n = case["seed"], case["block"], case["noise"], case["n"]
    sig0 = dict(generator="SEA", rng="seeded")
    out1 = list(SEA(seed=seed).generate_dataset(block=block, noise=noise, num_samples=n))
    out2 = list(SEA(seed=seed).generate_dataset(block=block, noise=noise, num_samples=n))
    if len(out1) != n:
        ck.violation(dict(clause="gen_count", **sig0), dict(kind_="sea_seeded", case=case, got=len(out1)))
        return None
    lab1 = [int(y) for _, y in out1]
    f1 = [[float(v) for v in X] for X, _ in out1]
    if lab1 != [int(y) for _, y in out2] or f1 != [[float(v) for v in X] for X, _ in out2]:
        ck.violation(dict(clause="gen_deterministic", **sig0), dict(kind_="sea_seeded", case=case, what="two runs with the same seed differ"))
        return None
    # replay of the draw sequence on a private RandomState with the same seed
    rs = np.random.RandomState(seed)
    draws = []
    nzf = float(noise)
    for _ in range(n):
        x = rs.uniform(low=0.0, high=10.0, size=(3,))
        u = float(rs.random_sample())
        bit = int(rs.randint(2)) if u < nzf else 0
        draws.append((float(x[0]), float(x[1]), float(x[2]), u, bit))
    thr = THR[int(block)]
    for i, ((X, y), d) in enumerate(zip(out1, draws)):
        if len(X) != 3 or any(not (0.0 <= float(v) < 10.0) for v in X):
            ck.violation(dict(clause="feature_range", **sig0), dict(kind_="sea_seeded", case=case, index=i, features=[float(v) for v in X]))
            return None
        if y not in (0, 1):
            ck.violation(dict(clause="label_values", **sig0), dict(kind_="sea_seeded", case=case, index=i, label=repr(y)))
            return None
        if nzf == 0.0:
            exp, tie = exact_sea_label(float(X[0]), float(X[1]), thr)
            if tie:
                ck.near_ties += 1
            elif int(y) != exp:
                ck.violation(
                    dict(clause="sea_labels", **sig0, block=int(block)),
                    dict(kind_="sea_seeded", case=case, index=i, features=[float(v) for v in X], label=int(y), expected=exp, threshold=thr),
                )
                return None
    if f1 != [list(d[:3]) for d in draws]:
        ck.mismatch("replay of np.random draws (uniform(3), random, randint iff u<noise) vs SEA features", dict(case=case))
        return None
    for i, ((X, y), d) in enumerate(zip(out1, draws)):
        if 0.0 < nzf:  # rule given the replayed noise draw
            if d[3] < nzf:
                exp, tie = d[4], False
            else:
                exp, tie = exact_sea_label(d[0], d[1], thr)
            if tie:
                ck.near_ties += 1
            elif int(y) != exp:
                ck.violation(
                    dict(clause="sea_labels_noisy", **sig0, block=int(block)),
                    dict(kind_="sea_seeded", case=case, index=i, draw=d, label=int(y), expected=exp, threshold=thr),
                )
                return None
    return lab1, f1, draws


def run_sea_scripted(ck, case):
    from frouros.datasets.synthetic import SEA

    block, noise, draws = case["block"], case["noise"], case["draws"]
    n = len(draws)
    sig0 = dict(generator="SEA", rng="scripted")
    g = SEA(seed=0)
    with ScriptedRandom(draws) as sr:
        out = list(g.generate_dataset(block=block, noise=noise, num_samples=n))
    if len(out) != n:
        ck.violation(dict(clause="gen_count", **sig0), dict(kind_="sea_scripted", case=case, got=len(out)))
        return None
    if sr.bad_args:
        ck.violation(dict(clause="feature_range", **sig0), dict(kind_="sea_scripted", case=case, what="uniform/randint not called as uniform(0,10,size=3)/randint(2)", args=repr(sr.bad_args)))
        return None
    labels = [int(y) for _, y in out]
    feats = [[float(v) for v in X] for X, _ in out]
    thr = THR[int(block)]
    nzf = Fraction(float(noise))
    for i, d in enumerate(draws):
        if Fraction(d[3]) < nzf:
            exp, tie = d[4], False
        else:
            exp, tie = exact_sea_label(d[0], d[1], thr)
        if feats[i] != list(d[:3]):
            ck.violation(dict(clause="features_are_draws", **sig0), dict(kind_="sea_scripted", case=case, index=i, features=feats[i]))
            return None
        if tie:
            ck.near_ties += 1
            case.setdefault("ties", []).append(i)
        elif labels[i] != exp:
            on = "tie" if Fraction(d[0]) + Fraction(d[1]) == Fraction(thr) else ("below" if exp == 1 else "above")
            ck.violation(
                dict(clause="sea_labels" if nzf == 0 else "sea_labels_noisy", **sig0, block=int(block), sum_vs_threshold=on),
                dict(kind_="sea_scripted", case=case, index=i, draw=d, label=labels[i], expected=exp, threshold=thr),
            )
            return None
    used = [("randint", i) in sr.log for i in range(n)]
    return labels, feats, used, sr.log


def run_dummy_seeded(ck, case):
    from frouros.datasets.synthetic import Dummy

    seed, cls, n = case["seed"], case["cls"], case["n"]
    sig0 = dict(generator="Dummy", rng="seeded")
    out1 = list(Dummy(seed=seed).generate_dataset(class_=cls, num_samples=n))
    out2 = list(Dummy(seed=seed).generate_dataset(class_=cls, num_samples=n))
    if len(out1) != n:
        ck.violation(dict(clause="gen_count", **sig0), dict(kind_="dummy_seeded", case=case, got=len(out1)))
        return None
    lab = [int(y) for _, y in out1]
    f1 = [[float(v) for v in X] for X, _ in out1]
    if lab != [int(y) for _, y in out2] or f1 != [[float(v) for v in X] for X, _ in out2]:
        ck.violation(dict(clause="gen_deterministic", **sig0), dict(kind_="dummy_seeded", case=case))
        return None
    c = int(cls)
    for i, (X, y) in enumerate(out1):
        if len(X) != 2 or any(not (0.0 <= float(v) < 10.0) for v in X):
            ck.violation(dict(clause="feature_range", **sig0), dict(kind_="dummy_seeded", case=case, index=i, features=f1[i]))
            return None
        exp, tie = exact_dummy_label(f1[i][0], f1[i][1], c)
        if tie:
            ck.near_ties += 1
        elif y not in (0, 1) or int(y) != exp:
            ck.violation(dict(clause="dummy_labels", **sig0), dict(kind_="dummy_seeded", case=case, index=i, features=f1[i], label=repr(y), expected=exp))
            return None
    rs = np.random.RandomState(seed)
    draws = [tuple(float(v) for v in rs.uniform(low=0.0, high=10.0, size=(2,))) for _ in range(n)]
    if f1 != [list(d) for d in draws]:
        ck.mismatch("replay of np.random draws (uniform(2)) vs Dummy features", dict(case=case))
        return None
    return lab, f1, draws


def run_dummy_scripted(ck, case):
    from frouros.datasets.synthetic import Dummy

    cls, draws = case["cls"], case["draws"]
    n = len(draws)
    sig0 = dict(generator="Dummy", rng="scripted")
    g = Dummy(seed=0)
    with ScriptedRandom([(a, b_, 0.0, 0.0, 0) for a, b_ in draws], dummy=True) as sr:
        out = list(g.generate_dataset(class_=cls, num_samples=n))
    if len(out) != n:
        ck.violation(dict(clause="gen_count", **sig0), dict(kind_="dummy_scripted", case=case, got=len(out)))
        return None
    if sr.bad_args or any(c[0] != "uniform" for c in sr.log):
        ck.violation(dict(clause="feature_range", **sig0), dict(kind_="dummy_scripted", case=case, what="draws not uniform(0,10,size=2) only", log=sr.log[:6]))
        return None
    labels = [int(y) for _, y in out]
    feats = [[float(v) for v in X] for X, _ in out]
    c = int(cls)
    for i, d in enumerate(draws):
        exp, tie = exact_dummy_label(d[0], d[1], c)
        if feats[i] != list(d):
            ck.violation(dict(clause="features_are_draws", **sig0), dict(kind_="dummy_scripted", case=case, index=i))
            return None
        if tie:
            ck.near_ties += 1
        elif out[i][1] not in (0, 1) or labels[i] != exp:
            s = Fraction(d[0]) + Fraction(d[1])
            on = "tie" if s == 10 else ("below" if s < 10 else "above")
            ck.violation(dict(clause="dummy_labels", **sig0, sum_vs_10=on), dict(kind_="dummy_scripted", case=case, index=i, draw=d, label=repr(out[i][1]), expected=exp))
            return None
    return labels, feats


def guarded(fn, ck, case, generator, kind):
    """Valid arguments must not raise: an exception from the implementation is a finding, not a crash of the check."""
    try:
        return fn(ck, case)
    except Exception as e:  # noqa: BLE001
        desc = {k: (v if isinstance(v, (int, float, str, list, tuple)) and not isinstance(v, bool) else repr(v)) for k, v in case.items()}
        ck.violation(dict(clause="gen_accepts_valid", generator=generator, raised=type(e).__name__), dict(kind_=kind, case=desc, error=repr(e)))
        return None


def draw_lit(d):
    return f"D {fl(d[0])} {fl(d[1])} {fl(d[2])} {fl(d[3])} {z(d[4])}"


def boundary_pairs(rng, thr):
    """(x0, x1) with x0 + x1 on / next to the threshold, sums exact in binary64 unless noted."""
    a = rng.choice([0.0, 0.25, 1.5, 3.0, thr / 2, thr - 0.5])
    eps = 2.0 ** rng.choice([-40, -30, -20, -3])
    kind = rng.choice(["on", "on", "below", "above", "ulp", "far0", "far1", "rand"])
    if kind == "on":
        return (a, thr - a)
    if kind == "below":
        return (a, thr - a - eps)
    if kind == "above":
        return (a, thr - a + eps)
    if kind == "ulp":  # inexact sum: counted as a near tie when binary64 and exact disagree
        return (thr / 2, math.nextafter(thr / 2, rng.choice([0.0, 10.0])))
    if kind == "far0":
        return (0.0, 0.0)
    if kind == "far1":
        return (math.nextafter(10.0, 0.0), math.nextafter(10.0, 0.0))
    return (rng.uniform(0, 10), rng.uniform(0, 10))


def gen_generators(ck):
    rng = ck.rng
    thorough = ck.tier == "thorough"
    exprs, meta = [], []

    # ---------------------------------------------------------------- SEA, seeded
    ck.rule(
        "SEA/Dummy seeded: seeds {0,1,2^32-1,+random} x blocks 1..4 x noise {0,0.0,False,1,1.0,0.1,0.5,random} x counts {1,2,3,10,40,(300)}; "
        "each run twice (determinism), every sample checked for range [0,10) and the label rule in exact rational arithmetic; "
        "draws replayed on a private RandomState(seed) and fed to the model"
    )
    seeds = [0, 1, 2**32 - 1] + [rng.randrange(2**32) for _ in range(3 if not thorough else 30)]
    noises = [0, 0.0, False, 1, 1.0, 0.1, 0.5, round(rng.random(), 3)]
    for seed in seeds:
        for block in (1, 2, 3, 4):
            for noise in noises if thorough else rng.sample(noises[:3], 1) + rng.sample(noises[3:], 2):
                n = rng.choice([1, 2, 3, 10, 40] + ([300] if thorough else []))
                blk = rng.choice([block, block, block, float(block), np.int64(block)] + ([True] if block == 1 else []))
                case = dict(seed=seed, block=blk, noise=noise, n=n)
                r = guarded(run_sea_seeded, ck, case, 'SEA', 'sea_seeded')
                ck.count("sea_seeded")
                ck.count(f"noise_class_{'0' if float(noise) == 0 else '1' if float(noise) == 1 else 'mid'}")
                ck.case(dict(kind="sea_seeded", seed=seed, block=repr(blk), noise=repr(noise), n=n), nontrivial=n > 1, key=repr(("ss", seed, blk, noise, n)))
                if r is None:
                    continue
                full = n <= 10
                exprs.append(f"sea_obs {'true' if full else 'false'} {pv(blk)} {pv(noise)} {pv(n)} [{'; '.join(draw_lit(d) for d in r[2])}]")
                meta.append(("sea_seeded", case, r, full))

    # ---------------------------------------------------------------- SEA, scripted boundary draws
    ck.rule(
        "SEA/Dummy scripted: np.random.uniform/random/randint replaced by a script; x0+x1 exactly on the threshold in half of the draws, "
        "threshold +- 2^-k, one-ulp inexact sums (counted as near ties), u in {0, noise, pred(noise), 1-2^-53}; also checks the consumption "
        "protocol (randint drawn iff u < noise)"
    )
    for _ in range(60 if not thorough else 1500):
        block = rng.choice([1, 2, 3, 4])
        noise = rng.choice([0, 0.0, False, 0, 1, 1.0, True, 0.1, 0.5, np.float64(0.25)])
        nzf = float(noise)
        n = rng.randrange(2, 9)
        draws = []
        for _ in range(n):
            x0, x1 = boundary_pairs(rng, THR[block])
            us = [0.0, 0.5, 1.0 - 2.0**-53, nzf if nzf < 1 else 0.75]
            if nzf > 0:
                us.append(math.nextafter(nzf, 0.0))
            draws.append((x0, x1, rng.choice([0.0, 5.0, 9.75]), rng.choice(us), rng.randrange(2)))
        case = dict(block=block, noise=noise, draws=draws)
        r = guarded(run_sea_scripted, ck, case, 'SEA', 'sea_scripted')
        ck.count("sea_scripted")
        on = sum(1 for d in draws if Fraction(d[0]) + Fraction(d[1]) == Fraction(THR[block]))
        ck.count("sea_draws_on_threshold", on)
        ck.case(dict(kind="sea_scripted", block=block, noise=repr(noise), draws=draws[:3]), nontrivial=on > 0, key=repr(("sc", block, noise, draws)))
        if r is None:
            continue
        exprs.append(f"sea_obs true {pv(block)} {pv(noise)} {pv(n)} [{'; '.join(draw_lit(d) for d in draws)}]")
        meta.append(("sea_scripted", case, r, True))

    # ---------------------------------------------------------------- Dummy
    for seed in seeds:
        for cls in (0, 1) if not thorough else (0, 1, True, False, 1.0, np.int64(0)):
            n = rng.choice([1, 2, 3, 10, 40])
            case = dict(seed=seed, cls=cls, n=n)
            r = guarded(run_dummy_seeded, ck, case, 'Dummy', 'dummy_seeded')
            ck.count("dummy_seeded")
            ck.case(dict(kind="dummy_seeded", seed=seed, cls=repr(cls), n=n), nontrivial=n > 1, key=repr(("ds", seed, cls, n)))
            if r is None:
                continue
            exprs.append(f"dummy_obs {pv(cls)} {pv(n)} [{'; '.join(f'E {fl(a)} {fl(b_)}' for a, b_ in r[2])}]")
            meta.append(("dummy_seeded", case, r, True))
    for _ in range(30 if not thorough else 600):
        cls = rng.choice([0, 1, True, False, 1.0, 0.0, np.int64(1)])
        draws = [boundary_pairs(rng, 10.0) for _ in range(rng.randrange(2, 9))]
        draws = [(min(a, math.nextafter(10.0, 0)), min(max(b_, 0.0), math.nextafter(10.0, 0))) for a, b_ in draws]
        case = dict(cls=cls, draws=draws)
        r = guarded(run_dummy_scripted, ck, case, 'Dummy', 'dummy_scripted')
        ck.count("dummy_scripted")
        on = sum(1 for d in draws if Fraction(d[0]) + Fraction(d[1]) == 10)
        ck.count("dummy_draws_on_10", on)
        ck.case(dict(kind="dummy_scripted", cls=repr(cls), draws=draws[:3]), nontrivial=on > 0, key=repr(("dc", cls, draws)))
        if r is None:
            continue
        exprs.append(f"dummy_obs {pv(cls)} {pv(len(draws))} [{'; '.join(f'E {fl(a)} {fl(b_)}' for a, b_ in draws)}]")
        meta.append(("dummy_scripted", case, r, True))

    res = coq_eval("C20g", HDR, exprs, shard=60)
    for (kind, case, r, full), m in zip(meta, res):
        ck.corr_cases += 1
        desc = {k: (repr(v) if not isinstance(v, (int, float, list, tuple)) else v) for k, v in case.items()}
        if m[0] != 0:
            ck.mismatch(f"Model/Datasets.v {kind}: model rejects arguments the implementation accepted", dict(case=desc, model_code=m[0]))
            continue
        ties = set(case.get("ties", []))
        if kind.startswith("sea"):
            labels, feats = r[0], r[1]
            if list(m[1]) != labels:
                ck.mismatch(f"Model/Datasets.v sea_drain labels vs SEA ({kind})", dict(case=desc, impl=labels, model=list(m[1])))
            elif full and [list(map(float, x)) for x in m[3]] != feats:
                ck.mismatch(f"Model/Datasets.v sea_drain features vs SEA ({kind})", dict(case=desc))
            elif kind == "sea_scripted" and list(m[2]) != r[2]:
                ck.mismatch("Model/Datasets.v sea_uses_bit vs observed randint calls", dict(case=desc, impl=r[2], model=list(m[2]), log=r[3][:12]))
            elif kind == "sea_seeded" and [bool(x) for x in m[2]] != [d[3] < float(case["noise"]) for d in r[2]]:
                ck.mismatch("Model/Datasets.v sea_uses_bit vs replay", dict(case=desc))
        else:
            labels, feats = r[0], r[1]
            if list(m[1]) != labels or [list(map(float, x)) for x in m[2]] != feats:
                ck.mismatch(f"Model/Datasets.v dummy_drain vs Dummy ({kind})", dict(case=desc, impl=labels, model=list(m[1])))

    # ---------------------------------------------------------------- laziness / prefix / StopIteration
    from frouros.datasets.synthetic import SEA

    for seed, k, n in [(3, 2, 5), (4, 0, 1), (5, 5, 5)]:
        ck.case(dict(kind="sea_lazy_prefix", seed=seed, k=k, n=n), nontrivial=True)
        try:
            full = [(X.tolist(), int(y)) for X, y in SEA(seed=seed).generate_dataset(block=2, noise=0.3, num_samples=n)]
            g = SEA(seed=seed).generate_dataset(block=2, noise=0.3, num_samples=n)
            part = [(X.tolist(), int(y)) for X, y in itertools.islice(g, k)]
            rest = list(g)
            stopped = next(g, "STOP") == "STOP"
        except Exception as e:  # noqa: BLE001
            ck.violation(dict(clause="gen_accepts_valid", generator="SEA", raised=type(e).__name__), dict(kind_="sea_lazy", seed=seed, k=k, n=n, error=repr(e)))
            continue
        if part != full[:k] or len(rest) != n - k or not stopped:
            ck.violation(dict(clause="gen_count", generator="SEA", rng="seeded", aspect="lazy-prefix"), dict(kind_="sea_lazy", seed=seed, k=k, n=n, prefix=part, full=full))


# ------------------------------------------------------------------ argument grid


def gen_arguments(ck):
    from frouros.datasets.synthetic import SEA, Dummy

    rng = ck.rng
    thorough = ck.tier == "thorough"
    ck.rule(
        "arguments: full product of value pools (ints around every bound, bools, floats incl. -0.0, 1+-eps, inf, nan, None, str, list, "
        "NumPy scalars, 10**20) for (block, noise, num_samples) and (class_, num_samples) and seed; exception class compared with the model, "
        "accept/reject compared with the mathematical validity of the arguments"
    )
    blocks = [0, 1, 2, 3, 4, 5, -1, True, False, 1.0, 4.0, 2.5, float("nan"), float("inf"), None, "1", [1, 2], np.int64(3), np.float64(2.0), 10**20]
    noises = [0, 1, 2, -1, True, False, 0.0, -0.0, 1.0, 0.5, 1.0000001, -1e-9, float("nan"), float("inf"), None, "0.1", [1, 2], np.float64(0.25), np.int64(1)]
    ns = [0, 1, 2, -1, True, False, 1.0, 2.5, 0.5, float("nan"), float("inf"), None, "3", [1, 2], np.int64(3), np.float64(3.0), 10**20]
    classes = [0, 1, 2, -1, True, False, 1.0, 0.0, -0.0, 0.5, float("nan"), float("inf"), None, "1", [1, 2], np.int64(0), np.float64(1.0), 10**20]
    seeds = [0, 1, 2**32 - 1, 2**32, -1, 10**20, True, False, 1.0, 1.5, float("nan"), None, "a", [1, 2], np.int64(7), np.float64(2.0)]
    if not thorough:  # keep every boundary, thin the product
        blocks_q = blocks
        noises_q = noises[:13] + noises[14:15] + noises[16:17]
        ns_q = ns[:9] + ns[11:14] + ns[16:]
    else:
        blocks_q, noises_q, ns_q = blocks, noises, ns
    s = SEA(seed=0)
    triples, impl = [], []
    for bl in blocks_q:
        for nz in noises_q:
            for n in ns_q:
                try:
                    g = s.generate_dataset(block=bl, noise=nz, num_samples=n)
                    code = 0
                    if not hasattr(g, "__next__"):
                        code = 8
                except Exception as e:  # noqa: BLE001
                    code = exc_code(e)
                ok = valid_block(bl) and valid_noise(nz) and valid_n(n)
                bad = [nm for nm, okv in (("block", valid_block(bl)), ("noise", valid_noise(nz)), ("num_samples", valid_n(n))) if not okv]
                ck.case(dict(kind="sea_args", block=repr(bl), noise=repr(nz), n=repr(n), code=code), nontrivial=len(bad) <= 1, key=repr(("sa", repr(bl), repr(nz), repr(n))))
                ck.count("sea_args_valid" if ok else "sea_args_invalid")
                if ok and code != 0:
                    ck.violation(dict(clause="gen_accepts_valid", generator="SEA"), dict(kind_="sea_args", block=repr(bl), noise=repr(nz), num_samples=repr(n), code=code))
                if not ok and code == 0:
                    which = bad[0]
                    val = dict(block=bl, noise=nz, num_samples=n)[which]
                    ck.violation(
                        dict(clause="gen_rejects", generator="SEA", argument=which, value_class=vclass(val)),
                        dict(kind_="sea_args", block=repr(bl), noise=repr(nz), num_samples=repr(n), what=f"invalid {which} accepted"),
                    )
                triples.append((bl, nz, n))
                impl.append(code)
    d = Dummy(seed=0)
    pairs, impl_d = [], []
    for c in classes:
        for n in ns:
            try:
                d.generate_dataset(class_=c, num_samples=n)
                code = 0
            except Exception as e:  # noqa: BLE001
                code = exc_code(e)
            ok = valid_class(c) and valid_n(n)
            ck.case(dict(kind="dummy_args", cls=repr(c), n=repr(n), code=code), nontrivial=True, key=repr(("da", repr(c), repr(n))))
            ck.count("dummy_args_valid" if ok else "dummy_args_invalid")
            if ok and code != 0:
                ck.violation(dict(clause="gen_accepts_valid", generator="Dummy"), dict(kind_="dummy_args", class_=repr(c), num_samples=repr(n), code=code))
            if not ok and code == 0:
                which, val = ("class_", c) if not valid_class(c) else ("num_samples", n)
                ck.violation(
                    dict(clause="gen_rejects", generator="Dummy", argument=which, value_class=vclass(val)),
                    dict(kind_="dummy_args", class_=repr(c), num_samples=repr(n), what=f"invalid {which} accepted"),
                )
            pairs.append((c, n))
            impl_d.append(code)
    impl_s = []
    for sd in seeds:
        try:
            SEA(seed=sd)
            code = 0
        except Exception as e:  # noqa: BLE001
            code = exc_code(e)
        impl_s.append(code)
        ck.case(dict(kind="seed", seed=repr(sd), code=code), nontrivial=True, key=repr(("sd", repr(sd))))
    exprs = []
    CH = 400
    for i in range(0, len(triples), CH):
        exprs.append("map sea_arg [" + "; ".join(f"({pv(a)}, {pv(b_)}, {pv(c)})" for a, b_, c in triples[i : i + CH]) + "]")
    nsea = len(exprs)
    exprs.append("map dummy_arg [" + "; ".join(f"({pv(a)}, {pv(b_)})" for a, b_ in pairs) + "]")
    exprs.append("map (fun v : pyval FloatA => rc (seed_check v)) [" + "; ".join(pv(v) for v in seeds) + "]")
    res = coq_eval("C20a", HDR, exprs, shard=4)
    flat = [r for chunk in res[:nsea] for r in chunk]
    for (bl, nz, n), code, m in zip(triples, impl, flat):
        ck.corr_cases += 1
        exp_thr = THR.get(int(num_value(bl))) if code == 0 else None
        if m[0] != code or (code == 0 and (m[1] != int(n) or float(m[2]) != exp_thr or float(m[3]) != float(nz))):
            ck.mismatch("Model/Datasets.v sea_generate vs SEA.generate_dataset (exception class / parameters)", dict(block=repr(bl), noise=repr(nz), num_samples=repr(n), impl=code, model=list(m)))
    for (c, n), code, m in zip(pairs, impl_d, res[nsea]):
        ck.corr_cases += 1
        if m[0] != code or (code == 0 and (m[1] != int(n) or m[2] != int(c))):
            ck.mismatch("Model/Datasets.v dummy_generate vs Dummy.generate_dataset", dict(class_=repr(c), num_samples=repr(n), impl=code, model=list(m)))
    for sd, code, m in zip(seeds, impl_s, res[nsea + 1]):
        ck.corr_cases += 1
        if m != code:
            ck.mismatch("Model/Datasets.v seed_check vs BaseDatasetGenerator.__init__", dict(seed=repr(sd), impl=code, model=m))


# ------------------------------------------------------------------ download: scripted transport

ARFF = b"@relation t\n@attribute a numeric\n@attribute c {x,y}\n@data\n1.0,x\n2.5,y\n"


class Transport:
    """Replaces requests.head / requests.get (as looked up by frouros.datasets.base) in this process."""

    def __init__(self, scripts):
        self.scripts = scripts  # url -> (head, get)
        self.log = []
        self.bad_kwargs = None

    @staticmethod
    def _raise(kind, url):
        import requests
        import urllib3

        if kind == "conn":
            raise requests.exceptions.ConnectionError(f"scripted: cannot connect to {url}")
        if kind == "timeout":
            raise requests.exceptions.ConnectTimeout(f"scripted: timeout {url}")
        if kind == "readtimeout":
            raise requests.exceptions.ReadTimeout(f"scripted: read timeout {url}")
        if kind == "ssl":
            raise requests.exceptions.SSLError(f"scripted: ssl {url}")
        if kind == "proto":  # inside the body stream: wrapped by requests into ChunkedEncodingError
            raise urllib3.exceptions.ProtocolError("scripted: connection broken")
        raise OSError(f"scripted non-requests failure {url}")

    def _resp(self, url, status, body):
        import requests

        tr = self

        class Raw:
            def stream(self, chunk_size, decode_content=None):
                if body[0] == "raise":
                    tr._raise(body[1], url)
                data = body[1]
                for i in range(0, len(data), 3):
                    yield data[i : i + 3]

            def close(self):
                pass

            def release_conn(self):
                pass

        r = requests.models.Response()
        r.status_code = status
        r.url = url
        r.reason = "scripted"
        r.raw = Raw()
        return r

    def head(self, *a, **k):
        url = k.get("url", a[0] if a else None)
        if k.get("timeout") is None:
            self.bad_kwargs = ("head", k)
        i = self.scripts[url][0]
        h = self.scripts[url][1]
        self.log.append((0, i))
        if h[0] == "raise":
            self._raise(h[1], url)
        return self._resp(url, h[1], ("bytes", b""))

    def get(self, *a, **k):
        url = k.get("url", a[0] if a else None)
        if k.get("timeout") is None:
            self.bad_kwargs = ("get", k)
        i = self.scripts[url][0]
        g = self.scripts[url][2]
        self.log.append((1, i))
        if g[0] == "raise":
            self._raise(g[1], url)
        return self._resp(url, g[1], g[2])

    def __enter__(self):
        import frouros.datasets.base as fb

        self.mod = fb.requests
        self.saved = (self.mod.head, self.mod.get)
        self.mod.head, self.mod.get = self.head, self.get
        return self

    def __exit__(self, *exc):
        self.mod.head, self.mod.get = self.saved
        return False


def is_req(kind):
    return kind != "nonreq"


def http_err(s):
    return 400 <= s < 600


def ref_class(m):
    """Reference classification of a mirror script: ('reach', bytes) | ('fail',) | ('abort',)."""
    h, g = m[0], m[1]
    if h[0] == "raise":
        return ("fail",) if is_req(h[1]) else ("abort",)
    if http_err(h[1]):
        return ("fail",)
    if g[0] == "raise":
        return ("fail",) if is_req(g[1]) else ("abort",)
    if http_err(g[1]):
        return ("fail",)
    if g[2][0] == "raise":
        return ("fail",) if is_req(g[2][1]) else ("abort",)
    return ("reach", g[2][1])


def texn_lit(k):
    return {"conn": "ConnErr", "ssl": "ConnErr", "proto": "ConnErr", "timeout": "Timeout", "readtimeout": "Timeout", "nonreq": "NonReq"}[k]


def bytes_lit(b_):
    return "[" + "; ".join(str(x) for x in b_) + "]"


def mirror_lit(m):
    h, g = m[0], m[1]
    hl = f"(HRaise {texn_lit(h[1])})" if h[0] == "raise" else f"(HStatus {z(h[1])})"
    if g[0] == "raise":
        gl = f"(GRaise {texn_lit(g[1])})"
    else:
        bl = f"(BRaise {texn_lit(g[2][1])})" if g[2][0] == "raise" else f"(BBytes {bytes_lit(g[2][1])})"
        gl = f"(GResp {z(g[1])} {bl})"
    return f"M {hl} {gl}"


def state_lit(has_path, content):
    return f"S_ {'true' if has_path else 'false'} " + ("None" if content is None else f"(Some {bytes_lit(content)})")


def mirror_classes(i, thorough):
    """The outcome classes assigned to mirror i; bodies are distinct per mirror and per class so that
    any byte written from the wrong response is visible."""
    ok = bytes([65 + i, 48 + i])
    trap = bytes([120, 48 + i])  # would be visible if a failing mirror's body were written
    cls = {
        "HeadConnErr": (("raise", "conn"), ("resp", 200, ("bytes", trap))),
        "HeadTimeout": (("raise", "timeout"), ("resp", 200, ("bytes", trap))),
        "HeadNotOk": (("status", 404), ("resp", 200, ("bytes", trap))),
        "GetTimeout": (("status", 200), ("raise", "readtimeout")),
        "GetBadStatus": (("status", 200), ("resp", 503, ("bytes", trap))),
        "BodyErr": (("status", 200), ("resp", 200, ("raise", "proto"))),
        "Success": (("status", 200), ("resp", 200, ("bytes", ok))),
        "SuccessRedirectHead": (("status", 302), ("resp", 203, ("bytes", ok + b"r"))),
        "NonReqError": (("raise", "nonreq"), ("resp", 200, ("bytes", trap))),
    }
    if thorough:
        cls.update(
            {
                "HeadSSL": (("raise", "ssl"), ("resp", 200, ("bytes", trap))),
                "HeadStatus599": (("status", 599), ("resp", 200, ("bytes", trap))),
                "GetStatus400": (("status", 399), ("resp", 400, ("bytes", trap))),
                "SuccessEdgeStatus": (("status", 600), ("resp", 399, ("bytes", ok + b"e"))),
                "SuccessEmptyBody": (("status", 200), ("resp", 204, ("bytes", b""))),
                "GetNonReq": (("status", 200), ("raise", "nonreq")),
            }
        )
    return cls


def read_file(path):
    if path is None or not os.path.exists(path):
        return None
    with open(path, "rb") as f:
        return f.read()


def dl_exc_code(e):
    from frouros.datasets.exceptions import DownloadError, ReadFileError

    if e is None:
        return 0
    if isinstance(e, DownloadError):
        return 1
    if isinstance(e, ReadFileError):
        return 2
    if isinstance(e, FileNotFoundError):
        return 3
    if isinstance(e, TypeError):
        return 4
    return 5


def make_dataset(tmp, init, k):
    """init: 'fresh' (constructor's temporary file) | 'missing' (user path, no file) | bytes (user path with content)."""
    from frouros.datasets.real import Elec2

    if init == "fresh":
        ds = Elec2()
    else:
        path = os.path.join(tmp, f"user_{len(os.listdir(tmp))}_{k}.arff")
        if init != "missing":
            with open(path, "wb") as f:
                f.write(init)
        ds = Elec2(file_path=path)
    return ds


def run_download(ck, tmp, mirrors, init, monitor=True):
    """One download() on a new object; returns the observation tuple comparable with dl_obs."""
    # host names whose alphabetical order is NOT the list order (the list order is the order of preference)
    urls = [f"https://{'qdzkbwmfxa'[(7 * i + 3) % 10]}{i}-mirror.example.org/data/file{i}.arff" for i in range(len(mirrors))]
    ds = make_dataset(tmp, init, len(mirrors))
    ds.url = urls
    path = str(ds.file_path)
    prior = read_file(path)
    scripts = {u: (i, m[0], m[1]) for i, (u, m) in enumerate(zip(urls, mirrors))}
    err = None
    with Transport(scripts) as tp:
        try:
            ds.download()
        except Exception as e:  # noqa: BLE001
            err = e
    code = dl_exc_code(err)
    after = read_file(path)
    obs = (code, ds.file_path is not None, after, list(tp.log))
    if monitor:
        cls = [ref_class(m) for m in mirrors]
        first = next((i for i, c in enumerate(cls) if c[0] != "fail"), None)
        names = [m[2] if len(m) > 2 else "?" for m in mirrors]
        det = dict(kind_="download", mirrors=[mirror_lit(m) for m in mirrors], names=names, init=("fresh" if init == "fresh" else "missing" if init == "missing" else list(init)), observed=dict(code=code, file=None if after is None else list(after), calls=tp.log))
        base = prior or b""
        if first is None:
            if code != 1:
                ck.violation(dict(clause="download_all_fail", expected="DownloadError", got=code), det)
            elif after != prior:
                ck.violation(dict(clause="download_all_fail", aspect="file-touched"), det)
            elif [i for _, i in tp.log if _ == 0] != list(range(len(mirrors))):
                ck.violation(dict(clause="download_all_fail", aspect="not-every-mirror-tried-in-order"), det)
        elif cls[first][0] == "reach":
            b_ = cls[first][1]
            exp_calls = []
            for i in range(first + 1):
                exp_calls.append((0, i))
                if not (mirrors[i][0][0] == "raise" or http_err(mirrors[i][0][1])):
                    exp_calls.append((1, i))
            if code != 0:
                ck.violation(dict(clause="download_first_reachable", aspect="raises-although-a-mirror-is-reachable", got=code), det)
            elif tp.log != exp_calls:
                ck.violation(dict(clause="download_first_reachable", aspect="mirror-order"), dict(det, expected_calls=exp_calls))
            elif after == b_:
                pass  # exactly the first reachable mirror's bytes
            elif base and after == base + b_:
                # the property's literal wording: "ends with EXACTLY the first reachable mirror's bytes"
                ck.violation(
                    dict(clause="download_exact_bytes", input_class="target-file-has-prior-content"),
                    dict(det, what="bytes are appended to the existing content (open(..., 'ab')); file != mirror bytes", expected=list(b_)),
                )
            else:
                ck.violation(dict(clause="download_first_reachable", aspect="file-bytes", first_reachable=first, n_mirrors=len(mirrors)), dict(det, expected=list(b_)))
        if tp.bad_kwargs:
            ck.violation(dict(clause="download_timeout", aspect="request-without-timeout"), dict(det, kwargs=repr(tp.bad_kwargs)))
    # leave no file behind
    if os.path.exists(path):
        os.remove(path)
    return obs


def parse_oracle(content, index=0):
    """What Elec2.read_file does on this content, computed directly with SciPy: ('data', value) | 'index' | 'other'."""
    from scipy.io import arff

    try:
        r = arff.loadarff(io.StringIO(content.decode("utf-8", "replace")))
    except Exception:  # noqa: BLE001
        return "other"
    try:
        return ("data", r[index])
    except IndexError:
        return "index"


def gen_download(ck, tmp):
    rng = ck.rng
    thorough = ck.tier == "thorough"
    ck.rule(
        "download: requests.head/get replaced by a scripted transport building real requests.Response objects; EVERY assignment of "
        "the 9 outcome classes (connection error, timeout, HEAD 404, GET timeout, GET 503, body read error, success, success behind a 302 HEAD, "
        "non-requests exception) to 0, 1, 2 and 3 mirrors (1+9+81+729), on the constructor's fresh temporary file; all 0-2 mirror assignments "
        "again on a missing user path and on a user file with prior content; thorough adds 6 classes (status edges 399/400/599/600, SSL, empty body). "
        "File bytes, exception class and the HEAD/GET call sequence compared with the model and with a reference first-reachable computation"
    )
    cases = []  # (mirrors, init)
    maxk = 3
    for k in range(0, maxk + 1):
        names = [list(mirror_classes(i, thorough).items()) for i in range(k)]
        for combo in itertools.product(*names):
            ms = [(c[1][0], c[1][1], c[0]) for c in combo]
            cases.append((ms, "fresh"))
            if k <= 2:
                cases.append((ms, "missing"))
                cases.append((ms, b"PRIOR"))
    if not thorough:
        # a reachable mirror whose body is EMPTY is reachable: its (zero) bytes are the file, later mirrors are not asked
        # (the class is part of the thorough enumeration; these scripts put it into the quick tier as well)
        E = lambda i: mirror_classes(i, True)["SuccessEmptyBody"]  # noqa: E731
        S = lambda i: mirror_classes(i, True)["Success"]  # noqa: E731
        F = lambda i: mirror_classes(i, True)["HeadNotOk"]  # noqa: E731
        for script in ([(E, "SuccessEmptyBody")], [(E, "SuccessEmptyBody"), (S, "Success")], [(F, "HeadNotOk"), (E, "SuccessEmptyBody"), (S, "Success")]):
            ms = [(f(i)[0], f(i)[1], nm) for i, (f, nm) in enumerate(script)]
            for init in ("fresh", "missing", b"PRIOR"):
                cases.append((ms, init))
    if thorough:
        for _ in range(4000):  # 4 and 5 mirrors, random assignments
            k = rng.choice([4, 5])
            ms = []
            for i in range(k):
                nm, c = rng.choice(list(mirror_classes(i, True).items()))
                ms.append((c[0], c[1], nm))
            cases.append((ms, rng.choice(["fresh", "fresh", "missing", b"PRIOR"])))
    ck.exhaustive = True
    obs = []
    for ms, init in cases:
        o = run_download(ck, tmp, ms, init)
        obs.append(o)
        cls = [ref_class(m) for m in ms]
        first = next((i for i, c in enumerate(cls) if c[0] != "fail"), None)
        key = "all_fail" if first is None else ("reach_at_%d" % first if cls[first][0] == "reach" else "abort")
        ck.count("download_" + key)
        ck.count("download_init_" + (init if isinstance(init, str) else "prior"))
        ck.case(
            dict(kind="download", mirrors=[m[2] for m in ms], init=init if isinstance(init, str) else "prior-content", code=o[0]),
            nontrivial=(first is not None and first > 0) or (first is None and len(ms) > 1),
            key=repr(("dl", [m[2] for m in ms], repr(init))),
        )
    exprs = []
    CH = 250
    for i in range(0, len(cases), CH):
        items = []
        for ms, init in cases[i : i + CH]:
            st = state_lit(True, b"" if init == "fresh" else None if init == "missing" else init)
            items.append(f"([{'; '.join(mirror_lit(m) for m in ms)}], {st})")
        exprs.append("map dl_obs [" + "; ".join(items) + "]")
    res = coq_eval("C20d", HDR, exprs, shard=2)
    flat = [r for chunk in res for r in chunk]
    for (ms, init), o, m in zip(cases, obs, flat):
        ck.corr_cases += 1
        mfile = None if m[2] is None else bytes(m[2][1])
        mobs = (m[0], bool(m[1]), mfile, [tuple(t) for t in m[3]])
        if mobs != o:
            ck.mismatch(
                "Model/Datasets.v download vs BaseDatasetDownload.download (exception class, file bytes, HEAD/GET sequence)",
                dict(mirrors=[m_[2] for m_ in ms], init=repr(init), impl=repr(o), model=repr(mobs)),
            )

    # ---------------------------------------------------------------- scenarios: download / load sequences on one object
    ck.rule(
        "download+load scenarios: random sequences of download(mirror scripts) and load(index) on ONE object (fresh, missing path, prior "
        "content), bodies = small valid ARFF / garbage; after each step exception class, file_path-is-None and file bytes compared with the "
        "model (parser outcome supplied as an oracle by parsing the bytes directly with SciPy); load() value compared with the direct parse"
    )
    scen = []
    fixed = [
        ("fresh", [("D", "ok"), ("L", 0)]),
        ("fresh", [("D", "fail,ok"), ("L", 0), ("L", 0), ("D", "ok")]),
        ("fresh", [("D", "ok"), ("D", "ok"), ("L", 0)]),
        ("fresh", [("L", 0)]),
        ("fresh", [("D", "ok"), ("L", 2), ("L", 1)]),
        ("fresh", [("D", "garbage"), ("L", 0)]),
        ("fresh", [("D", "fail,fail"), ("L", 0)]),
        ("missing", [("L", 0), ("D", "fail,fail,ok"), ("L", 0)]),
        (b"PRIOR", [("D", "ok"), ("L", 0)]),
        (ARFF, [("L", 0)]),
    ]
    for init, ops in fixed:
        scen.append((init, ops))
    for _ in range(40 if not thorough else 1000):
        init = rng.choice(["fresh", "fresh", "missing", b"PRIOR", ARFF])
        ops = []
        for _ in range(rng.randrange(1, 6)):
            if rng.random() < 0.55:
                k = rng.randrange(0, 4)
                ops.append(("D", ",".join(rng.choice(["ok", "ok", "fail", "fail", "garbage", "abort", "headbad", "get500"]) for _ in range(k))))
            else:
                ops.append(("L", rng.choice([0, 0, 0, 1, 2, 5])))
        scen.append((init, ops))

    def script_of(tag, i):
        body = ARFF if tag == "ok" else b"not an arff file\n"
        return {
            "ok": (("status", 200), ("resp", 200, ("bytes", body)), "Success"),
            "garbage": (("status", 200), ("resp", 200, ("bytes", body)), "SuccessGarbage"),
            "fail": (("raise", "conn"), ("raise", "conn"), "HeadConnErr"),
            "abort": (("status", 200), ("raise", "nonreq"), "GetNonReq"),
            "headbad": (("status", 500), ("resp", 200, ("bytes", ARFF)), "HeadNotOk"),
            "get500": (("status", 200), ("resp", 500, ("bytes", ARFF)), "GetBadStatus"),
        }[tag]

    sc_obs, sc_exprs = [], []
    for init, ops in scen:
        ds = make_dataset(tmp, init, 9)
        path = str(ds.file_path)
        steps, coq_ops = [], []
        has_prior = False
        for op, arg in ops:
            if op == "D":
                ms = [script_of(t, i) for i, t in enumerate(arg.split(","))] if arg else []
                urls = [f"https://mirror{i}.example.org/f{i}" for i in range(len(ms))]
                ds.url = urls
                before = read_file(path) if ds.file_path is not None else None
                err = None
                with Transport({u: (i, m[0], m[1]) for i, (u, m) in enumerate(zip(urls, ms))}) as tp:
                    try:
                        ds.download()
                    except Exception as e:  # noqa: BLE001
                        err = e
                steps.append((dl_exc_code(err), ds.file_path is not None, read_file(path), list(tp.log)))
                coq_ops.append(f"ODown [{'; '.join(mirror_lit(m) for m in ms)}]")
                cls = [ref_class(m) for m in ms]
                first = next((i for i, c in enumerate(cls) if c[0] != "fail"), None)
                if err is None and first is not None and cls[first][0] == "reach" and before:
                    has_prior = True
                    if read_file(path) == before + cls[first][1]:
                        ck.violation(
                            dict(clause="download_exact_bytes", input_class="target-file-has-prior-content"),
                            dict(kind_="scenario", init=repr(init), ops=ops, what="download() on a target that already has content appends; file != first reachable mirror's bytes", file=list(read_file(path))[:80]),
                        )
            else:
                cur = read_file(path) if ds.file_path is not None else None
                po = parse_oracle(cur, arg) if cur is not None else "other"
                err, val = None, None
                try:
                    val = ds.load(index=arg)
                except Exception as e:  # noqa: BLE001
                    err = e
                steps.append((dl_exc_code(err), ds.file_path is not None, read_file(path), []))
                coq_ops.append("OLoad " + ("(PData 0)" if isinstance(po, tuple) else "PIndexError" if po == "index" else "POtherExn"))
                det = dict(kind_="scenario", init=repr(init), ops=ops, step=len(steps) - 1)
                if isinstance(po, tuple) and cur is not None:
                    # load_removes_tempfile: parsed value returned, file unlinked, file_path reset
                    if err is not None:
                        ck.violation(dict(clause="load_returns_parsed", aspect="raises-on-parsable-file"), dict(det, error=repr(err)))
                    elif os.path.exists(path) or ds.file_path is not None:
                        ck.violation(dict(clause="load_removes_tempfile"), dict(det, exists=os.path.exists(path), file_path=repr(ds.file_path)))
                    else:
                        same = (val.tolist() == po[1].tolist()) if hasattr(po[1], "tolist") else (repr(val) == repr(po[1]))
                        if not same:
                            ck.violation(dict(clause="load_returns_parsed", aspect="value"), dict(det, got=repr(val)[:200], expected=repr(po[1])[:200]))
                elif err is None:
                    ck.violation(dict(clause="load_returns_parsed", aspect="returns-on-unparsable-file"), det)
        sc_obs.append(steps)
        init_st = state_lit(True, b"" if init == "fresh" else None if init == "missing" else init)
        sc_exprs.append(f"run_ops ({init_st}) [{'; '.join(coq_ops)}]")
        ck.count("scenario")
        ck.case(dict(kind="scenario", init=init if isinstance(init, str) else f"{len(init)} bytes", ops=ops), nontrivial=len(ops) > 1, key=repr(("sc", repr(init), ops)))
        if os.path.exists(path):
            os.remove(path)
    res = coq_eval("C20s", HDR, sc_exprs, shard=30)
    for (init, ops), steps, m in zip(scen, sc_obs, res):
        ck.corr_cases += 1
        mm = [(s[0], bool(s[1]), None if s[2] is None else bytes(s[2][1]), [tuple(t) for t in s[3]]) for s in m]
        if mm != steps:
            bad = next((i for i, (a, b_) in enumerate(zip(mm, steps)) if a != b_), None)
            ck.mismatch(
                "Model/Datasets.v download/load sequence vs Elec2 object",
                dict(init=repr(init), ops=ops, first_diff_step=bad, impl=repr(steps[bad] if bad is not None else steps)[:400], model=repr(mm[bad] if bad is not None else mm)[:400]),
            )

    # the real class keeps its two mirrors, in the documented order
    from frouros.datasets.real import Elec2

    e = Elec2()
    p = str(e.file_path)
    if len(e.url) != 2 or not os.path.exists(p) or read_file(p) != b"":
        ck.mismatch("Elec2 constructor: two mirrors and an empty temporary file (model: dl_fresh)", dict(urls=e.url, exists=os.path.exists(p)))
    if os.path.exists(p):
        os.remove(p)


# ------------------------------------------------------------------ entry points


def gen_shared_instance(ck):
    """Several datasets requested from ONE generator object before any is consumed (the pattern of the
    repository's own fixtures), then consumed one after the other or alternately: each dataset must follow
    the concept it was requested with."""
    from frouros.datasets.synthetic import SEA, Dummy

    rng = ck.rng
    ck.rule("shared instance: 2-4 datasets requested up front from one SEA / Dummy object (different blocks / classes), consumed in order, in reverse or alternately; every sample labelled by the concept of ITS dataset (exact rational rule, ties skipped)")
    THR = {1: 8.0, 2: 9.0, 3: 7.0, 4: 9.5}
    for it in range(12 if ck.tier != "thorough" else 80):
        seed = rng.choice([0, 1, 31, rng.randrange(2**31)])
        blocks = rng.sample([1, 2, 3, 4], rng.choice([2, 3, 4]))
        n = rng.choice([30, 80])
        order = rng.choice(["in-order", "reverse", "alternate"])
        sea = SEA(seed=seed)
        gens = [iter(sea.generate_dataset(block=b_, noise=0.0, num_samples=n)) for b_ in blocks]
        got = [[] for _ in blocks]
        if order == "alternate":
            for _ in range(n):
                for k, g in enumerate(gens):
                    got[k].append(next(g))
        else:
            for k in (range(len(gens)) if order == "in-order" else reversed(range(len(gens)))):
                got[k] = list(gens[k])
        case = dict(seed=seed, blocks=blocks, n=n, order=order)
        ck.case(dict(kind="shared-sea", **case), nontrivial=True, key=repr(case))
        bad = None
        for k, b_ in enumerate(blocks):
            if len(got[k]) != n:
                bad = dict(clause="gen_count", what=f"dataset {k} has {len(got[k])} samples")
                break
            for j, (X, y) in enumerate(got[k]):
                lab, tie = exact_sea_label(float(X[0]), float(X[1]), THR[b_])
                if tie:
                    ck.near_ties += 1
                    continue
                if int(y) != lab:
                    bad = dict(clause="sea_labels", what=f"dataset {k} (block {b_}) sample {j}: label {int(y)} but x0+x1={float(X[0]) + float(X[1])} vs threshold {THR[b_]}")
                    break
            if bad:
                break
        if bad:
            ck.violation(dict(clause=bad["clause"], generator="SEA", rng="seeded", usage="shared-instance"), dict(kind_="shared_sea", case=case, what=bad["what"]))
        # Dummy: two classes from one object
        dm = Dummy(seed=seed)
        gens = [iter(dm.generate_dataset(class_=c, num_samples=n)) for c in (0, 1)]
        got = [[], []]
        for _ in range(n):
            for k, g in enumerate(gens):
                got[k].append(next(g))
        for c in (0, 1):
            for j, (X, y) in enumerate(got[c]):
                lab, tie = exact_dummy_label(float(X[0]), float(X[1]), c)
                if not tie and int(y) != lab:
                    ck.violation(dict(clause="dummy_labels", generator="Dummy", rng="seeded", usage="shared-instance"), dict(kind_="shared_dummy", case=dict(seed=seed, n=n), what=f"class {c} sample {j}: label {int(y)}"))
                    break


def run(ck: Check):
    logging.getLogger("frouros").setLevel(logging.CRITICAL)
    logging.getLogger("frouros").propagate = False
    tmp = os.path.join(BUILD, f"c20_tmp_{os.getpid()}")
    os.makedirs(tmp, exist_ok=True)
    saved_tmp = tempfile.tempdir
    tempfile.tempdir = tmp
    state = np.random.get_state()
    try:
        gen_generators(ck)
        gen_shared_instance(ck)
        gen_arguments(ck)
        gen_download(ck, tmp)
        left = os.listdir(tmp)
        if left:
            ck.notes.append(f"{len(left)} files left in the scratch directory before cleanup (objects constructed only for argument checks)")
    finally:
        np.random.set_state(state)
        tempfile.tempdir = saved_tmp
        shutil.rmtree(tmp, ignore_errors=True)


def main(tier, seed):
    ck = Check("C20", tier, seed)
    ck.proof = check_props("C20")
    ck.assumptions = [
        "NumPy's legacy global generator is an oracle: the theorems hold for every sequence of draws; that uniform(0,10) lies in [0,10) and random() in [0,1) is NumPy's contract (checked on every sample here)",
        "the label theorems are over Coq's R; the binary64 run of the same model is compared with the code, and samples whose binary64 sum and exact sum fall on different sides of the threshold are skipped and counted",
        "the network is an oracle: the theorems hold for every script of HEAD/GET answers; the harness exercises the real requests.Response logic (ok, raise_for_status, content) but no socket",
        "the ARFF parser is an oracle (function of the file bytes); file system = one path with optional content, writes never fail",
        "generators are consumed without any other use of NumPy's global generator in between",
    ]
    run(ck)
    return ck.finish()


def replay(obj):
    """Re-run the concrete failing input of a replay file against the implementation."""
    import json

    ck = Check("C20", "replay", 0)
    ck.known = []
    logging.getLogger("frouros").setLevel(logging.CRITICAL)
    kind = obj.get("kind_")
    tmp = os.path.join(BUILD, f"c20_replay_{os.getpid()}")
    os.makedirs(tmp, exist_ok=True)
    saved_tmp = tempfile.tempdir
    tempfile.tempdir = tmp
    try:
        if kind == "sea_seeded":
            run_sea_seeded(ck, obj["case"])
        elif kind == "sea_scripted":
            c = obj["case"]
            c["draws"] = [tuple(d) for d in c["draws"]]
            run_sea_scripted(ck, c)
        elif kind == "dummy_seeded":
            run_dummy_seeded(ck, obj["case"])
        elif kind == "dummy_scripted":
            c = obj["case"]
            c["draws"] = [tuple(d) for d in c["draws"]]
            run_dummy_scripted(ck, c)
        elif kind == "download":

            ms = [mirror_classes(i, True)[nm] + (nm,) for i, nm in enumerate(obj["names"])]
            init = obj["init"] if isinstance(obj["init"], str) else bytes(obj["init"])
            o = run_download(ck, tmp, ms, init)
            print("observed:", o)
        else:
            print("replay: this record is re-established by running the full check:", json.dumps(obj.get("signature")))
            return main("quick", 0)
    finally:
        tempfile.tempdir = saved_tmp
        shutil.rmtree(tmp, ignore_errors=True)
    for sig, det in ck.violations:
        print("VIOLATION reproduced:", json.dumps(sig, default=str))
    if not ck.violations:
        print("not reproduced on this tree")
    return 1 if ck.violations else 0
