"""What py2coq translates on every run, the typing hints it is given, and which equivalence files
(coq/Gen/Eq*.v) tie the generated definitions to the hand-written models for which property."""
from __future__ import annotations

import os
import shutil

from py2coq import BOOL, ELT, INT, NUM, NUMX, NUMXN, Translator, Unsupported, lst, obj, opt

# layout of the detector classes whose __init__ wires callbacks (not translated): the storage attributes
# read/written by `_update` and `reset`, in a fixed order
def _cusum_layout(cfg):
    return [("_config", obj(cfg)), ("_num_instances", INT), ("drift", BOOL),
            ("_additional_vars.mean_error_rate", obj("Mean")), ("_additional_vars.sum_", NUM)]


SPEC = dict(
    field_types={
        ("EWMA", "_mean"): NUM,  # initialised with the int 0, then holds floats
        ("CircularQueue", "_queue"): lst(opt(ELT)),
        ("AccuracyQueue", "_queue"): lst(opt(BOOL)),
        ("PrequentialError", "_cumulative_instances"): NUM,
        ("PrequentialError", "cumulative_error"): NUM,
        ("PrequentialError", "_alpha"): NUM,
        ("SampleInfo", "independent_bound_condition"): NUM,
    },
    param_types={
        ("*", "*", "kwargs"): "skip",
        ("*", "*", "name"): "skip",  # BaseMetric's display name
        ("CircularQueue", "enqueue", "value"): ELT,
        ("AccuracyQueue", "enqueue", "value"): BOOL,
        ("PrequentialError", "__init__", "alpha"): NUM,
        ("*", "incremental_op", "value"): NUM,
        ("*", "incremental_op", "element"): NUM,
        ("*", "_update", "value"): NUM,
        ("*", "_update_sum", "error_rate"): NUM,
        ("KSWINConfig", "__init__", "seed"): opt(INT),
        ("ECDDWT", "_check_threshold", "control_limit"): NUM,
        ("*", "__init__", "alpha_d"): NUM, ("*", "__init__", "alpha_w"): NUM,
        ("*", "_check_mean_increase", "m"): INT, ("*", "_check_mean_decrease", "m"): INT,
        ("*", "_check_mean_increase", "alpha"): NUM, ("*", "_check_mean_decrease", "alpha"): NUM,
        ("*", "hoeffding_error_bound", "num_values"): INT, ("*", "update_cut_point", "epsilon_z"): NUM,
        ("*", "__init__", "lambda_"): NUM, ("*", "update_stats", "value"): NUM, ("*", "update_stats", "alpha"): NUM,
        ("SampleInfo", "update", "value"): NUM,
        ("STEPD", "_update", "value"): BOOL,  # the error stream: 0/1 (False/True)
        ("GaussianUnknownMean", "log_pred_prob", "idx"): INT, ("GaussianUnknownMean", "log_pred_prob", "value"): NUM,
        ("GaussianUnknownMean", "update", "value"): NUM,
        ("ADWIN", "_calculate_threshold", "w0_instances"): INT, ("ADWIN", "_calculate_threshold", "w1_instances"): INT,
        ("Bucket", "insert_data", "value"): NUM, ("Bucket", "insert_data", "variance"): NUM,
    },
    # calls on these attributes are uninterpreted functions (section variables of the generated file)
    oracles={("STEPD", "_distribution", "sf"): "norm_sf"},
    # collections.deque(maxlen=config.<attr>) kept in a storage field: (class, property) -> (storage, config attribute)
    deques={("KSWIN", "window"): ("_additional_vars.window", "min_num_instances")},
    layouts={
        "CUSUM": _cusum_layout("CUSUMConfig"),
        "PageHinkley": _cusum_layout("PageHinkleyConfig"),
        "GeometricMovingAverage": _cusum_layout("GeometricMovingAverageConfig"),
        "DDM": [("_config", obj("DDMConfig")), ("_num_instances", INT), ("drift", BOOL), ("_additional_vars.error_rate", obj("Mean")),
                ("_additional_vars.min_error_rate", NUMX), ("_additional_vars.min_std", NUMX), ("_additional_vars.warning", BOOL)],
        "HDDMA1": [("_config", obj("HDDMAConfig")), ("_num_instances", INT), ("drift", BOOL),
                   ("_additional_vars.test_type", obj("HoeffdingOneSidedTest")), ("_additional_vars.warning", BOOL)],
        "HDDMA2": [("_config", obj("HDDMAConfig")), ("_num_instances", INT), ("drift", BOOL),
                   ("_additional_vars.test_type", obj("HoeffdingTwoSidedTest")), ("_additional_vars.warning", BOOL)],
        "HDDMW1": [("_config", obj("HDDMWConfig")), ("_num_instances", INT), ("drift", BOOL),
                   ("_additional_vars.test_type", obj("McDiarmidOneSidedTest")), ("_additional_vars.warning", BOOL)],
        "HDDMW2": [("_config", obj("HDDMWConfig")), ("_num_instances", INT), ("drift", BOOL),
                   ("_additional_vars.test_type", obj("McDiarmidTwoSidedTest")), ("_additional_vars.warning", BOOL)],
        "EDDM": [("_config", obj("EDDMConfig")), ("_num_instances", INT), ("drift", BOOL),
                 ("_additional_vars.last_distance_error", NUM), ("_additional_vars.max_distance_threshold", NUMXN),
                 ("_additional_vars.mean_distance_error", NUM), ("_additional_vars.num_misclassified_instances", INT),
                 ("_additional_vars.old_mean_distance_error", NUM), ("_additional_vars.std_distance_error", NUM),
                 ("_additional_vars.variance_distance_error", NUM), ("_additional_vars.warning", BOOL)],
        "RDDM": [("_config", obj("RDDMConfig")), ("_num_instances", INT), ("drift", BOOL), ("_additional_vars.error_rate", obj("Mean")),
                 ("_additional_vars.min_error_rate", NUMX), ("_additional_vars.min_std", NUMX), ("_additional_vars.warning", BOOL),
                 ("_additional_vars.num_warnings", INT), ("_additional_vars.rddm_drift", BOOL),
                 ("_additional_vars.predictions", obj("CircularQueue", NUM))],
        "STEPD": [("_config", obj("STEPDConfig")), ("_num_instances", INT), ("drift", BOOL),
                  ("_additional_vars.correct_total", INT), ("_additional_vars.window_accuracy", obj("AccuracyQueue")),
                  ("_warning", BOOL), ("_min_num_instances", INT)],
        "GaussianUnknownMean": [("mean_params", lst(NUM)), ("precision_params", lst(NUM)), ("_data_var", NUM)],
        "BOCDConfig": [("_min_num_instances", INT), ("_model", obj("GaussianUnknownMean")), ("log_hazard", NUM), ("log_1_minus_hazard", NUM)],
        "BOCD": [("_config", obj("BOCDConfig")), ("_num_instances", INT), ("drift", BOOL), ("_additional_vars.log_r", lst(lst(NUM))),
                 ("_additional_vars.predicted_mean", opt(NUM)), ("_additional_vars.predicted_var", opt(NUM)),
                 ("_additional_vars.log_message", lst(NUM)), ("_model", obj("GaussianUnknownMean"))],
        # only the fields `_calculate_threshold` reads (the bucket deque and the other counters are outside the subset)
        "ADWIN": [("_config", obj("ADWINConfig")), ("_additional_vars.variance", NUM), ("_additional_vars.width", INT)],
        "KSWIN": [("_config", obj("KSWINConfig")), ("_num_instances", INT), ("drift", BOOL), ("_additional_vars.window", lst(NUM))],
        "ECDDWT": [("_config", obj("ECDDWTConfig")), ("_num_instances", INT), ("drift", BOOL), ("_additional_vars.p", obj("Mean")),
                   ("_additional_vars.z", obj("EWMA")), ("_additional_vars.warning", BOOL), ("_lambda_div_two_minus_lambda", NUM)],
    },
    aliases={"HDDMA1": "HDDMA", "HDDMA2": "HDDMA", "HDDMW1": "HDDMW", "HDDMW2": "HDDMW"},  # one class, two layouts: test_type is a One- or a TwoSided test object
    elt={"AccuracyQueue": BOOL},
    ctor_elt={("CircularMean", "CircularQueue"): NUM},
    skip_fields={"name"},
)

# (class, method) translated into build/gen_*/GSrc.v, in this order (callees are pulled in on demand)
UNITS = [
    ("Mean", "__init__"), ("Mean", "update"), ("EWMA", "__init__"), ("EWMA", "update"),
    ("CircularQueue", "__init__"), ("CircularQueue", "clear"), ("CircularQueue", "dequeue"), ("CircularQueue", "enqueue"),
    ("CircularQueue", "maintain_last_element"),
    ("AccuracyQueue", "__init__"), ("AccuracyQueue", "clear"), ("AccuracyQueue", "dequeue"), ("AccuracyQueue", "enqueue"),
    ("AccuracyQueue", "maintain_last_element"),
    ("CircularMean", "__init__"), ("CircularMean", "update"),
    ("PrequentialError", "__init__"), ("PrequentialError", "__call__"), ("PrequentialError", "reset"),
    ("CUSUMConfig", "__init__"), ("PageHinkleyConfig", "__init__"), ("GeometricMovingAverageConfig", "__init__"),
    ("CUSUM", "_update"), ("CUSUM", "reset"), ("PageHinkley", "_update"), ("PageHinkley", "reset"),
    ("GeometricMovingAverage", "_update"), ("GeometricMovingAverage", "reset"),
    ("DDMConfig", "__init__"), ("EDDMConfig", "__init__"), ("RDDMConfig", "__init__"), ("ECDDWTConfig", "__init__"),
    ("HDDMAConfig", "__init__"), ("HDDMWConfig", "__init__"), ("ADWINConfig", "__init__"), ("KSWINConfig", "__init__"),
    ("STEPDConfig", "__init__"),
    ("DDM", "_update"), ("DDM", "reset"),
    ("ECDDWT", "_update"), ("ECDDWT", "reset"),
    ("EDDM", "_update"), ("EDDM", "reset"),
    ("RDDM", "_update"), ("RDDM", "reset"),
    ("STEPD", "_update"), ("STEPD", "reset"),
    ("KSWIN", "_update"), ("KSWIN", "reset"),
    ("GaussianUnknownMean", "update"), ("BOCD", "_update"), ("BOCD", "reset"),
    ("ADWIN", "_calculate_threshold"),
    ("Bucket", "__init__"), ("Bucket", "reset"), ("Bucket", "insert_data"), ("Bucket", "compress"), ("Bucket", "remove"),
    ("HDDMA1", "_update"), ("HDDMA1", "reset"), ("HDDMA2", "_update"), ("HDDMA2", "reset"),
    ("HDDMW1", "_update"), ("HDDMW1", "reset"), ("HDDMW2", "_update"), ("HDDMW2", "reset"),
]

# property -> equivalence files compiled against the freshly generated GSrc.v
_HIST = ["EqStats.v", "EqCusum.v", "EqSPC.v", "EqHDDM.v", "EqHDDMW.v", "EqRDDM.v", "EqExec.v",
         "EqSTEPD.v", "EqKSWIN.v", "EqBOCD.v"]  # the last three carry their own warm-up / reset-is-fresh theorems (src_*_warmup_and_reset, src_stepd_run)
EQ = {
    "C01": _HIST,  # constant-stream silence over the generated code, for every update/reset history
    "C18": ["EqStats.v", "EqSrcStats.v", "EqAQ.v"],
    "C07": ["EqStats.v", "EqCusum.v"],
    "C19": ["EqStats.v", "EqConfig.v"],
    "C02": _HIST,  # reset() = where a fresh history starts, over the generated code
    "C03": ["EqStats.v", "EqSPC.v", "EqRDDM.v"],
    "C04": ["EqStats.v", "EqHDDM.v", "EqHDDMW.v"],
    "C05": ["EqStats.v", "EqBucket.v"],  # the bucket layer only (ADWIN's own methods are outside the subset)
    "C06": ["EqStats.v", "EqSTEPD.v", "EqKSWIN.v"],
    "C08": ["EqStats.v", "EqBOCD.v"],
}


# ---------------------------------------------------------------------------------------------------------------
# pure static functions (harness/fn2coq.py -> GFn.v)
import fn2coq as _f

_PT = "frouros/callbacks/batch/permutation_test.py"
FN_UNITS = [
    dict(name="perm_compute_conservative", file=_PT, cls="PermutationTestDistanceBased", fn="_compute_conservative",
         params=dict(num_permutations=_f.INT, observed_statistic=_f.NUM, permuted_statistic=_f.vec(_f.NUM))),
    dict(name="perm_compute_estimate", file=_PT, cls="PermutationTestDistanceBased", fn="_compute_estimate", params=dict(extreme_statistic=_f.vec(_f.BOOL))),
    dict(name="perm_compute_exact", file=_PT, cls="PermutationTestDistanceBased", fn="_compute_exact",
         params=dict(extreme_statistic=_f.vec(_f.BOOL), total_num_permutations=_f.INT, permuted_statistic=_f.vec(_f.NUM))),
    dict(name="perm_compute_approximate", file=_PT, cls="PermutationTestDistanceBased", fn="_compute_approximate",
         params=dict(extreme_statistic=_f.vec(_f.BOOL), total_num_permutations=_f.INT, permuted_statistic=_f.vec(_f.NUM))),
    dict(name="perm_calculate_p_value", file=_PT, cls="PermutationTestDistanceBased", fn="_calculate_p_value",
         params=dict(X_ref=_f.OPQ, X_test=_f.OPQ, statistic=_f.OPQ, statistic_args=_f.OPQ, observed_statistic=_f.NUM, num_permutations=_f.INT,
                     total_num_permutations=_f.opt(_f.INT), num_jobs=_f.INT, method=_f.STR, random_state=_f.opt(_f.INT), verbose=_f.BOOL)),
]
FN_ORACLES = {
    # frouros.utils.stats.permutation (multiprocessing pool, NumPy's generator): (statistics of the re-splits, (n+m)!)
    "permutation": dict(coq="o_permutation", poly=True, ty="forall T : Type, T -> T -> T -> T -> Z -> Z -> option Z -> bool -> list (num A) * Z",
                        params=["X", "Y", "statistic", "statistical_args", "num_permutations", "num_jobs", "random_state", "verbose"],
                        ptypes=[_f.OPQ, _f.OPQ, _f.OPQ, _f.OPQ, _f.INT, _f.INT, _f.opt(_f.INT), _f.BOOL], ret=_f.tup(_f.vec(_f.NUM), _f.INT)),
    # scipy.stats.binom.cdf(k, n, p) (p a scalar or an array)
    "binom.cdf": dict(coq="o_binom_cdf", ty="Z -> Z -> num A -> num A", ptypes=[_f.INT, _f.INT, _f.NUM], ret=_f.NUM, lift_last=True),
    # scipy.integrate.quad(func, a, b) -> (integral, error estimate)
    "quad": dict(coq="o_quad", ty="(num A -> num A) -> num A -> num A -> num A * num A", params=["func", "a", "b"],
                 ptypes=[("fun", [_f.NUM], _f.NUM), _f.NUM, _f.NUM], ret=_f.tup(_f.NUM, _f.NUM)),
}
_DB = "frouros/detectors/data_drift/batch/distance_based/"
_VN = _f.vec(_f.NUM)
FN_UNITS += [
    dict(name="dist_calculate_bins_values", file=_DB + "base.py", cls="BaseDistanceBasedBins", fn="_calculate_bins_values", params=dict(X_ref=_VN, X=_VN, num_bins=_f.INT)),
    dict(name="dist_psi", file=_DB + "psi.py", cls="PSI", fn="_psi", params=dict(X=_VN, Y=_VN, num_bins=_f.INT)),
    dict(name="dist_hellinger", file=_DB + "hellinger_distance.py", cls="HellingerDistance", fn="_hellinger", params=dict(X=_VN, Y=_VN, num_bins=_f.INT, sqrt_div=_f.NUM)),
    dict(name="dist_bhattacharyya", file=_DB + "bhattacharyya_distance.py", cls="BhattacharyyaDistance", fn="_bhattacharyya", params=dict(X=_VN, Y=_VN, num_bins=_f.INT)),
    dict(name="dist_hi_normalized_complement", file=_DB + "hi_normalized_complement.py", cls="HINormalizedComplement", fn="_hi_normalized_complement", params=dict(X=_VN, Y=_VN, num_bins=_f.INT)),
]
_HR = _f.tup(_f.vec(_f.INT), _VN)  # (counts, bin edges)
FN_ORACLES["np.histogram"] = [
    # np.histogram(a, bins=<number of bins>): the range is the sample's own
    dict(coq="o_histogram_n", ty="list (num A) -> Z -> list Z * list (num A)", params=["a", "bins"], ptypes=[_VN, _f.INT], ret=_HR),
    # np.histogram(a, bins=<edges>)
    dict(coq="o_histogram_edges", ty="list (num A) -> list (num A) -> list Z * list (num A)", params=["a", "bins"], ptypes=[_VN, _VN], ret=_HR),
    # np.histogram(a, bins=<number of bins>, range=(lo, hi))
    dict(coq="o_histogram_range", ty="list (num A) -> Z -> num A * num A -> list Z * list (num A)", params=["a", "bins", "range"], ptypes=[_VN, _f.INT, _f.tup(_f.NUM, _f.NUM)], ret=_HR),
]
_SY = "frouros/datasets/synthetic.py"
FN_UNITS += [
    dict(name="sea_generate_sample", file=_SY, cls="SEA", fn="_generate_sample", params=dict(threshold=_f.NUM, noise=_f.NUM)),
    dict(name="dummy_generate_sample", file=_SY, cls="Dummy", fn="_generate_sample", params=dict(class_=_f.INT)),
]
# NumPy's GLOBAL generator: stateful, every call site is its own uninterpreted value
FN_ORACLES["np.random.uniform"] = dict(coq="o_random_uniform", ty="Z -> num A -> num A -> Z -> list (num A)", stateful=True, params=["low", "high", "size"], ptypes=[_f.NUM, _f.NUM, "shape1"], ret=_VN)
FN_ORACLES["np.random.random"] = dict(coq="o_random_random", ty="Z -> num A", stateful=True, params=[], ptypes=[], ret=_f.NUM)
FN_ORACLES["np.random.randint"] = dict(coq="o_random_randint", ty="Z -> Z -> Z", stateful=True, params=["low"], ptypes=[_f.INT], ret=_f.INT)
_IK = "frouros/detectors/data_drift/streaming/statistical_test/ks.py"
FN_UNITS += [
    dict(name="iks_calculate_statistic", file=_IK, cls="IncrementalKSTest", fn="_calculate_statistic", params=dict(X_ref=_VN, X=_VN)),
    dict(name="iks_calculate_p_value_aprox", file=_IK, cls="IncrementalKSTest", fn="_calculate_p_value_aprox", params=dict(X_ref_num_samples=_f.INT, X_num_samples=_f.INT, statistic=_f.NUM)),
    dict(name="iks_calculate_p_value_exact", file=_IK, cls="IncrementalKSTest", fn="_calculate_p_value_exact",
         params=dict(X_ref_num_samples=_f.INT, statistic=_f.NUM, gcd=_f.INT, window_size=_f.INT)),
    # the two keywords `_update` passes: gcd is an int whenever the exact branch is taken (it is None only above MAX_AUTO_N,
    # where it is not read)
    dict(name="iks_statistical_test", file=_IK, cls="IncrementalKSTest", fn="_statistical_test", params=dict(X_ref=_VN, X=_VN), kwargs=dict(gcd=_f.INT, window_size=_f.INT)),
]
FN_ORACLES["np.sort"] = dict(coq="o_np_sort", ty="list (num A) -> list (num A)", params=["a"], ptypes=[_VN], ret=_VN)
FN_ORACLES["np.round"] = dict(coq="o_np_round", ty="num A -> num A", params=["a"], ptypes=[_f.NUM], ret=_f.NUM)
FN_ORACLES["kstwo.sf"] = dict(coq="o_kstwo_sf", ty="num A -> num A -> num A", params=["x", "n"], ptypes=[_f.NUM, _f.NUM], ret=_f.NUM)
# SciPy's private exact-p-value routines; None = the call raised FloatingPointError / OverflowError under np.errstate
FN_ORACLES["_compute_prob_outside_square"] = dict(coq="o_prob_outside_square", ty="Z -> Z -> option (num A)", params=["n", "h"], ptypes=[_f.INT, _f.INT], ret=_f.opt(_f.NUM))
FN_ORACLES["_compute_outer_prob_inside_method"] = dict(coq="o_outer_prob_inside", ty="Z -> Z -> Z -> Z -> option (num A)", params=["m", "n", "g", "h"], ptypes=[_f.INT, _f.INT, _f.INT, _f.INT], ret=_f.opt(_f.NUM))
_KU = "frouros/detectors/data_drift/batch/statistical_test/kuiper_test.py"
FN_UNITS += [
    dict(name="kuiper_kuiper", file=_KU, cls="KuiperTest", fn="_kuiper", params=dict(X=_VN, Y=_VN)),
]
# scipy.stats.ks_2samp(data1=, data2=, alternative="two-sided") read as the pair (statistic, pvalue); the constant option is part of what the oracle stands for
FN_ORACLES["ks_2samp"] = dict(coq="o_ks_2samp_two_sided", ty="list (num A) -> list (num A) -> num A * num A", params=["data1", "data2"], ptypes=[_VN, _VN], ret=_f.tup(_f.NUM, _f.NUM), const_kw={"alternative": "two-sided"})
# KuiperTest._false_positive_probability(D, N): modelled in full in Model/Tests.v (kuiper_fpp), uninterpreted here
FN_ORACLES["KuiperTest._false_positive_probability"] = dict(coq="o_kuiper_fpp", ty="num A -> num A -> num A", params=["D", "N"], ptypes=[_f.NUM, _f.NUM], ret=_f.NUM)
FN_CONSTS = [(_PT, ["MAX_NUM_PERM"])]
FN_CONSTS_IKS = [(_IK, ["MAX_AUTO_N"])]
EQ.update({"C20": ["EqData.v"], "C11": ["EqIKS.v"], "C12": ["EqKuiper.v"]})
EQ.update({"C10": ["EqDist.v"]})
# property -> Eq files that are compiled against GFn.v
EQ.update({"C13": ["EqPerm.v"]})


# which units GFn.v holds when it is generated for one property's equivalence files (all of them for None)
FN_FOR = {"C13": ("perm_",), "C10": ("dist_",), "C20": ("sea_", "dummy_"), "C11": ("iks_",), "C12": ("kuiper_",)}


def translate_fns(repo, pid=None):
    """returns (coq text of GFn.v, {unit: error}, [oracle names])"""
    units = [u for u in FN_UNITS if pid is None or u["name"].startswith(FN_FOR.get(pid, ("",)))]
    tr = _f.FnTranslator(repo, units, FN_ORACLES, (FN_CONSTS if pid in (None, "C13") else []) + (FN_CONSTS_IKS if pid in (None, "C11") else [])).run()
    return tr.emit(), tr.errors, sorted(tr.used_oracles)


def translate(repo):
    """returns (coq text, {unit name: error}) -- a unit that cannot be translated is left out (fail-closed:
    the equivalence lemmas about it then do not compile)"""
    tr = Translator(repo, SPEC)
    errors = {}
    for c, m in UNITS:
        try:
            tr.gen(c, m)
        except Unsupported as e:
            errors[f"{c}.{m}"] = str(e)
        except RecursionError:
            errors[f"{c}.{m}"] = "recursion limit"
    return tr.emit("Source of: " + ", ".join(sorted({v[0] for v in tr.sources.values()}))), errors
