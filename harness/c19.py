"""C19 — configurations: out-of-domain values rejected, every accepted one is operable."""
from __future__ import annotations

import itertools
import math

import numpy as np

from detectors import BY_NAME, gen_ops
from lib import HEADER, Check, Ctor, check_props, coq_eval, fl, z

HDR19 = HEADER + "From FV Require Import Config.\n"
NAN, INF = math.nan, math.inf
OKERR = {"ValueError", "TypeError", "InvalidAverageRunLengthError"}


def around(b, lo_open=None):
    """just below / on / just above a float bound"""
    return [np.nextafter(b, -INF).item(), float(b), np.nextafter(b, INF).item()]


F_EXTRA = [NAN, INF, -INF, -1.0, 1e-300, 1e300]


def kind(v):
    if isinstance(v, float) and math.isnan(v):
        return "nan"
    if isinstance(v, float) and math.isinf(v):
        return "inf"
    if isinstance(v, bool):
        return "bool"
    if isinstance(v, (int, float)):
        return "number"
    return type(v).__name__


def num(v):
    return isinstance(v, (int, float)) and not isinstance(v, bool)


def ff(v):
    return fl(float(v))


class Spec:
    """One validated constructor: defaults, probe grid per parameter, documented domain (typed from the
    error messages, independent of the code), Coq expression of the model's validator."""

    name = ""
    defaults: dict = {}
    grid: dict = {}
    pairs: list = []  # parameter pairs tied by an ordering constraint: all grid x grid combinations
    det = None  # detector name in detectors.BY_NAME for the operability battery

    def build(self, p):
        raise NotImplementedError

    def documented(self, p):
        raise NotImplementedError

    def coq(self, p):
        raise NotImplementedError

    def modelable(self, p):
        """parameters whose types the model represents (numbers where numbers are expected)"""
        return True


def cd():
    import frouros.detectors.concept_drift as m

    return m


class SPC(Spec):
    name, det = "DDMConfig", "DDM"
    defaults = dict(warning_level=2.0, drift_level=3.0, min_num_instances=30)
    grid = dict(warning_level=around(0.0) + [2.0, 3.0, 2.5] + F_EXTRA, drift_level=around(0.0) + around(2.0) + [3.0] + F_EXTRA, min_num_instances=[-1, 0, 1, 2, 30])
    pairs = [("warning_level", "drift_level")]

    def build(self, p):
        return cd().DDMConfig(**p)

    def documented(self, p):
        w, d, n = p["warning_level"], p["drift_level"], p["min_num_instances"]
        return n >= 1 and w > 0 and d > 0 and d > w

    def coq(self, p):
        return f"acc_spc (A:=FloatA) {ff(p['warning_level'])} {ff(p['drift_level'])} {z(p['min_num_instances'])}"


class RDDMS(Spec):
    name, det = "RDDMConfig", "RDDM"
    defaults = dict(warning_level=1.773, drift_level=2.258, max_concept_size=40, min_concept_size=7, max_num_instances_warning=14, min_num_instances=3)
    grid = dict(warning_level=around(0.0) + [1.773, NAN], drift_level=around(1.773) + [NAN], max_concept_size=[-1, 0, 1, 7, 8, 40], min_concept_size=[-1, 0, 1, 2, 7], max_num_instances_warning=[-1, 0, 1, 14], min_num_instances=[0, 1, 3])
    pairs = [("min_concept_size", "max_concept_size")]

    def build(self, p):
        return cd().RDDMConfig(**p)

    def documented(self, p):
        return p["min_num_instances"] >= 1 and p["warning_level"] > 0 and p["drift_level"] > 0 and p["drift_level"] > p["warning_level"] and p["min_concept_size"] >= 1

    def coq(self, p):
        return f"acc_rddm (A:=FloatA) {ff(p['warning_level'])} {ff(p['drift_level'])} {z(p['min_num_instances'])} {z(p['max_concept_size'])} {z(p['min_concept_size'])} {z(p['max_num_instances_warning'])}"


class ECDDS(Spec):
    name, det = "ECDDWTConfig", "ECDDWT"
    defaults = dict(lambda_=0.2, average_run_length=400, warning_level=0.5, min_num_instances=30)
    grid = dict(lambda_=around(0.0) + around(1.0) + [0.2] + F_EXTRA, average_run_length=[99, 100, 101, 400, 1000, 0, -400, 500], warning_level=around(0.0) + around(1.0) + [0.5] + F_EXTRA, min_num_instances=[0, 1, 30])

    def build(self, p):
        return cd().ECDDWTConfig(**p)

    def documented(self, p):
        return p["min_num_instances"] >= 1 and p["average_run_length"] in (100, 400, 1000) and 0 <= p["lambda_"] <= 1 and 0 < p["warning_level"] < 1

    def coq(self, p):
        return f"acc_ecdd (A:=FloatA) {ff(p['lambda_'])} {ff(p['warning_level'])} {z(p['average_run_length'])} {z(p['min_num_instances'])}"


class EDDMS(Spec):
    name, det = "EDDMConfig", "EDDM"
    defaults = dict(alpha=0.95, beta=0.9, level=2.0, min_num_misclassified_instances=30)
    grid = dict(alpha=around(0.9) + [0.95, 1.0, 5.0, NAN, INF], beta=around(0.0) + around(0.95) + [0.9] + F_EXTRA, level=around(0.0) + [2.0] + F_EXTRA, min_num_misclassified_instances=[-1, 0, 1, 30])
    pairs = [("alpha", "beta")]

    def build(self, p):
        return cd().EDDMConfig(**p)

    def documented(self, p):
        return p["beta"] > 0 and p["beta"] < p["alpha"] and p["level"] > 0 and p["min_num_misclassified_instances"] >= 0

    def coq(self, p):
        return f"acc_eddm (A:=FloatA) {ff(p['alpha'])} {ff(p['beta'])} {ff(p['level'])} {z(p['min_num_misclassified_instances'])}"


class HDDMAS(Spec):
    name, det = "HDDMAConfig", "HDDMA"
    defaults = dict(alpha_d=0.001, alpha_w=0.005, two_sided_test=False, min_num_instances=30)
    grid = dict(alpha_d=around(0.0) + around(1.0) + around(0.005) + [0.001] + F_EXTRA, alpha_w=around(0.0) + around(1.0) + around(0.001) + [0.005] + F_EXTRA, two_sided_test=[True, False, 1, 0, None, "yes"], min_num_instances=[0, 1, 30])
    pairs = [("alpha_d", "alpha_w")]

    def build(self, p):
        return cd().HDDMAConfig(**p)

    def documented(self, p):
        return p["min_num_instances"] >= 1 and 0 < p["alpha_d"] <= 1 and 0 < p["alpha_w"] <= 1 and p["alpha_w"] > p["alpha_d"] and isinstance(p["two_sided_test"], bool)

    def coq(self, p):
        tb = "true" if isinstance(p["two_sided_test"], bool) else "false"
        return f"acc_hddma (A:=FloatA) {ff(p['alpha_d'])} {ff(p['alpha_w'])} {tb} {z(p['min_num_instances'])}"


class HDDMWS(HDDMAS):
    name, det = "HDDMWConfig", "HDDMW"
    defaults = dict(HDDMAS.defaults, lambda_=0.05)
    grid = dict(HDDMAS.grid, lambda_=around(0.0) + around(1.0) + [0.05] + F_EXTRA)

    def build(self, p):
        return cd().HDDMWConfig(**p)

    def documented(self, p):
        return HDDMAS.documented(self, p) and 0 < p["lambda_"] <= 1

    def coq(self, p):
        tb = "true" if isinstance(p["two_sided_test"], bool) else "false"
        return f"acc_hddmw (A:=FloatA) {ff(p['alpha_d'])} {ff(p['alpha_w'])} {tb} {ff(p['lambda_'])} {z(p['min_num_instances'])}"


class CUSUMS(Spec):
    name, det = "CUSUMConfig", "CUSUM"
    defaults = dict(delta=0.005, lambda_=50.0, min_num_instances=30)
    grid = dict(delta=around(0.0) + around(1.0) + [0.005] + F_EXTRA, lambda_=around(0.0) + [50.0] + F_EXTRA, min_num_instances=[0, 1, 30])

    def build(self, p):
        return cd().CUSUMConfig(**p)

    def documented(self, p):
        return p["min_num_instances"] >= 1 and p["lambda_"] >= 0 and 0 <= p["delta"] <= 1

    def coq(self, p):
        return f"acc_cusum (A:=FloatA) {ff(p['delta'])} {ff(p['lambda_'])} {z(p['min_num_instances'])}"


class PHS(Spec):
    name, det = "PageHinkleyConfig", "PageHinkley"
    defaults = dict(delta=0.005, lambda_=50.0, alpha=0.9999, min_num_instances=30)
    grid = dict(CUSUMS.grid, alpha=around(0.0) + around(1.0) + [0.9999] + F_EXTRA)

    def build(self, p):
        return cd().PageHinkleyConfig(**p)

    def documented(self, p):
        return p["min_num_instances"] >= 1 and p["lambda_"] >= 0 and 0 <= p["delta"] <= 1 and 0 <= p["alpha"] <= 1

    def coq(self, p):
        return f"acc_ph (A:=FloatA) {ff(p['delta'])} {ff(p['lambda_'])} {ff(p['alpha'])} {z(p['min_num_instances'])}"


class GMAS(Spec):
    name, det = "GeometricMovingAverageConfig", "GeometricMovingAverage"
    defaults = dict(alpha=0.99, lambda_=1.0, min_num_instances=30)
    grid = dict(alpha=around(0.0) + around(1.0) + [0.99] + F_EXTRA, lambda_=around(0.0) + [1.0] + F_EXTRA, min_num_instances=[0, 1, 30])

    def build(self, p):
        return cd().GeometricMovingAverageConfig(**p)

    def documented(self, p):
        return p["min_num_instances"] >= 1 and p["lambda_"] >= 0 and 0 <= p["alpha"] <= 1

    def coq(self, p):
        return f"acc_gma (A:=FloatA) {ff(p['alpha'])} {ff(p['lambda_'])} {z(p['min_num_instances'])}"


class ADWINS(Spec):
    name, det = "ADWINConfig", "ADWIN"
    defaults = dict(clock=32, delta=0.002, m=5, min_window_size=5, min_num_instances=10)
    grid = dict(clock=[-1, 0, 1, 2, 32], delta=around(0.0) + around(1.0) + [0.002] + F_EXTRA, m=[-1, 0, 1, 2, 5], min_window_size=[-1, 0, 1, 5], min_num_instances=[0, 1, 10])

    def build(self, p):
        return cd().ADWINConfig(**p)

    def documented(self, p):
        return p["min_num_instances"] >= 1 and p["clock"] >= 1 and 0 < p["delta"] < 1 and p["m"] >= 1 and p["min_window_size"] >= 1

    def coq(self, p):
        return f"acc_adwin (A:=FloatA) {z(p['clock'])} {ff(p['delta'])} {z(p['m'])} {z(p['min_window_size'])} {z(p['min_num_instances'])}"


class KSWINS(Spec):
    name, det = "KSWINConfig", "KSWIN"
    defaults = dict(alpha=0.0001, seed=None, min_num_instances=100, num_test_instances=30)
    grid = dict(alpha=around(0.0) + [0.0001, 0.5, 1.0, 2.0] + F_EXTRA, seed=[None, -1, 0, 7, 2**32 - 1, 2**32], min_num_instances=[0, 1, 2, 3, 10, 59, 60, 61, 100], num_test_instances=[-1, 0, 1, 2, 5, 6, 30, 49, 50, 51, 100, 101])
    pairs = [("min_num_instances", "num_test_instances")]

    def build(self, p):
        return cd().KSWINConfig(**p)

    def documented(self, p):
        s = p["seed"]
        return (s is None or 0 <= s < 2**32) and p["min_num_instances"] >= 1 and p["alpha"] > 0 and p["num_test_instances"] >= 1 and 2 * p["num_test_instances"] <= p["min_num_instances"]

    def coq(self, p):
        s = "None" if p["seed"] is None else f"(Some {z(p['seed'])})"
        return f"acc_kswin (A:=FloatA) {ff(p['alpha'])} {s} {z(p['min_num_instances'])} {z(p['num_test_instances'])}"


class STEPDS(Spec):
    name, det = "STEPDConfig", "STEPD"
    defaults = dict(alpha_d=0.003, alpha_w=0.05, min_num_instances=30)
    grid = dict(alpha_d=around(0.0) + around(0.05) + [0.003] + F_EXTRA, alpha_w=around(0.0) + around(0.003) + [0.05, 0.99] + F_EXTRA, min_num_instances=[0, 1, 30])
    pairs = [("alpha_d", "alpha_w")]

    def build(self, p):
        return cd().STEPDConfig(**p)

    def documented(self, p):
        return p["min_num_instances"] >= 1 and p["alpha_d"] > 0 and p["alpha_w"] > 0 and p["alpha_w"] > p["alpha_d"]

    def coq(self, p):
        return f"acc_stepd (A:=FloatA) {ff(p['alpha_d'])} {ff(p['alpha_w'])} {z(p['min_num_instances'])}"


class BOCDS(Spec):
    name, det = "BOCDConfig", "BOCD"
    defaults = dict(model="default", hazard=0.01, min_num_instances=30)
    grid = dict(model=["default", "gum", 3, "str"], min_num_instances=[0, 1, 30])

    def _model(self, m):
        from frouros.detectors.concept_drift.streaming.change_detection.bocd import GaussianUnknownMean

        return None if m == "default" else (GaussianUnknownMean(0.0, 1.0, 1.0) if m == "gum" else m)

    def build(self, p):
        return cd().BOCDConfig(model=self._model(p["model"]), hazard=p["hazard"], min_num_instances=p["min_num_instances"])

    def documented(self, p):
        return p["min_num_instances"] >= 1 and p["model"] in ("default", "gum")

    def coq(self, p):
        return f"acc_bocd {'true' if p['model'] in ('default', 'gum') else 'false'} {z(p['min_num_instances'])}"


class GUMS(Spec):
    name = "GaussianUnknownMean"
    defaults = dict(data_var=1.0)
    grid = dict(data_var=around(0.0) + [1.0] + F_EXTRA)

    def build(self, p):
        from frouros.detectors.concept_drift.streaming.change_detection.bocd import GaussianUnknownMean

        return GaussianUnknownMean(prior_mean=0.0, prior_var=1.0, data_var=p["data_var"])

    def documented(self, p):
        return p["data_var"] > 0

    def coq(self, p):
        return f"acc_gum (A:=FloatA) {ff(p['data_var'])}"


class RESETS(Spec):
    name = "ResetStatisticalTest"
    defaults = dict(alpha=0.05)
    grid = dict(alpha=around(0.0) + [0.05, 1.0, 5.0] + F_EXTRA)

    def build(self, p):
        from frouros.callbacks import ResetStatisticalTest

        return ResetStatisticalTest(alpha=p["alpha"])

    def documented(self, p):
        return p["alpha"] > 0

    def coq(self, p):
        return f"acc_reset (A:=FloatA) {ff(p['alpha'])}"


class PREQS(Spec):
    name = "PrequentialError"
    defaults = dict(alpha=1.0)
    grid = dict(alpha=around(0.0) + around(1.0) + [0.5, 1, 0, "a", None, [1.0]] + F_EXTRA)

    def build(self, p):
        from frouros.metrics import PrequentialError

        return PrequentialError(alpha=p["alpha"])

    def documented(self, p):
        a = p["alpha"]
        return isinstance(a, (int, float)) and 0 < a <= 1

    def modelable(self, p):
        return True

    def coq(self, p):
        a = p["alpha"]
        isn = isinstance(a, (int, float))
        return f"acc_preq (A:=FloatA) {'true' if isn else 'false'} {ff(a) if isn else ff(0.5)}"


class PERMS(Spec):
    name = "PermutationTestDistanceBased"
    defaults = dict(num_permutations=10, total_num_permutations=None, num_jobs=1, method="auto", verbose=False)
    grid = dict(
        num_permutations=[-1, 0, 1, 10, 10**6, 10**6 + 1],
        total_num_permutations=[None, -1, 0, 1, 10**6, 10**6 + 1],
        num_jobs=[-2, -1, 0, 1, 2],
        method=["auto", "conservative", "exact", "approximate", "estimate", "Exact", "", "other"],
        verbose=[True, False, 0, 1, None, "no"],
    )

    def build(self, p):
        from frouros.callbacks import PermutationTestDistanceBased

        return PermutationTestDistanceBased(**p)

    def documented(self, p):
        t = p["total_num_permutations"]
        return 1 <= p["num_permutations"] <= 10**6 and (t is None or 1 <= t <= 10**6) and (p["num_jobs"] == -1 or p["num_jobs"] >= 1) and p["method"] in ("auto", "conservative", "exact", "approximate", "estimate") and isinstance(p["verbose"], bool)

    def coq(self, p):
        t = p["total_num_permutations"]
        mok = p["method"] in ("auto", "conservative", "exact", "approximate", "estimate")
        return f"acc_perm {z(p['num_permutations'])} {'None' if t is None else '(Some ' + z(t) + ')'} {z(p['num_jobs'])} {'true' if mok else 'false'} {'true' if isinstance(p['verbose'], bool) else 'false'}"


class CHUNKS(Spec):
    name = "MMD.chunk_size"
    defaults = dict(chunk_size=None)
    grid = dict(chunk_size=[None, -1, 0, 1, 2, 100, 1.5, "3", 2.0])

    def build(self, p):
        from frouros.detectors.data_drift import MMD

        return MMD(chunk_size=p["chunk_size"])

    def documented(self, p):
        c = p["chunk_size"]
        return c is None or (isinstance(c, int) and c > 0)

    def coq(self, p):
        c = p["chunk_size"]
        return "acc_chunk " + ("ChunkNone" if c is None else (f"(ChunkInt {z(c)})" if isinstance(c, int) else "ChunkOther"))


class GE1(Spec):
    grid = dict(v=[-1, 0, 1, 2, 10])
    defaults = dict(v=5)

    def __init__(self, name, ctor):
        self.name, self.ctor = name, ctor

    def build(self, p):
        return self.ctor(p["v"])

    def documented(self, p):
        return p["v"] >= 1

    def coq(self, p):
        return f"acc_ge1 {z(p['v'])}"


def ge1_specs():
    import frouros.detectors.data_drift as dd

    out = []
    for nm in ["PSI", "HellingerDistance", "BhattacharyyaDistance", "HINormalizedComplement", "JS", "KL"]:
        cls = getattr(dd, nm)
        out.append(GE1(f"{nm}.num_bins", lambda v, cls=cls: cls(num_bins=v)))
    out.append(GE1("MMDStreaming.window_size", lambda v: dd.MMDStreaming(window_size=v)))
    out.append(GE1("IncrementalKSTest.window_size", lambda v: dd.IncrementalKSTest(window_size=v)))
    return out


def specs():
    return [SPC(), RDDMS(), ECDDS(), EDDMS(), HDDMAS(), HDDMWS(), CUSUMS(), PHS(), GMAS(), ADWINS(), KSWINS(), STEPDS(), BOCDS(), GUMS(), RESETS(), PREQS(), PERMS(), CHUNKS()] + ge1_specs()


# --------------------------------------------------------------------------- operability batteries


def operate(spec: Spec, p, obj, rng):
    """Run an accepted configuration on in-domain inputs; returns (error or None, what)."""
    import frouros.detectors.data_drift as dd

    if spec.det is not None:
        det = BY_NAME[spec.det]
        try:
            d = getattr(cd(), spec.det)(config=obj)
        except Exception as e:  # noqa: BLE001
            return e, dict(what="detector construction with the accepted configuration")
        warm = {"KSWIN": p.get("min_num_instances", 1), "STEPD": 2 * p.get("min_num_instances", 1), "RDDM": p.get("min_concept_size", 1) + p.get("max_concept_size", 1)}.get(spec.det, p.get("min_num_instances", p.get("min_num_misclassified_instances", 1)))
        n = int(min(max(3 * max(warm, 1) + 20, 40), 260 if spec.det != "BOCD" else 40))
        for k in range(3):
            ops = gen_ops(rng, det, p, n, resets=(k == 2))
            for i, o in enumerate(ops):
                try:
                    d.reset() if o == "R" else d.update(value=o)
                except Exception as e:  # noqa: BLE001
                    return e, dict(ops=ops[: i + 1])
        return None, None
    nprng = np.random.RandomState(rng.randrange(2**31))
    X, Y = nprng.normal(0, 1, 30), nprng.normal(0.5, 1, 25)
    try:
        if spec.name == "PrequentialError":
            for e in [0, 1, 1, 0, 0.5, 1]:
                obj(error_value=e)
        elif spec.name == "MMD.chunk_size" or spec.name.endswith(".num_bins"):
            obj.fit(X=X)
            obj.compare(X=Y)
        elif spec.name.endswith(".window_size"):
            obj.fit(X=X)
            for v in Y[:12]:
                obj.update(value=float(v))
        elif spec.name == "ResetStatisticalTest":
            d = dd.KSTest(callbacks=[obj])
            d.fit(X=X)
            d.compare(X=Y)
        elif spec.name == "PermutationTestDistanceBased":
            if p["num_permutations"] <= 20 and (p["num_jobs"] in (1, 2)):
                d = dd.EMD(callbacks=[obj])
                d.fit(X=X[:8])
                d.compare(X=Y[:8])
    except Exception as e:  # noqa: BLE001
        return e, dict(what="battery of fit/compare/update calls")
    return None, None


def outcome(spec, p):
    try:
        return "ok", spec.build(p)
    except Exception as e:  # noqa: BLE001
        return type(e).__name__, e


def run(ck: Check):
    import logging

    logging.getLogger("frouros").setLevel(logging.WARNING)
    rng = ck.rng
    thorough = ck.tier == "thorough"
    ck.rule(
        "per validated constructor (18 classes + 8 num_bins/window_size sites): every parameter swept over its boundary grid (just outside / on / just inside each bound, NaN, +-inf, extreme "
        "magnitudes, wrong types where a type is checked) with the others at their defaults; all grid x grid combinations for the parameter pairs tied by an ordering constraint; random "
        "combinations; acceptance compared with the domain typed from the error messages (independent of the code) and with the Coq validator run in binary64; every accepted configuration is "
        "then run on in-domain streams long enough to fill every window (3 streams, one with resets) or a fit/compare/update battery; plus runs of 650-1000 values with several level changes and no reset (ADWIN with m = 1, 2; every other detector); non-trivial = a rejected configuration, or an accepted one on a bound"
    )
    cases = []
    for spec in specs():
        seen = set()
        combos = []
        for k, vals in spec.grid.items():
            for v in vals:
                combos.append((dict(spec.defaults, **{k: v}), k))
        for a, b_ in spec.pairs:
            for va, vb in itertools.product(spec.grid[a], spec.grid[b_]):
                combos.append((dict(spec.defaults, **{a: va, b_: vb}), f"{a}*{b_}"))
        for _ in range(20 if not thorough else 200):
            combos.append(({k: rng.choice(v) for k, v in spec.grid.items()} | {k: v for k, v in spec.defaults.items() if k not in spec.grid}, "random"))
        for p, varied in combos:
            key = repr(sorted(p.items(), key=lambda kv: kv[0]))
            if key in seen:
                continue
            seen.add(key)
            res, obj = outcome(spec, p)
            try:
                doc = bool(spec.documented(p))
            except TypeError:
                doc = False  # a value of the wrong type is outside every documented domain
            ck.count(f"{spec.name}:{'accepted' if res == 'ok' else 'rejected'}")
            ck.case(dict(cls=spec.name, params=p, outcome=res), nontrivial=(res != "ok") or varied != "random", key=spec.name + key)
            detail = dict(cls=spec.name, params=p, varied=varied, outcome=res)
            vk = sorted({kind(v) for k, v in p.items() if v != spec.defaults.get(k, object()) or kind(v) in ("nan",)} & {"nan"})
            if res == "ok" and not doc:
                bad = [k for k in p if kind(p[k]) == "nan"]
                sig = dict(clause="accepts-outside-domain", cls=spec.name, param=varied if varied != "random" else "combo")
                if bad:
                    sig = dict(clause="accepts-outside-domain", cls=spec.name, value="nan", param="+".join(sorted(bad)))
                ck.violation(sig, dict(what="a value outside the documented domain is accepted", **detail))
            elif res != "ok" and doc:
                ck.violation(dict(clause="rejects-inside-domain", cls=spec.name, param=varied), dict(what="a value inside the documented domain is rejected", error=repr(obj), **detail))
            elif res != "ok" and res not in OKERR:
                ck.violation(dict(clause="error-type", cls=spec.name, error=res), dict(what="rejected with an exception that is neither ValueError/TypeError nor the dedicated error", error=repr(obj), **detail))
            if res == "ok":
                err, where = operate(spec, p, obj, rng)
                if err is not None:
                    ck.violation(dict(clause="operable", cls=spec.name, error=type(err).__name__), dict(what="an accepted configuration raised on in-domain input", error=repr(err), where=where, **detail))
            # correspondence with the Coq validator where the model represents the argument types
            try:
                expr = spec.coq(p)
            except (TypeError, ValueError):
                continue
            cases.append((spec.name, p, res, expr))
    # the same domains through the PUBLIC SETTERS of an existing configuration object (built with the defaults)
    ck.rule("setters: every grid value of every scalar parameter assigned to a default-built configuration object; accepted <-> the resulting combination is inside the documented domain (ordering constraints included)")
    for spec in specs():
        try:
            base = spec.build(dict(spec.defaults))
        except Exception:  # noqa: BLE001
            continue
        for k, vals in spec.grid.items():
            if not hasattr(base, k) or isinstance(spec.defaults.get(k), str):
                continue
            for v in vals:
                p = dict(spec.defaults, **{k: v})
                try:
                    doc = bool(spec.documented(p))
                except TypeError:
                    doc = False
                obj = spec.build(dict(spec.defaults))
                try:
                    setattr(obj, k, v)
                    res = "ok"
                except Exception as e:  # noqa: BLE001
                    res = type(e).__name__
                ck.case(dict(cls=spec.name, param=k, value=repr(v), outcome=res, kind="setter"), nontrivial=res != "ok", key=repr(("setter", spec.name, k, repr(v))))
                ck.count("setter_assignments")
                detail = dict(cls=spec.name, param=k, value=repr(v), defaults={a: repr(b_) for a, b_ in spec.defaults.items()}, outcome=res)
                if res == "ok" and not doc:
                    if kind(v) == "nan":
                        sig = dict(clause="accepts-outside-domain", cls=spec.name, value="nan", param=k)
                    else:
                        sig = dict(clause="setter-accepts-outside-domain", cls=spec.name, param=k)
                    ck.violation(sig, dict(what="assigning the value through the public setter of an existing configuration is accepted although the resulting configuration is outside the documented domain", **detail))
                elif res != "ok" and doc:
                    ck.violation(dict(clause="setter-rejects-inside-domain", cls=spec.name, param=k), dict(what="the setter rejects a value the constructor's documented domain contains", **detail))
                elif res != "ok" and res not in OKERR:
                    ck.violation(dict(clause="error-type", cls=spec.name, error=res, via="setter"), dict(what="setter rejected with an exception that is neither ValueError/TypeError nor the dedicated error", **detail))
    # long multi-regime runs (several detections in a row, no reset): ADWIN with one or two buckets per row (rows
    # empty out and are dropped in cascades), and every other detector at its defaults and at a small boundary config
    long_cfgs = [("ADWIN", dict(clock=1, delta=0.002, m=1, min_window_size=2, min_num_instances=3)),
                 ("ADWIN", dict(clock=1, delta=0.05, m=1, min_window_size=1, min_num_instances=1)),
                 ("ADWIN", dict(clock=2, delta=0.002, m=2, min_window_size=1, min_num_instances=5)),
                 ("ADWIN", dict(clock=32, delta=0.002, m=5, min_window_size=5, min_num_instances=10))]
    for name in ("DDM", "EDDM", "RDDM", "ECDDWT", "HDDMA", "HDDMW", "KSWIN", "STEPD", "CUSUM", "PageHinkley", "GeometricMovingAverage"):
        long_cfgs.append((name, None))
    for name, cfgd in long_cfgs:
        det = BY_NAME[name]
        for k in range(2 if not thorough else 6):
            cfgx = dict(cfgd) if cfgd is not None else det.gen_cfg(rng)
            segs = [(0.0, 50), (1.0, 300), (0.0, 300)] if k == 0 else [(rng.choice([0.0, 1.0, 0.2, 0.8]), rng.choice([40, 120, 260])) for _ in range(4)]
            if det.domain == "01":
                xs = [int(rng.random() < lvl) if 0 < lvl < 1 else int(lvl) for lvl, ln in segs for _ in range(ln)]
            else:
                xs = [lvl + (rng.gauss(0, 0.02) if k else 0.0) for lvl, ln in segs for _ in range(ln)]
                xs = [min(1.0, abs(v)) if det.domain == "unit" else abs(v) for v in xs]
            try:
                d = det.make(cfgx)
            except Exception:  # noqa: BLE001
                continue
            ck.case(dict(cls=name, params=cfgx, kind="long-multi-regime", n=len(xs)), nontrivial=True, key=repr(("long", name, cfgx, k)))
            ck.count("long_multi_regime_runs")
            for i, v in enumerate(xs):
                try:
                    d.update(value=v)
                except Exception as e:  # noqa: BLE001
                    ck.violation(dict(clause="operable", cls=name + "Config", error=type(e).__name__, regime="long"), dict(what="an accepted configuration raised on an in-domain stream with several level changes", cls=name, params=cfgx, error=repr(e), step=i, segments=segs, stream_head=xs[:5]))
                    break
    # values NEXT TO the members of a finite admissible set (ECDD-WT's average_run_length is one of 100 / 400 / 1000): a
    # fractional neighbour or a string / bytes spelling of a member is not a member (deterministic, own generator)
    import random as _random

    xrng = _random.Random(191919)
    for spec in specs():
        if spec.name != "ECDDWTConfig":
            continue
        for v in (100.5, 400.5, 1000.25, 99.99999, "400", b"1000", None):
            pr = dict(spec.defaults, average_run_length=v)
            resx, obj = outcome(spec, pr)
            ck.case(dict(cls=spec.name, params={k: repr(x) for k, x in pr.items()}, outcome=resx, kind="next-to-a-member"), nontrivial=resx != "ok", key=repr(("member", spec.name, repr(v))))
            ck.count("finite_set_neighbour_cases")
            detail = dict(cls=spec.name, param="average_run_length", value=repr(v), outcome=resx)
            if resx == "ok":
                err, where = operate(spec, pr, obj, xrng)
                ck.violation(dict(clause="accepts-outside-domain", cls=spec.name, param="average_run_length", value="non-member"),
                             dict(what="a value that is not one of the admissible members is accepted" + ("; the detector then raises on in-domain input" if err is not None else ""), then=repr(err), **detail))
            elif resx not in OKERR:
                ck.violation(dict(clause="error-type", cls=spec.name, error=resx, param="average_run_length"), dict(what="rejected with an exception that is neither ValueError/TypeError nor the dedicated error", **detail))
    # every NUMERIC parameter of every validated constructor, (a) given as a numeric STRING / bytes ("50", b"50", "1e-3": wrong
    # types, to be rejected), (b) given its default value carried by a NumPy scalar of another type (float32 / float16 for
    # floats, int64 / uint8 for ints): either rejected, or accepted AND operable (deterministic, own generator)
    for spec in specs():
        for k, dv in spec.defaults.items():
            if isinstance(dv, bool) or not isinstance(dv, (int, float)):
                continue
            for v in ("50", b"50", "1e-3", "0.5"):
                pr = dict(spec.defaults, **{k: v})
                resx, obj = outcome(spec, pr)
                ck.case(dict(cls=spec.name, param=k, value=repr(v), outcome=resx, kind="numeric-string"), nontrivial=resx != "ok", key=repr(("numstr", spec.name, k, repr(v))))
                ck.count("numeric_string_cases")
                if resx == "ok":
                    ck.violation(dict(clause="accepts-outside-domain", cls=spec.name, param=k, value="numeric-string"), dict(what="a string / bytes spelling of a number is accepted for a numeric parameter", cls=spec.name, param=k, value=repr(v)))
                elif resx not in OKERR:
                    ck.violation(dict(clause="error-type", cls=spec.name, error=resx, param=k, value="numeric-string"), dict(what="rejected with an exception that is neither ValueError/TypeError nor the dedicated error", cls=spec.name, param=k, value=repr(v), outcome=resx))
            carriers = (np.float32, np.float16) if isinstance(dv, float) else (np.int64, np.uint8)
            for dt in carriers:
                try:
                    tv = dt(dv)
                except Exception:  # noqa: BLE001
                    continue
                if float(tv) != float(dv) and not isinstance(dv, float):
                    continue
                pr = dict(spec.defaults, **{k: tv})
                resx, obj = outcome(spec, pr)
                ck.case(dict(cls=spec.name, param=k, value=repr(tv), carrier=dt.__name__, outcome=resx, kind="numpy-carrier"), nontrivial=True, key=repr(("carrier", spec.name, k, dt.__name__)))
                ck.count("numpy_carrier_cases")
                if resx == "ok":
                    err, where = operate(spec, pr, obj, xrng)
                    if err is not None and isinstance(where, dict) and "construction" in str(where.get("what", "")) and type(err).__name__ in OKERR:
                        ck.count("numpy_carrier_rejected_by_the_detector_constructor")   # a constructor rejecting with TypeError / ValueError is a rejection
                    elif err is not None:
                        ck.violation(dict(clause="operable", cls=spec.name, error=type(err).__name__, param=k, carrier=dt.__name__), dict(what="a parameter value carried by a NumPy scalar is accepted, but the object then raises on in-domain input", cls=spec.name, param=k, value=repr(tv), error=repr(err), where=where))
                elif resx not in OKERR:
                    ck.violation(dict(clause="error-type", cls=spec.name, error=resx, param=k, carrier=dt.__name__), dict(what="rejected with an exception that is neither ValueError/TypeError nor the dedicated error", cls=spec.name, param=k, value=repr(tv), outcome=resx))
    # the detector constructors' own `config` parameter: documented as an instance of the detector's configuration class
    # (or None); anything else - a string, a dict, a number, the configuration CLASS, another detector's configuration -
    # is outside that domain and has to be rejected (deterministic)
    import frouros.detectors.concept_drift as _cdm

    dnames = ["ADWIN", "BOCD", "CUSUM", "DDM", "ECDDWT", "EDDM", "GeometricMovingAverage", "HDDMA", "HDDMW", "KSWIN", "PageHinkley", "RDDM", "STEPD"]
    for i, dn in enumerate(dnames):
        dcls = getattr(_cdm, dn)
        other = getattr(_cdm, dnames[(i + 5) % len(dnames)] + "Config")
        for label, mk in (("str", lambda: "config"), ("dict", lambda: {"min_num_instances": 5}), ("int", lambda: 5), ("the configuration class itself", lambda: dcls.config_type),
                          (other.__name__ + " instance", lambda: other())):
            for via in ("constructor", "setter"):
                try:
                    if via == "constructor":
                        dcls(config=mk())
                    else:
                        dd_ = dcls()
                        dd_.config = mk()
                    resx = "ok"
                except Exception as e:  # noqa: BLE001
                    resx = type(e).__name__
                ck.case(dict(cls=dn, param="config", value=label, via=via, outcome=resx), nontrivial=resx != "ok", key=repr(("cfgtype", dn, label, via)))
                ck.count("config_object_type_cases")
                if resx == "ok":
                    ck.violation(dict(clause="accepts-outside-domain", cls=dn, param="config", value=label if "instance" not in label else "sibling-config"),
                                 dict(what="the detector accepts as its configuration an object that is not an instance of its configuration class", cls=dn, value=label, via=via))
                elif resx not in OKERR:
                    ck.violation(dict(clause="error-type", cls=dn, error=resx, param="config"), dict(what="a configuration object of the wrong type is rejected with an exception that is neither ValueError nor TypeError", cls=dn, value=label, via=via, outcome=resx))
    res = coq_eval("C19", HDR19, [c[3] for c in cases], shard=400)
    for (name, p, im, _), r in zip(cases, res):
        ck.corr_cases += 1
        mo = "ok" if (isinstance(r, Ctor) and r.name == "Ok") else (r.args[0].name if isinstance(r, Ctor) else str(r))
        if mo != im:
            # TypeError raised by Python's comparison of a non-number is outside the model's typing
            ck.mismatch(f"model validator vs {name}", dict(cls=name, params=p, model=mo, impl=im))


def main(tier, seed):
    ck = Check("C19", tier, seed)
    ck.proof = check_props("C19")
    ck.assumptions = [
        "'documented domain' = what the validator's own error messages state (the docstrings state no domains); theorems are over R and Z, the same validators run in binary64 against the code",
        "operability is proved for the configuration-dependent raise sites of the update path (ADWIN clock, KSWIN draw, RDDM queue, HDDM-W log(1/lambda_)); guards on computed statistics "
        "(setters rejecting negative values) are exercised by the per-run battery and by C01/C05's streams, not proved (rounding is outside the R theorems)",
        "parameters with no stated domain (EDDM alpha, RDDM max_concept_size / max_num_instances_warning, BOCD hazard, GaussianUnknownMean prior_mean / prior_var, KSWIN alpha above 1) accept anything: nothing to reject",
    ]
    run(ck)
    return ck.finish()
