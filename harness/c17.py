"""C17 — history callback records faithfully, never interferes; reset fires iff p <= alpha."""
from __future__ import annotations

import copy
import math

import numpy as np

from detectors import ALL, HDR, KSWINDet, coq_cfg_pos, coq_D, gen_ops, obs_fn, run_impl, run_kswin
from lib import Check, Ctor, check_props, close, coq_eval, fl, z

HDR17 = HDR + "From FV Require Import Callbacks HistRun.\nOpen Scope string_scope.\n"

# tracked-variable name of every entry of the model's obs statistics list ("" = not a tracked scalar)
NAMES = {
    "CUSUM": ["mean_error_rate", "sum_"],
    "PageHinkley": ["mean_error_rate", "sum_"],
    "GeometricMovingAverage": ["mean_error_rate", "sum_"],
    "DDM": ["error_rate", "min_error_rate", "min_std"],
    "RDDM": ["error_rate", "min_error_rate", "min_std", "num_warnings", "rddm_drift", ""],
    "EDDM": ["mean_distance_error", "std_distance_error", "variance_distance_error", "max_distance_threshold", "num_misclassified_instances", "last_distance_error"],
    "ECDDWT": ["p", "z"],
    "HDDMA": [],
    "HDDMW": [],
    "ADWIN": ["width", "total", "variance"],
    "KSWIN": [],
    "STEPD": ["correct_total"],
    "BOCD": ["predicted_mean", "predicted_var"],
}


def scalar(v):
    """Snapshot of a tracked value if it is a scalar statistic, else a marker."""
    if v is None:
        return math.nan
    if isinstance(v, (bool, np.bool_)):
        return float(bool(v))
    if isinstance(v, (int, float, np.integer, np.floating)):
        return float(v)
    return "obj"


def feq(a, b):
    if a == "obj" or b == "obj":
        return a == b
    return (math.isnan(a) and math.isnan(b)) or a == b


def run_history(ck: Check, det, cfg, ops):
    """Run the implementation with a HistoryConceptDrift attached, checking the property after
    every operation.  Returns (levels, final history snapshot per step, samples) or None on violation."""
    from frouros.callbacks import HistoryConceptDrift
    from frouros.utils.stats import BaseStat

    levels = []
    orig = HistoryConceptDrift.add_additional_vars

    def rec(self, vars_):
        levels.append([str(v) for v in vars_])
        return orig(self, vars_)

    HistoryConceptDrift.add_additional_vars = rec
    try:
        cb = HistoryConceptDrift(name="hist")
        d = det.make(cfg, callbacks=[cb])
    finally:
        HistoryConceptDrift.add_additional_vars = orig
    base = dict(detector=det.name, config=cfg)
    if len(set(cb.additional_vars)) != len(cb.additional_vars):
        ck.violation(dict(clause="one-entry-per-update", detector=det.name, cause="duplicate-registration"), dict(what="a variable is registered more than once", additional_vars=list(cb.additional_vars), levels=levels, **base))
        return None
    if set(cb.additional_vars) != set(d.additional_vars.keys()):
        ck.violation(dict(clause="tracked-variables", detector=det.name), dict(what="the history callback does not track exactly the detector's additional variables", tracked=sorted(cb.additional_vars), detector_vars=sorted(d.additional_vars.keys()), callback_name="hist", **base))
        return None
    plain = det.make(cfg)  # the same detector without the callback (non-interference)
    recorded = {}  # key -> list of snapshots taken at record time
    upd = 0
    samples = []
    snaps = []
    rec_draws = None
    if isinstance(det, KSWINDet):
        from detectors import ChoiceRecorder

        rec_draws = ChoiceRecorder()
        rec_draws.__enter__()
    try:
        for i, o in enumerate(ops):
            detail = dict(ops=ops[: i + 1], step=i, **base)
            if o == "R":
                d.reset()
                plain.reset()
                upd = 0
                recorded = {}
                if any(len(v) for v in cb.history.values()):
                    ck.violation(dict(clause="reset-empties", detector=det.name), dict(what="history not empty after reset", lengths={k: len(v) for k, v in cb.history.items()}, **detail))
                    return None
            else:
                if rec_draws is not None:
                    st = np.random.get_state()
                    before = len(rec_draws.draws)
                logs = d.update(value=o)
                if rec_draws is not None:
                    samples.append(rec_draws.draws[-1] if len(rec_draws.draws) > before else None)
                    np.random.set_state(st)  # the twin must see the same generator state
                plain.update(value=o)
                upd += 1
                # logs returned by update are the history
                if set(logs) != {"hist"} or logs["hist"] is not cb.logs or any(logs["hist"].get(k) is not v for k, v in cb.history.items()):
                    ck.violation(dict(clause="logs-are-history", detector=det.name), dict(what="logs returned by update are not the callback's history", **detail))
                    return None
                cur = {"value": scalar(o), "num_instances": float(d.num_instances), "drift": float(bool(d.drift))}
                for k in cb.additional_vars:
                    v = d.additional_vars[k]
                    cur[k] = scalar(v.get() if isinstance(v, BaseStat) else v)
                if set(cb.history) != {"value", "num_instances", "drift"} | set(d.additional_vars.keys()):
                    ck.violation(dict(clause="tracked-variables", detector=det.name, when="after-updates"), dict(what="the history no longer holds one list per tracked variable (value, num_instances, drift and the detector's additional variables)", history_keys=sorted(cb.history), detector_vars=sorted(d.additional_vars.keys()), **detail))
                    return None
                for k, lst in cb.history.items():
                    if len(lst) != upd:
                        ck.violation(dict(clause="one-entry-per-update", detector=det.name), dict(what=f"history[{k!r}] has {len(lst)} entries after {upd} updates since reset", **detail))
                        return None
                    got = scalar(lst[-1].get() if isinstance(lst[-1], BaseStat) else lst[-1])
                    if k in cur and not feq(got, cur[k]):
                        ck.violation(dict(clause="entry-content", detector=det.name, var=k), dict(what=f"entry {upd} of history[{k!r}] is not the value right after update {upd}", got=got, expected=cur[k], **detail))
                        return None
                    recorded.setdefault(k, []).append(got)
            # earlier scalar entries must not have changed since they were recorded
            for k, lst in cb.history.items():
                now = [scalar(x.get() if isinstance(x, BaseStat) else x) for x in lst]
                if any(a != "obj" and not feq(a, b_) for a, b_ in zip(recorded.get(k, []), now)):
                    ck.violation(dict(clause="entry-content", detector=det.name, var=k, cause="aliasing"), dict(what=f"earlier entries of history[{k!r}] changed after being recorded", recorded=recorded.get(k), now=now, **detail))
                    return None
            # non-interference: the detector with the callback behaves as the one without
            a, b_ = det.observe(d), det.observe(plain)
            if a[:3] != b_[:3] or any(not feq(scalar(x), scalar(y)) for x, y in zip(a[3], b_[3])):
                ck.violation(dict(clause="non-interference", detector=det.name), dict(what="attaching the history callback changed the detector", with_callback=a, without=b_, **detail))
                return None
            snaps.append({k: list(v) for k, v in recorded.items()})
    except Exception as e:  # noqa: BLE001
        ck.violation(dict(clause="raises", detector=det.name, error=type(e).__name__), dict(error=repr(e), ops=ops, **base))
        return None
    finally:
        if rec_draws is not None:
            rec_draws.__exit__(None, None, None)
    final = {k: [scalar(x.get() if isinstance(x, BaseStat) else x) for x in v] for k, v in cb.history.items()}
    return levels, list(cb.additional_vars), final, samples


def coq_strs(xs):
    return "[" + "; ".join('"%s"' % x for x in xs) + "]"


def run_streaming(ck: Check):
    rng = ck.rng
    thorough = ck.tier == "thorough"
    ck.rule(
        "13 streaming detectors x generated configuration x structured stream with resets, HistoryConceptDrift attached: after every operation every history list must have one "
        "entry per update since reset, the newest entry equal the input / counter / flags / scalar statistics read off the detector at that moment, earlier entries unchanged, "
        "logs identical to the history, history empty after reset, and a twin detector without the callback must stay equal; the registration levels and the final history are "
        "compared with the Coq model (sys_exec over the FloatA detector model); non-trivial = the history holds an alarm or a reset occurred"
    )
    cases, exprs = [], []
    for det in ALL:
        for _ in range(6 if not thorough else 40):
            cfg = det.gen_cfg(rng)
            n = rng.choice([6, 15, 40])
            if det.name == "BOCD":
                n = min(n, 25)
            ops = gen_ops(rng, det, cfg, n)
            r = run_history(ck, det, cfg, ops)
            ck.count(f"cases_{det.name}")
            ck.count("ops", len(ops))
            if r is None:
                ck.case(dict(detector=det.name, config=cfg, ops_head=ops[:8]), nontrivial=True, key=repr((det.name, cfg, ops)))
                continue
            levels, tracked, final, samples = r
            ntriv = ("R" in ops) or any(final.get("drift", [])) or any(final.get("warning", []))
            ck.case(dict(detector=det.name, config=cfg, n_ops=len(ops), tracked=tracked, history_len=len(final["value"])), nontrivial=ntriv, key=repr((det.name, cfg, ops)))
            opsx = det.coq_ops_samples(ops, samples) if isinstance(det, KSWINDet) else det.coq_ops(ops)
            lv = "[" + "; ".join(coq_strs(l) for l in levels) + "]"
            exprs.append(f"(register {lv}, run_hist {coq_D(det)} {obs_fn(det)} {coq_strs(NAMES[det.name])} {coq_cfg_pos(det, cfg)} (register {lv}) ({opsx}))")
            cases.append((det, cfg, ops, tracked, final))
    # (own generator: independent of the draws above)
    import random as _random
    from frouros.callbacks import HistoryConceptDrift as _H
    from frouros.detectors.concept_drift import ADWIN as _ADWIN, CUSUM as _CUSUM, DDM as _DDM, PageHinkley as _PH

    prng = _random.Random(171717)
    # (i) the recorded input is the input VALUE itself, whatever its type: integers a double cannot hold, NumPy scalars
    for cls in (_PH, _CUSUM):
        big = [2**53 + 1 + 2 * j for j in range(6)] + [np.int64(2**60 + 3), np.float32(0.1), 7, 0.25]
        cb = _H(name="h")
        d = cls(callbacks=[cb])
        ok = True
        for j, v in enumerate(big, 1):
            try:
                d.update(value=v)
            except Exception as e:  # noqa: BLE001
                ck.violation(dict(clause="raises", detector=cls.__name__, scenario="exact-values"), dict(error=repr(e), values=[repr(x) for x in big[:j]]))
                ok = False
                break
            got = cb.history["value"][-1]
            if len(cb.history["value"]) != j or not (got == v and (isinstance(got, (int, np.integer)) == isinstance(v, (int, np.integer)))):
                ck.violation(dict(clause="entry-content", detector=cls.__name__, var="value", cause="converted"), dict(what="the recorded input is not the value that was passed to update (exact integer / NumPy scalar changed on the way)", passed=repr(v), recorded=repr(got), step=j))
                ok = False
                break
        ck.case(dict(kind="exact-values", detector=cls.__name__), nontrivial=True, key=repr(("exact-values", cls.__name__)))
        ck.count("exact_value_runs")
    # (ii) several callbacks alive at once (two detectors of different classes, interleaved): the logs an update returns
    # hold that detector's callback only, and that callback's history
    for k in range(3 if not thorough else 12):
        ca, cbb = _H(name="a"), _H(name="b")
        da, db = _DDM(callbacks=[ca]), _ADWIN(callbacks=[cbb])
        na = nb = 0
        for j in range(prng.choice([8, 20])):
            if prng.random() < 0.5:
                logs, who, cbx, dx = da.update(value=prng.choice([0, 1])), "a", ca, da
                na += 1
                cnt = na
            else:
                logs, who, cbx, dx = db.update(value=prng.random()), "b", cbb, db
                nb += 1
                cnt = nb
            bad = None
            if set(logs) != {who}:
                bad = f"logs returned by detector {who!r} hold the keys {sorted(logs)}"
            elif any(logs[who].get(key) is not val for key, val in cbx.history.items()) or set(logs[who]) != set(cbx.history):
                bad = "logs are not that callback's history"
            elif set(cbx.history) != {"value", "num_instances", "drift"} | set(dx.additional_vars.keys()):
                bad = f"history keys {sorted(cbx.history)} are not the detector's variables"
            elif any(len(v) != cnt for v in cbx.history.values()):
                bad = "history lengths differ from the number of updates of that detector"
            if bad:
                ck.violation(dict(clause="logs-are-history", scenario="two-callbacks"), dict(what=bad, step=j, detectors=["DDM", "ADWIN"]))
                break
        ck.case(dict(kind="two-callbacks", run=k), nontrivial=True, key=repr(("two-callbacks", k)))
        ck.count("two_callback_runs")
    res = coq_eval("C17", HDR17, exprs, shard=40)
    for (det, cfg, ops, tracked, final), r in zip(cases, res):
        ck.corr_cases += 1
        reg, (ninst, drift, hvars) = r[0], r[1]
        detail = dict(detector=det.name, config=cfg, ops=ops)
        if list(reg) != tracked:
            ck.mismatch("model register vs HistoryConceptDrift.additional_vars", dict(model=list(reg), impl=tracked, **detail))
            continue
        if [float(x) for x in ninst] != final["num_instances"] or [float(bool(x)) for x in drift] != final["drift"]:
            ck.mismatch(f"model history (num_instances/drift) vs {det.name}", dict(model=(ninst, drift), impl=(final["num_instances"], final["drift"]), **detail))
            continue
        mv = {k: [float(x) for x in v] for k, v in hvars}
        if list(mv) != tracked:
            ck.mismatch("model history keys vs implementation", dict(model=list(mv), impl=tracked, **detail))
            continue
        names = set(NAMES[det.name]) | {"warning"}
        for k in tracked:
            if k not in names or k == "":
                continue
            im = final[k]
            if len(im) != len(mv[k]) or any(not close(a, b_, 1e-9, 1e-12) for a, b_ in zip(im, mv[k])):
                ck.mismatch(f"model history[{k}] vs {det.name}", dict(var=k, model=mv[k], impl=im, **detail))
                break


# --------------------------------------------------------------------------- ResetStatisticalTest


def stat_detectors():
    from frouros.detectors.data_drift import AndersonDarlingTest, CVMTest, KSTest, MannWhitneyUTest, WelchTTest

    out = [KSTest, CVMTest, MannWhitneyUTest, WelchTTest, AndersonDarlingTest]
    # BWSTest is left out: its p-value is a Monte-Carlo estimate (not a function of the data),
    # so a twin detector cannot serve as the oracle for it
    try:
        from frouros.detectors.data_drift import KuiperTest

        out += [KuiperTest]
    except ImportError:
        pass
    return out


def run_reset(ck: Check):
    from frouros.callbacks import ResetStatisticalTest
    from frouros.detectors.data_drift.exceptions import MissingFitError

    import logging

    logging.getLogger("frouros").setLevel(logging.WARNING)
    rng = ck.rng
    thorough = ck.tier == "thorough"
    ck.rule(
        "tiny p-values (1e-9, 1e-18) against alphas a factor 100 below / above, equal, one ulp below, and 1e-300; ResetStatisticalTest on 6 statistical-test detectors (KS, CvM, Mann-Whitney, Welch, Anderson-Darling, Kuiper): random sequences of fit / compare / reset with alpha on both sides of and exactly at the observed p-values; "
        "a twin detector without the callback supplies the p-value; reset iff p <= alpha, the returned result equals the twin's, an unfitted compare raises MissingFitError; "
        "the fitted/unfitted state and every output are compared with the Coq model (brun); non-trivial = at least one reset fired and one did not"
    )
    nprng = np.random.RandomState(rng.randrange(2**31))
    exprs, cases = [], []
    for cls in stat_detectors():
        for _ in range(6 if not thorough else 40):
            refs = [nprng.normal(rng.choice([0, 0.3]), 1, size=rng.choice([8, 15, 30])) for _ in range(2)]
            xs = [nprng.normal(rng.choice([0, 0.5, 2.0]), 1, size=rng.choice([8, 15, 30])) for _ in range(3)]
            twin = cls()
            ptab = {}
            for ri, rf in enumerate(refs):
                twin.fit(X=rf)
                for xi, x in enumerate(xs):
                    ptab[(ri, xi)] = twin.compare(X=x)[0]
            pv = sorted(float(r.p_value) for r in ptab.values())
            alpha = rng.choice([pv[0], pv[len(pv) // 2], pv[-1], np.nextafter(pv[len(pv) // 2], 0), np.nextafter(pv[len(pv) // 2], 1), 1e-12, 0.05, 1.0])
            if not alpha > 0:
                alpha = 0.05
            ops = []
            if rng.random() < 0.6:
                # boundary on purpose: alpha EXACTLY the p-value of a compare that is certain to happen
                r0, x0 = rng.randrange(2), rng.randrange(3)
                pb = float(ptab[(r0, x0)].p_value)
                if pb > 0 and not math.isnan(pb):
                    alpha = pb
                    ops = [("F", r0), ("C", x0)]
                    ck.count("reset_boundary_cases")
            for _ in range(rng.choice([4, 8, 12])):
                k = rng.random()
                ops.append(("F", rng.randrange(2)) if k < 0.3 else (("R",) if k < 0.4 else ("C", rng.randrange(3))))
            d = cls(callbacks=[ResetStatisticalTest(alpha=float(alpha))])
            cur = None
            outs = []
            fired = notfired = 0
            ok = True
            for i, o in enumerate(ops):
                detail = dict(detector=cls.__name__, alpha=float(alpha), ops=ops[: i + 1])
                if o[0] == "F":
                    d.fit(X=refs[o[1]])
                    cur = o[1]
                    outs.append(None)
                elif o[0] == "R":
                    d.reset()
                    cur = None
                    outs.append(None)
                else:
                    try:
                        res, _ = d.compare(X=xs[o[1]])
                    except MissingFitError:
                        outs.append("MissingFitError")
                        if cur is not None:
                            ck.violation(dict(clause="reset-iff", detector=cls.__name__), dict(what="compare raised MissingFitError on a fitted detector", **detail))
                            ok = False
                            break
                        continue
                    except Exception as e:  # noqa: BLE001
                        ck.violation(dict(clause="raises", detector=cls.__name__, error=type(e).__name__), dict(error=repr(e), **detail))
                        ok = False
                        break
                    if cur is None:
                        ck.violation(dict(clause="reset-iff", detector=cls.__name__), dict(what="compare succeeded on an unfitted detector", **detail))
                        ok = False
                        break
                    exp = ptab[(cur, o[1])]
                    if res is None or not hasattr(res, "p_value") or not hasattr(res, "statistic"):
                        ck.violation(dict(clause="result-pre-reset", detector=cls.__name__, got="no-result"), dict(what="compare did not return the result of this comparison", got=repr(res), expected=(float(exp.statistic), float(exp.p_value)), **detail))
                        ok = False
                        break
                    if not (feq(float(res.p_value), float(exp.p_value)) and feq(float(res.statistic), float(exp.statistic))):
                        ck.violation(dict(clause="result-pre-reset", detector=cls.__name__), dict(what="returned result is not the one computed before the reset", got=(float(res.statistic), float(res.p_value)), expected=(float(exp.statistic), float(exp.p_value)), **detail))
                        ok = False
                        break
                    should = bool(exp.p_value <= alpha)
                    did = d.X_ref is None
                    if should != did:
                        ck.violation(dict(clause="reset-iff", detector=cls.__name__), dict(what="reset fired" if did else "reset did not fire", p_value=float(exp.p_value), **detail))
                        ok = False
                        break
                    fired += did
                    notfired += not did
                    outs.append(float(res.p_value))
                    if did:
                        cur = None
            ck.case(dict(detector=cls.__name__, alpha=float(alpha), ops=ops), nontrivial=bool(fired and notfired), key=repr((cls.__name__, float(alpha), ops, pv)))
            ck.count("reset_fired", fired)
            ck.count("reset_not_fired", notfired)
            if not ok:
                continue
            tab = "[" + "; ".join(f"({r}, {x}, {fl(float(p.p_value))})" for (r, x), p in ptab.items()) + "]"
            cops = "[" + "; ".join({"F": "BFit %d", "C": "BCmp %d"}.get(o[0], "BRst") % o[1:] if o[0] != "R" else "BRst" for o in ops) + "]"
            exprs.append(f"run_reset {tab} {fl(float(alpha))} {cops}")
            cases.append((cls.__name__, float(alpha), ops, cur, outs))
    # a NaN p-value is not <= alpha: the detector must stay fitted (Welch on two constant equal samples; KS with a NaN in the batch)
    from frouros.detectors.data_drift import KSTest, WelchTTest

    for cls, ref, x in ((WelchTTest, np.full(8, 2.0), np.full(6, 2.0)), (KSTest, nprng.normal(0, 1, 10), np.array([0.1, np.nan, 0.3, 0.2]))):
        for alpha in (0.05, 1.0, 1e-12):
            d = cls(callbacks=[ResetStatisticalTest(alpha=alpha)])
            d.fit(X=ref)
            try:
                res_, _ = d.compare(X=x)
            except Exception:  # noqa: BLE001
                continue
            if res_ is None:
                continue  # reported by the result-pre-reset clause above
            pnan = float(res_.p_value)
            ck.case(dict(detector=cls.__name__, alpha=alpha, kind="nan-p-value", p=pnan), nontrivial=True, key=repr((cls.__name__, alpha, "nan")))
            if math.isnan(pnan) and d.X_ref is None:
                ck.violation(dict(clause="reset-iff", detector=cls.__name__, p="nan"), dict(what="the detector was reset although the returned p-value is NaN (not <= alpha)", detector=cls.__name__, alpha=alpha, reference=ref.tolist(), sample=[None if math.isnan(v) else float(v) for v in x]))
            ck.count("nan_p_cases", int(math.isnan(pnan)))
    # univariate samples given as single-column (n, 1) arrays: the p-value may come back as a length-1 array, the rule is the same
    from frouros.detectors.data_drift import CVMTest, MannWhitneyUTest

    for cls in (KSTest, CVMTest, MannWhitneyUTest, WelchTTest):
        for shift, alpha in ((5.0, 0.05), (0.0, 1e-6)):
            ref = nprng.normal(0, 1, (12, 1))
            x = nprng.normal(shift, 1, (10, 1))
            try:
                twin = cls()
                twin.fit(X=ref)
                p0 = float(np.asarray(twin.compare(X=x)[0].p_value).reshape(-1)[0])
                d = cls(callbacks=[ResetStatisticalTest(alpha=alpha)])
                d.fit(X=ref)
                d.compare(X=x)
            except Exception as e:  # noqa: BLE001
                ck.count("column_input_rejected:" + cls.__name__)
                continue
            ck.case(dict(detector=cls.__name__, alpha=alpha, kind="column-shaped", p=p0), nontrivial=True, key=repr((cls.__name__, alpha, "col", shift)))
            ck.count("column_shaped_cases")
            if (d.X_ref is None) != (p0 <= alpha):
                ck.violation(dict(clause="reset-iff", detector=cls.__name__, input="column-shaped"), dict(what="reset decision differs from (p <= alpha) for single-column (n, 1) samples", detector=cls.__name__, alpha=alpha, p=p0, was_reset=d.X_ref is None, reference_shape=list(ref.shape), sample_shape=list(x.shape)))
    # tiny p-values and tiny alphas (both far below the spacing of floats near 1): two fully separated samples give
    # p of order 1e-18 (KS, n = m = 32) / 1e-9 (n = m = 16); alpha a factor 100 below / above p and at p exactly
    for nsep in (16, 32):
        ref, x = np.arange(nsep, dtype=float), np.arange(nsep, dtype=float) + 1000.0
        twin = KSTest()
        twin.fit(X=ref)
        p0 = float(twin.compare(X=x)[0].p_value)
        if not (0 < p0 < 1e-6):
            continue
        for alpha in (p0 / 100, p0 * 100, p0, float(np.nextafter(p0, 0)), 1e-300):
            d = KSTest(callbacks=[ResetStatisticalTest(alpha=alpha)])
            d.fit(X=ref)
            res_, _ = d.compare(X=x)
            was_reset = d.X_ref is None
            ck.case(dict(detector="KSTest", alpha=alpha, kind="tiny-p", p=p0), nontrivial=True, key=repr(("tinyp", nsep, alpha)))
            ck.count("tiny_p_cases")
            if was_reset != (p0 <= alpha) or res_ is None or float(res_.p_value) != p0:
                ck.violation(dict(clause="reset-iff", detector="KSTest", p="tiny"), dict(what="reset decision differs from (p <= alpha) for a tiny p-value / tiny alpha", detector="KSTest", alpha=alpha, p=p0, was_reset=was_reset, n=nsep, reference=ref.tolist(), sample=x.tolist()))
    # a p-value that underflows to exactly 0.0 (fully separated long samples) is <= alpha: the strongest evidence resets
    for cls in (KSTest,):
        ref, x = np.arange(2000, dtype=float) / 1000.0, np.arange(2000, dtype=float) / 1000.0 + 50.0
        twin = cls()
        twin.fit(X=ref)
        p0 = float(twin.compare(X=x)[0].p_value)
        for alpha in (0.05, 1e-300):
            d = cls(callbacks=[ResetStatisticalTest(alpha=alpha)])
            d.fit(X=ref)
            res_, _ = d.compare(X=x)
            was_reset = d.X_ref is None
            ck.case(dict(detector=cls.__name__, alpha=alpha, kind="zero-p", p=p0), nontrivial=True, key=repr(("zerop", cls.__name__, alpha)))
            ck.count("zero_p_cases")
            if p0 <= alpha and (not was_reset or res_ is None or float(res_.p_value) != p0):
                ck.violation(dict(clause="reset-iff", detector=cls.__name__, p="zero"), dict(what="a p-value of exactly 0.0 (<= alpha) did not reset the detector / the result was lost", detector=cls.__name__, alpha=alpha, p=p0, was_reset=was_reset))
    # a detector with its callbacks deep-copied / pickled in mid-use: the copy's callbacks stay attached to the COPY (the
    # reset callback fires on it, the history callback keeps recording) and the original is untouched
    import copy as _copy, pickle as _pickle
    from frouros.callbacks import HistoryConceptDrift as _H2
    from frouros.detectors.concept_drift import DDM as _DDM2

    for how in ("deepcopy", "pickle"):
        dup = (lambda o: _copy.deepcopy(o)) if how == "deepcopy" else (lambda o: _pickle.loads(_pickle.dumps(o)))
        try:
            d = KSTest(callbacks=[ResetStatisticalTest(alpha=0.5)])
            ref, x = np.arange(30, dtype=float), np.arange(30, dtype=float) + 12.0
            d.fit(X=ref)
            d2 = dup(d)
            r2, _ = d2.compare(X=x)
            ok_reset = d2.X_ref is None and d.X_ref is not None and r2 is not None
            h = _DDM2(callbacks=[_H2(name="h")])
            for v in (0, 1, 0):
                h.update(value=v)
            h2 = dup(h)
            logs = h2.update(value=1)
            ok_hist = len(logs["h"]["value"]) == 4 and len(h.update(value=0)["h"]["value"]) == 4
            err = None
        except Exception as e:  # noqa: BLE001
            ok_reset = ok_hist = False
            err = repr(e)
        ck.case(dict(kind="callbacks-after-" + how), nontrivial=True, key=repr(("cb-dup", how)))
        ck.count("callbacks_after_copy_cases")
        if not (ok_reset and ok_hist):
            ck.violation(dict(clause="callbacks-attached", scenario=how), dict(what=f"after {how} of a detector its callbacks no longer act on the copy (reset callback / history callback)", reset_callback_ok=ok_reset, history_callback_ok=ok_hist, error=err))
    # a reset callback OBJECT used with one detector and, once that detector is done with, attached to a new one: it resets the
    # detector it is attached to NOW.  And update() called with a further keyword argument (its signature is
    # update(value, **kwargs)) while a history callback is attached: no interference, one entry per update (deterministic)
    try:
        cbr = ResetStatisticalTest(alpha=0.5)
        ref, x = np.arange(30, dtype=float), np.arange(30, dtype=float) + 12.0
        dA = KSTest(callbacks=[cbr])
        dA.fit(X=ref)
        dA.compare(X=ref)            # p = 1: no reset
        dB = KSTest(callbacks=[cbr])
        dB.fit(X=ref)
        rB, _ = dB.compare(X=x)      # p << alpha: dB must be reset, dA untouched
        ok_re = dB.X_ref is None and dA.X_ref is not None and rB is not None
        err = None
    except Exception as e:  # noqa: BLE001
        ok_re, err = False, repr(e)
    ck.case(dict(kind="reset-callback-reattached"), nontrivial=True, key=repr(("cb-reattach",)))
    ck.count("reset_callback_reattached_cases")
    if not ok_re:
        ck.violation(dict(clause="reset-iff", scenario="callback-reattached"), dict(what="a reset callback used with a first detector and then attached to a second one did not reset the second detector on p <= alpha (or reset the first one)", error=err))
    from frouros.detectors.concept_drift import CUSUM as _CU2

    for mk, nm in ((lambda cb: _DDM2(callbacks=cb), "DDM"), (lambda cb: _CU2(callbacks=cb), "CUSUM")):
        try:
            bare, withcb = mk([]), mk([_H2(name="h")])
            vals = [0, 1, 1, 0, 1]
            for i, v in enumerate(vals):
                bare.update(value=v, sample_id=i)
                lg = withcb.update(value=v, sample_id=i)
            ok_kw = [scalar(x) for x in lg["h"]["value"]] == [scalar(v) for v in vals] and int(withcb.num_instances) == int(bare.num_instances) == len(vals) and bool(withcb.drift) == bool(bare.drift)
            err = None
        except Exception as e:  # noqa: BLE001
            ok_kw, err = False, repr(e)
        ck.case(dict(kind="update-with-extra-keyword", detector=nm), nontrivial=True, key=repr(("upd-kw", nm)))
        ck.count("update_extra_keyword_cases")
        if not ok_kw:
            ck.violation(dict(clause="non-interference", scenario="update-with-extra-keyword", detector=nm), dict(what="update(value=..., sample_id=...) works on the bare detector but, with a history callback attached, raises or records something else than one entry per update", detector=nm, error=err))
    # (a) an update() that RAISES in mid-stream (a value the detector rejects; the caller catches it and carries on): the history
    #     keeps one entry per ACCEPTED update in every tracked variable - no list runs ahead of the others;
    # (b) two callbacks with the SAME name in one list: both stay attached - both histories record, and of two reset callbacks
    #     the one whose alpha is reached fires (deterministic)
    for mk, nm in ((lambda cb: _DDM2(callbacks=cb), "DDM"), (lambda cb: _CU2(callbacks=cb), "CUSUM")):
        try:
            h = _H2(name="h")
            d = mk([h])
            accepted, counters = [], []
            for v in (0, 1, "not a number", 1, None, 0, 1):
                try:
                    d.update(value=v)
                    accepted.append(v)
                    counters.append(int(d.num_instances))   # whatever the detector's own counter says after this update
                except Exception:  # noqa: BLE001  (the rejection itself is not the point here)
                    pass
            lens = {k: len(x) for k, x in h.history.items()}
            ok_rej = len(set(lens.values())) == 1 and [scalar(x) for x in h.history["value"]] == [scalar(v) for v in accepted] and [int(x) for x in h.history["num_instances"]] == counters
            err = None
        except Exception as e:  # noqa: BLE001
            ok_rej, err, lens = False, repr(e), None
        ck.case(dict(kind="rejected-update-in-mid-stream", detector=nm), nontrivial=True, key=repr(("rej-upd", nm)))
        ck.count("rejected_update_cases")
        if not ok_rej:
            ck.violation(dict(clause="one-entry-per-update", scenario="rejected-update", detector=nm), dict(what="after an update() that raised in mid-stream the history no longer holds one entry per accepted update in every tracked variable", detector=nm, lengths=lens, error=err))
    try:
        h1, h2 = _H2(name="same"), _H2(name="same")
        d = _DDM2(callbacks=[h1, h2])
        for v in (0, 1, 1, 0):
            d.update(value=v)
        ok_same_h = len(h1.history["value"]) == 4 and len(h2.history["value"]) == 4
        ref, x = np.arange(30, dtype=float), np.arange(30, dtype=float) + 3.0
        twin = KSTest()
        twin.fit(X=ref)
        p_ = float(twin.compare(X=x)[0].p_value)
        dk = KSTest(callbacks=[ResetStatisticalTest(alpha=0.999), ResetStatisticalTest(alpha=1e-300)])
        dk.fit(X=ref)
        dk.compare(X=x)
        ok_same_r = (dk.X_ref is None) == (p_ <= 0.999)
        err = None
    except Exception as e:  # noqa: BLE001
        ok_same_h = ok_same_r = False
        err = repr(e)
    ck.case(dict(kind="same-named-callbacks"), nontrivial=True, key=repr(("same-name",)))
    ck.count("same_named_callback_cases")
    if not (ok_same_h and ok_same_r):
        ck.violation(dict(clause="callbacks-attached", scenario="same-named-callbacks"), dict(what="of two callbacks with the same name in one list only one stays attached (a history that records nothing / a reset callback that does not fire at p <= alpha)", histories_ok=ok_same_h, reset_ok=ok_same_r, error=err))
    res = coq_eval("C17r", HDR17, exprs, shard=60)
    for (name, alpha, ops, cur, outs), r in zip(cases, res):
        ck.corr_cases += 1
        st, mouts = r
        mst = None if st is None else int(st[1])
        mo = []
        for o in mouts:
            if o is None:
                mo.append(None)
            else:
                v = o[1]
                mo.append(v.args[0].name if isinstance(v, Ctor) and v.name == "Raise" else float(v.args[0]))
        if mst != cur or len(mo) != len(outs) or any((a != b_) if isinstance(a, str) or a is None or b_ is None or isinstance(b_, str) else not feq(a, b_) for a, b_ in zip(mo, outs)):
            ck.mismatch("model brun vs ResetStatisticalTest", dict(detector=name, alpha=alpha, ops=ops, model=(mst, mo), impl=(cur, outs)))


def main(tier, seed):
    ck = Check("C17", tier, seed)
    ck.proof = check_props("C17")
    ck.assumptions = [
        "theorems hold for every detector model, number system, configuration and history; 'scalar statistics' = tracked variables whose value is a number/bool/None or a BaseStat (recorded by .get()); "
        "tracked non-scalar objects (ADWIN buckets, KSWIN window, HDDM test_type, RDDM predictions, BOCD log_r, STEPD window_accuracy) are recorded by reference and are outside the property's wording",
        "the p-value of the statistical test is an oracle for the reset model (table supplied by a twin detector)",
    ]
    run_streaming(ck)
    run_reset(ck)
    return ck.finish()
