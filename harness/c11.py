"""C11 — KS detectors report the exact KS statistic and p-value; incremental = batch."""
from __future__ import annotations

import itertools
import math
from fractions import Fraction

import numpy as np

from lib import HEADER, Check, check_props, close, coq_eval, fl, fl_list, z

HDR = HEADER + "From FV Require Import Queue KS IKS.\n"


def ks_H(X, Y):
    n, m = len(X), len(Y)
    best = 0
    for zv in list(X) + list(Y):
        cx = sum(1 for x in X if x <= zv)
        cy = sum(1 for y in Y if y <= zv)
        best = max(best, abs(cx * m - cy * n))
    return best


def inside_paths(n, m, H):
    """number of lattice paths (0,0)->(n,m) with |i*m - j*n| < H at every point (big-int DP)."""
    prev = [0] * (m + 1)
    for i in range(n + 1):
        cur = [0] * (m + 1)
        for j in range(m + 1):
            if abs(i * m - j * n) < H:
                if i == 0 and j == 0:
                    cur[j] = 1
                else:
                    cur[j] = (prev[j] if i > 0 else 0) + (cur[j - 1] if j > 0 else 0)
        prev = cur
    return prev[m]


def exact_p(n, m, H):
    tot = math.comb(n + m, n)
    return Fraction(tot - inside_paths(n, m, H), tot)


def brute_p(n, m, H):
    """P(D >= d) by full enumeration of interleavings."""
    cnt = 0
    tot = 0
    for pos in itertools.combinations(range(n + m), n):
        s = set(pos)
        i = j = 0
        mx = 0
        for k in range(n + m):
            if k in s:
                i += 1
            else:
                j += 1
            mx = max(mx, abs(i * m - j * n))
        tot += 1
        cnt += mx >= H
    return Fraction(cnt, tot)


def gen_sample(rng, n, kind=None):
    kind = kind or rng.choice(["cont", "ties", "ints", "shifted"])
    if kind == "cont":
        return [rng.gauss(0, 1) for _ in range(n)]
    if kind == "ties":
        return [float(rng.choice([0, 1, 2])) for _ in range(n)]
    if kind == "ints":
        return [float(rng.randrange(-3, 8)) for _ in range(n)]
    return [rng.gauss(1.5, 0.5) for _ in range(n)]


def run(ck: Check):
    from frouros.detectors.data_drift import IncrementalKSTest, KSTest

    rng = ck.rng
    thorough = ck.tier == "thorough"
    model_cases = []

    # (1) exact null distribution: every (n, m) with n + m <= N and every attainable H
    N = 11 if not thorough else 14
    ck.rule(
        f"exact p-value: every (n,m) with n+m <= {N} and every attainable statistic: brute-force enumeration of all interleavings vs big-int DP vs the Gallina DP; "
        "KSTest / IncrementalKSTest on generated sample pairs (continuous, heavily tied, integer, shifted; sizes 1..60; windows 1..12): statistic vs sup|F_ref - F_test| recomputed, "
        "p-value vs the exact fraction (1e-9 rel; within 1e-3 when the exact value is 1), incremental vs batch at every step incl. sizes > 10 000, decimal-grid values replayed with ties and epoch-sized magnitudes half a unit apart (order lost in single precision), and re-fit without reset across the 10 000 boundary in both directions; non-trivial = p-value < 1"
    )
    enum_cases = []
    for n in range(1, N):
        for m in range(1, N - n + 1):
            Hs = sorted({abs(i * m - j * n) for i in range(n + 1) for j in range(m + 1)} - {0})
            for H in Hs:
                b = brute_p(n, m, H)
                d = exact_p(n, m, H)
                ck.evals += 1
                if b < 1:
                    ck.nontrivial.add(f"enum{n},{m},{H}")
                if b != d:
                    ck.notes.append(f"harness self-check failed: brute {b} != dp {d} at {(n, m, H)}")
                    raise RuntimeError("reference implementations disagree")
                enum_cases.append((n, m, H, b))
    ck.exhaustive = True
    exprs = [f"map (fun t : Z*Z*Z => let '(n, m, h) := t in (paths_total n m - paths_inside n m h, paths_total n m)) [{'; '.join(f'({n},{m},{H})' for n, m, H, _ in enum_cases[i:i + 300])}]" for i in range(0, len(enum_cases), 300)]
    res = [r for chunk in coq_eval("C11e", HDR, exprs) for r in chunk]
    for (n, m, H, b), r in zip(enum_cases, res):
        ck.corr_cases += 1
        if Fraction(r[0], r[1]) != b:
            ck.mismatch("Model/KS.v paths_inside vs enumeration of interleavings", dict(n=n, m=m, H=H, model=r, enumeration=str(b)))

    # (2) detectors on sample pairs
    ks = KSTest()
    for it in range(150 if not thorough else 1500):
        n, m = rng.choice([1, 2, 3, 5, 8, 13, 30, 60]), rng.choice([1, 2, 3, 5, 8, 13, 30, 60])
        X, Y = gen_sample(rng, n), gen_sample(rng, m)
        if it % 10 == 0 and n == m:  # perfectly interleaved equal sizes: D = 1/n
            X = [float(2 * i) for i in range(n)]
            Y = [float(2 * i + 1) for i in range(n)]
        H = ks_H(X, Y)
        pe = exact_p(n, m, H)
        ck.case(dict(kind="batch", n=n, m=m, H=H, p=float(pe), X=X[:5], Y=Y[:5]), nontrivial=pe < 1, key=repr((X, Y)))
        try:
            ks.fit(X=np.array(X))
            r, _ = ks.compare(X=np.array(Y))
            stat, p = float(r.statistic), float(r.p_value)
        except Exception as e:  # noqa: BLE001
            ck.violation(dict(clause="raises", detector="KSTest"), dict(X=X, Y=Y, error=repr(e)))
            continue
        if not close(stat, H / (n * m), 1e-12, 1e-12):
            ck.violation(dict(clause="statistic", detector="KSTest"), dict(X=X, Y=Y, statistic=stat, expected=H / (n * m)))
        elif not (close(p, float(pe), 1e-9, 1e-12) or (pe == 1 and abs(p - 1) <= 1e-3)):
            ck.violation(dict(clause="p-value", detector="KSTest"), dict(X=X, Y=Y, p_value=p, exact=float(pe), H=H))
        else:
            model_cases.append((X, Y, H, pe))
    # (3) IncrementalKSTest = batch on (reference, last window) at every step
    for it in range(60 if not thorough else 500):
        n = rng.choice([1, 2, 5, 8, 13, 30])
        w = rng.choice([1, 2, 3, 5, 7, 12])
        ref = gen_sample(rng, n)
        stream = gen_sample(rng, rng.choice([w, w + 3, 3 * w + 2]))
        if it % 7 == 0:
            w = n = rng.choice([5, 7, 13])
            ref = [float(2 * i + 1) for i in range(n)]
            stream = [float(2 * i) for i in range(n + 3)]
        elif it % 7 in (1, 2):
            # values whose ORDER against the reference is lost in single precision: a decimal grid replayed
            # with ties, or epoch-sized magnitudes half a unit apart
            if it % 7 == 1:
                grid = [k / 10 for k in range(1, 40)]
                ref = [rng.choice(grid) for _ in range(n)]
                stream = [rng.choice(grid + ref) for _ in range(len(stream))]
            else:
                base = 1.7e9
                ref = [base + rng.randrange(0, 40) * 0.5 for _ in range(n)]
                stream = [base + rng.randrange(0, 40) * 0.5 + rng.choice([0.0, 0.25]) for _ in range(len(stream))]
        d = IncrementalKSTest(window_size=w)
        d.fit(X=np.array(ref))
        ok = True
        for t, v in enumerate(stream):
            try:
                r, _ = d.update(value=v)
            except Exception as e:  # noqa: BLE001
                ck.violation(dict(clause="raises", detector="IncrementalKSTest", error=type(e).__name__), dict(what="update failed on a valid input", reference=ref, stream=stream[: t + 1], window_size=w, error=repr(e)))
                ok = False
                break
            if t + 1 < w:
                if r is not None:
                    ck.violation(dict(clause="early-result", detector="IncrementalKSTest"), dict(reference=ref, stream=stream[: t + 1], window_size=w))
                    ok = False
                    break
                continue
            win = stream[t + 1 - w : t + 1]
            H = ks_H(ref, win)
            pe = exact_p(n, w, H)
            if r is None or not close(float(r.statistic), H / (n * w), 1e-12, 1e-12) or not (close(float(r.p_value), float(pe), 1e-9, 1e-12) or (pe == 1 and abs(float(r.p_value) - 1) <= 1e-3)):
                ck.violation(
                    dict(clause="incremental-vs-batch", detector="IncrementalKSTest"),
                    dict(reference=ref, stream=stream[: t + 1], window_size=w, got=None if r is None else (float(r.statistic), float(r.p_value)), expected=(H / (n * w), float(pe))),
                )
                ok = False
                break
        ck.case(dict(kind="incremental", n=n, window=w, steps=len(stream)), nontrivial=len(stream) > w, key=repr((ref, stream, w)))
        if ok:
            model_cases.append((ref, stream[-w:], ks_H(ref, stream[-w:]), exact_p(n, w, ks_H(ref, stream[-w:]))))
    # (4) sizes straddling 10 000: batch / incremental agreement (asymptotic branch is an oracle)
    for nref, w in ((10001, 3), (5, 10001), (10585, 73)) if not thorough else ((10001, 3), (5, 10001), (10000, 4), (12000, 50), (10585, 73), (10585, 72), (30006, 10002)):  # (10585, 73): n*m/(n+m) = 72.5 exactly
        ref = [rng.gauss(0, 1) for _ in range(nref)]
        stream = [rng.gauss(0.3, 1) for _ in range(w + 2)]
        d = IncrementalKSTest(window_size=w)
        d.fit(X=np.array(ref))
        ck.case(dict(kind="large", n=nref, window=w), nontrivial=True, key=f"large{nref},{w}")
        try:
            for t, v in enumerate(stream):
                r, _ = d.update(value=v)
                if t + 1 >= w:
                    ks.fit(X=np.array(ref))
                    b, _ = ks.compare(X=np.array(stream[t + 1 - w : t + 1]))
                    if not close(float(r.statistic), float(b.statistic), 1e-12, 1e-12) or not close(float(r.p_value), float(b.pvalue if hasattr(b, "pvalue") else b.p_value), 1e-6, 1e-12):
                        ck.violation(dict(clause="incremental-vs-batch", detector="IncrementalKSTest", regime="asymptotic"), dict(n_ref=nref, window_size=w, step=t, incremental=(float(r.statistic), float(r.p_value)), batch=(float(b.statistic), float(b.p_value))))
                        break
        except Exception as e:  # noqa: BLE001
            ck.violation(dict(clause="raises", detector="IncrementalKSTest", error=type(e).__name__, regime="asymptotic"), dict(what="update failed on a valid input", n_ref=nref, window_size=w, error=repr(e)))
    # (4b) the stream handed over as Python ints / NumPy scalars of other types (values exactly representable in each):
    #      no valid input makes update fail, and the results are those of the float run
    for ty_name, ty in (("int", int), ("np.int64", np.int64), ("np.float32", np.float32), ("np.float64", np.float64), ("np.uint8", np.uint8)):
        for w in (3, 7):
            ref = np.array([float(rng.randrange(0, 40)) for _ in range(rng.choice([8, 15]))])
            stream = [rng.randrange(0, 40) for _ in range(w + 6)]
            base, got = [], []
            try:
                d0 = IncrementalKSTest(window_size=w)
                d0.fit(X=ref)
                for v in stream:
                    r, _ = d0.update(value=float(v))
                    base.append(None if r is None else (float(r.statistic), float(r.p_value)))
                d1 = IncrementalKSTest(window_size=w)
                d1.fit(X=ref)
                for v in stream:
                    r, _ = d1.update(value=ty(v))
                    got.append(None if r is None else (float(r.statistic), float(r.p_value)))
            except Exception as e:  # noqa: BLE001
                ck.violation(dict(clause="raises", detector="IncrementalKSTest", error=type(e).__name__, input_type=ty_name), dict(what="update failed on a valid numeric value", input_type=ty_name, reference=ref.tolist(), stream=stream, window_size=w, error=repr(e)))
                continue
            ck.case(dict(kind="typed-stream", input_type=ty_name, window=w), nontrivial=True, key=repr(("typed", ty_name, w, stream)))
            ck.count("typed_stream_runs")
            if got != base:
                ck.violation(dict(clause="incremental-vs-batch", detector="IncrementalKSTest", input_type=ty_name), dict(what="results differ when the same values arrive as another numeric type", input_type=ty_name, reference=ref.tolist(), stream=stream, window_size=w, got=got, as_float=base))
    # (4c) reset() followed by fit(): nothing until window_size NEW values have arrived, then the batch test on the last
    #      window_size values seen since the reset (values from before the reset must leave no trace)
    for _ in range(6 if not thorough else 40):
        w = rng.choice([2, 3, 5])
        ref1 = np.array([rng.gauss(0, 1) for _ in range(rng.choice([6, 11]))])
        ref2 = np.array([rng.gauss(0.5, 1) for _ in range(rng.choice([7, 9]))]) if rng.random() < 0.5 else ref1
        pre = [rng.gauss(3, 1) for _ in range(w + rng.choice([0, 1, 4]))]
        post = [rng.gauss(0.2, 1) for _ in range(w + 3)]
        d = IncrementalKSTest(window_size=w)
        try:
            d.fit(X=ref1)
            for v in pre:
                d.update(value=v)
            d.reset()
            d.fit(X=ref2)
            got = []
            for v in post:
                r, _ = d.update(value=v)
                got.append(None if r is None else (float(r.statistic), float(r.p_value)))
        except Exception as e:  # noqa: BLE001
            ck.violation(dict(clause="raises", detector="IncrementalKSTest", error=type(e).__name__, scenario="reset-fit"), dict(what="update failed after reset() + fit()", window_size=w, reference=ref2.tolist(), pre=pre, post=post, error=repr(e)))
            continue
        ck.case(dict(kind="reset-then-fit", window=w, pre=len(pre)), nontrivial=True, key=repr(("resetfit", w, pre, post)))
        ck.count("reset_fit_histories")
        for t, g in enumerate(got):
            if t + 1 < w:
                if g is not None:
                    ck.violation(dict(clause="warm-up", detector="IncrementalKSTest", scenario="reset-fit"), dict(what="a result is returned before window_size values have arrived since the reset", window_size=w, step_since_reset=t + 1, result=g, pre=pre, post=post[: t + 1], reference=ref2.tolist()))
                    break
                continue
            ks.fit(X=ref2)
            b, _ = ks.compare(X=np.array(post[t + 1 - w : t + 1]))
            if g is None or not close(g[0], float(b.statistic), 1e-12, 1e-12) or not close(g[1], float(b.p_value), 1e-9, 1e-12):
                ck.violation(dict(clause="incremental-vs-batch", detector="IncrementalKSTest", scenario="reset-fit"), dict(what="after reset() + fit() the result differs from the batch test on the last window_size values seen since the reset", window_size=w, step_since_reset=t + 1, incremental=g, batch=(float(b.statistic), float(b.p_value)), pre=pre, post=post[: t + 1], reference=ref2.tolist()))
                break
    # (5) re-fit without reset (fit replaces the reference, keeps the window): every result must be the batch test
    #     on (current reference, last window), across the 10 000 boundary in both directions
    plans = [(6, 9, 4), (9, 6, 3), (5, 10001, 3), (10001, 5, 3)] + ([(40, 10050, 8), (10050, 40, 8)] if thorough else [])
    for n1, n2, w in plans:
        refs = [[rng.gauss(0, 1) for _ in range(n1)], [rng.gauss(0.2, 1) for _ in range(n2)]]
        stream = [rng.gauss(0.1, 1) for _ in range(2 * w + 4)]
        d = IncrementalKSTest(window_size=w)
        ck.case(dict(kind="refit", n1=n1, n2=n2, window=w), nontrivial=True, key=f"refit{n1},{n2},{w},{stream[:2]}")
        try:
            cur = None
            for t, v in enumerate(stream):
                if t == 0 or t == w + 2:
                    cur = refs[0 if t == 0 else 1]
                    d.fit(X=np.array(cur))
                r, _ = d.update(value=v)
                if t + 1 >= w:
                    ks.fit(X=np.array(cur))
                    b, _ = ks.compare(X=np.array(stream[t + 1 - w : t + 1]))
                    if r is None or not close(float(r.statistic), float(b.statistic), 1e-12, 1e-12) or not close(float(r.p_value), float(b.p_value), 1e-6, 1e-12):
                        ck.violation(dict(clause="incremental-vs-batch", detector="IncrementalKSTest", history="refit"), dict(what="after fit() on a new reference the result is not the batch test on (current reference, last window)", sizes=(n1, n2), window_size=w, step=t, incremental=None if r is None else (float(r.statistic), float(r.p_value)), batch=(float(b.statistic), float(b.p_value))))
                        break
        except Exception as e:  # noqa: BLE001
            ck.violation(dict(clause="raises", detector="IncrementalKSTest", error=type(e).__name__, history="refit"), dict(what="update failed on a valid input", sizes=(n1, n2), window_size=w, error=repr(e)))
    # model correspondence: ks_test on the same pairs (storage order irrelevant: checked separately through IKS runs)
    small = [c for c in model_cases if len(c[0]) * len(c[1]) <= 400][:200]
    exprs = [f"ks_test (A:=FloatA) {fl_list(X)} {fl_list(Y)}" for X, Y, _, _ in small]
    res = coq_eval("C11m", HDR, exprs, shard=50)
    for (X, Y, H, pe), r in zip(small, res):
        ck.corr_cases += 1
        frac = r[1][1] if isinstance(r[1], tuple) and r[1][0] == "Some" else None
        if r[0] != H or frac is None or Fraction(frac[0], frac[1]) != pe:
            ck.mismatch("Model/IKS.v ks_test vs KSTest", dict(X=X, Y=Y, model=str(r), H=H, p=str(pe)))
    # IKS state machine vs implementation (None until the window fills; storage order handed over)
    iks = []
    for _ in range(30):
        w = rng.choice([1, 2, 3, 4])
        ref = gen_sample(rng, rng.choice([2, 3, 5]))
        stream = gen_sample(rng, w + rng.choice([0, 1, 3, 5]))
        d = IncrementalKSTest(window_size=w)
        d.fit(X=np.array(ref))
        outs = []
        for v in stream:
            r, _ = d.update(value=v)
            outs.append(None if r is None else float(r.statistic))
        iks.append((w, ref, stream, outs))
    # (own generator: independent of the draws above)
    import random as _random
    from frouros.detectors.data_drift import KSTest as _KSTest
    from scipy.stats import ks_2samp as _ks2

    prng = _random.Random(111111)
    # an option passed to ONE compare() must not outlive that call (same instance, and a new instance afterwards)
    for kw in ({"alternative": "less"}, {"alternative": "greater"}, {"method": "asymp"}):
        ref = np.array([prng.gauss(0, 1) for _ in range(10)])
        test = np.array([prng.gauss(0.9, 1.4) for _ in range(8)])
        try:
            det = _KSTest()
            det.fit(X=ref)
            r0 = det.compare(X=test)[0]
            det.compare(X=test, **kw)
            r1 = det.compare(X=test)[0]
            det2 = _KSTest()
            det2.fit(X=ref)
            r2 = det2.compare(X=test)[0]
        except Exception as e:  # noqa: BLE001
            ck.violation(dict(clause="raises", detector="KSTest", scenario="option-then-default"), dict(option=kw, error=repr(e), ref=ref.tolist(), test=test.tolist()))
            continue
        exp = _ks2(ref, test)
        ck.case(dict(kind="option-then-default", option=kw), nontrivial=True, key=repr(("sticky", kw)))
        ck.count("option_then_default_cases")
        tri = [(float(r.statistic), float(r.p_value)) for r in (r0, r1, r2)]
        if not (tri[0] == tri[1] == tri[2] == (float(exp.statistic), float(exp.pvalue))):
            ck.violation(dict(clause="batch-ks", cause="option-outlives-call"), dict(what="after one compare() with an option, a compare() without options is no longer the default two-sample KS test", option=kw, default_before=tri[0], default_after_same_instance=tri[1], default_new_instance=tri[2], scipy_default=(float(exp.statistic), float(exp.pvalue)), ref=ref.tolist(), test=test.tolist()))
    # IncrementalKSTest: the reference carried by an integer / single-precision array, the stream in binary64: the
    # statistic is that of the VALUES (the window must not inherit the reference's dtype)
    for dt in (np.int64, np.int32, np.float32, np.uint8):
        w = prng.choice([3, 4, 6])
        ref = np.array([prng.randrange(0, 9) for _ in range(prng.choice([5, 6, 9]))]).astype(dt)
        stream = [prng.choice([prng.uniform(0, 9), prng.randrange(0, 9) + 0.5, float(prng.randrange(0, 9))]) for _ in range(w + 6)]
        try:
            d = IncrementalKSTest(window_size=w)
            d.fit(X=ref)
            bad = None
            for t, v in enumerate(stream, 1):
                r, _ = d.update(value=v)
                if t < w:
                    continue
                e = _ks2([float(x) for x in ref.tolist()], stream[t - w : t], method="exact")
                if r is None or not close(float(r.statistic), float(e.statistic), 1e-12, 1e-12):
                    bad = dict(step=t, got=None if r is None else float(r.statistic), expected=float(e.statistic))
                    break
        except Exception as e:  # noqa: BLE001
            ck.violation(dict(clause="raises", detector="IncrementalKSTest", scenario="typed-reference"), dict(dtype=dt.__name__, error=repr(e), reference=ref.tolist(), stream=stream))
            continue
        ck.case(dict(kind="typed-reference", dtype=dt.__name__, window_size=w), nontrivial=True, key=repr(("typed-ref", dt.__name__, ref.tolist(), stream)))
        ck.count("typed_reference_cases")
        if bad:
            ck.violation(dict(clause="incremental-equals-batch", regime="typed-reference", dtype=dt.__name__), dict(what="the incremental statistic differs from the batch KS statistic of (reference, last window_size values) when the reference array is not binary64", dtype=dt.__name__, window_size=w, reference=ref.tolist(), stream=stream, **bad))
    # update() before fit() is rejected and does NOT count: after fit() the first window_size-1 updates give no result,
    # the window_size-th gives the batch result of exactly those values
    from frouros.detectors.data_drift.exceptions import MissingFitError as _MFE

    for w in (3, 5):
        ref = np.array([prng.gauss(0, 1) for _ in range(8)])
        stream = [prng.gauss(0.5, 1) for _ in range(w + 2)]
        d = IncrementalKSTest(window_size=w)
        bad = None
        try:
            for _ in range(prng.choice([1, 3])):
                try:
                    d.update(value=0.25)
                    bad = "update() on an unfitted detector did not raise MissingFitError"
                except _MFE:
                    pass
            d.fit(X=ref)
            for t, v in enumerate(stream, 1):
                r, _ = d.update(value=v)
                if t < w and r is not None:
                    bad = f"a result was returned after only {t} values since fit (window_size={w})"
                    break
                if t >= w:
                    e = _ks2(ref, stream[t - w : t])
                    if r is None or not close(float(r.statistic), float(e.statistic), 1e-12, 1e-12):
                        bad = f"step {t}: statistic {None if r is None else float(r.statistic)} != batch {float(e.statistic)}"
                        break
        except Exception as e:  # noqa: BLE001
            bad = f"raised {e!r}"
        ck.case(dict(kind="update-before-fit", window_size=w), nontrivial=True, key=repr(("ubf", w, stream)))
        ck.count("update_before_fit_cases")
        if bad:
            ck.violation(dict(clause="warm-up", scenario="update-before-fit"), dict(what="updates rejected before fit() must not count towards the warm-up: " + bad, window_size=w, reference=ref.tolist(), stream=stream))
    # reference sizes AT the boundary of the exact p-value (10 000) and large fully separated samples (the exact p-value
    # underflows to 0.0, a legal p-value): incremental p == batch p, no update fails
    for n_ref, w, shift in ((9999, 6, 0.3), (10000, 6, 0.3), (10001, 6, 0.3), (1000, 1000, 100.0), (400, 700, 50.0)):
        ref = np.array([prng.random() for _ in range(n_ref)])
        stream = [prng.random() + shift for _ in range(w)]
        try:
            d = IncrementalKSTest(window_size=w)
            d.fit(X=ref)
            r = None
            for v in stream:
                r, _ = d.update(value=v)
            e = _ks2(ref, stream)
            ok = r is not None and close(float(r.statistic), float(e.statistic), 1e-12, 1e-12) and (float(r.p_value) == float(e.pvalue) or close(float(r.p_value), float(e.pvalue), 1e-9, 1e-300))
            got = None if r is None else (float(r.statistic), float(r.p_value))
        except Exception as ex:  # noqa: BLE001
            ok, got = False, repr(ex)
            e = _ks2(ref, stream)
        ck.case(dict(kind="boundary-sizes", n_ref=n_ref, window_size=w, p=float(e.pvalue)), nontrivial=True, key=repr(("bsz", n_ref, w)))
        ck.count("boundary_size_cases")
        if not ok:
            ck.violation(dict(clause="incremental-equals-batch", regime="boundary-sizes", n_ref=n_ref), dict(what="incremental result differs from scipy.stats.ks_2samp(reference, window) (default method) or the update failed", n_ref=n_ref, window_size=w, shift=shift, got=got, expected=(float(e.statistic), float(e.pvalue))))
    # the array handed to fit() belongs to the caller: fit() must leave it as it is, and what the caller does to it
    # AFTERWARDS (refilling a pre-allocated buffer with the next chunk) must not reach the detector (deterministic)
    for w in (4, 7):
        buf = np.array([((37 * i) % 23) / 23.0 for i in range(23)])
        before = buf.copy()
        stream = [0.3 + ((11 * i) % 13) / 13.0 for i in range(w + 6)]
        bad = None
        try:
            d = IncrementalKSTest(window_size=w)
            d.fit(X=buf)
            if not np.array_equal(buf, before):
                bad = "fit() changed the caller's array (its order or its values)"
            for t, v in enumerate(stream, 1):
                if t == w + 2:
                    buf[:] = 5.0 + np.arange(len(buf))   # the caller reuses its buffer
                r, _ = d.update(value=v)
                if t >= w and bad is None:
                    e = _ks2(before, stream[t - w : t])
                    if r is None or not close(float(r.statistic), float(e.statistic), 1e-12, 1e-12):
                        bad = f"step {t}: statistic {None if r is None else float(r.statistic)} != batch test against the reference as it was at fit() ({float(e.statistic)})"
        except Exception as e:  # noqa: BLE001
            bad = f"raised {e!r}"
        ck.case(dict(kind="reference-array-owned-by-caller", window_size=w), nontrivial=True, key=repr(("refown", w)))
        ck.count("reference_owned_by_caller_cases")
        if bad:
            ck.violation(dict(clause="incremental-equals-batch", scenario="reference-array-owned-by-caller"), dict(what="the reference is the array's contents at fit(): " + bad, window_size=w, reference=before.tolist(), stream=stream))
    exprs = [
        "(fix go (s : iks_st FloatA) (vs : list float) : list (option Z) := match vs with [] => [] | v :: r => match iks_update s v with "
        "Ok (s', o) => option_map fst o :: go s' r | Raise _ => [] end end) "
        f"(iks_fit (iks_init {w}) {fl_list(ref)}) {fl_list(stream)}"
        for w, ref, stream, _ in iks
    ]
    res = coq_eval("C11i", HDR, exprs)
    for (w, ref, stream, outs), r in zip(iks, res):
        ck.corr_cases += 1
        mo = [None if x is None else x[1] / (len(ref) * w) for x in r]
        if len(mo) != len(outs) or any((a is None) != (b is None) or (a is not None and not close(a, b, 1e-12, 1e-12)) for a, b in zip(outs, mo)):
            ck.mismatch("Model/IKS.v iks_update vs IncrementalKSTest", dict(window_size=w, reference=ref, stream=stream, impl=outs, model=mo))


def main(tier, seed):
    ck = Check("C11", tier, seed)
    ck.proof = check_props("C11")
    ck.assumptions = [
        "the asymptotic p-value (kstwo.sf, samples > 10 000) is an oracle: only batch/incremental agreement is checked there",
        "SciPy computes the exact p-value in binary64; it is compared with the exact rational value with tolerance 1e-9 (1e-3 when the exact value is 1, as the property allows)",
    ]
    run(ck)
    return ck.finish()
