"""C05 — ADWIN keeps an exact suffix window and shrinks it only on a significant cut."""
from __future__ import annotations

import math

from detectors import BY_NAME, compare_traces, run_impl, run_models
from lib import Check, check_props, gen_stream_real

DET = BY_NAME["ADWIN"]


def eps_cut(width, var_w, n0, n1, delta, mws):
    mws1 = mws + 1
    if n0 == mws1 or n1 == mws1:
        return math.inf
    dp = math.log(2 * math.log(width) / delta)
    mr = 1 / (n0 - mws1) + 1 / (n1 - mws1)
    return math.sqrt(max(0.0, 2 * mr * var_w * dp)) + 2 / 3 * dp * mr


def stats(vals):
    n = len(vals)
    s = math.fsum(vals)
    mu = s / n
    return n, s, math.fsum((v - mu) ** 2 for v in vals)


def gen_adwin_stream(rng, n):
    kind = rng.choice(["shift", "shift2", "const", "noise", "cancel", "01"])
    if kind == "shift":
        k = rng.randrange(5, max(6, n - 3))
        a, b_ = rng.choice([(0.2, 0.8), (5.0, 5.6), (1.0, 0.0), (10.0, 30.0)])
        s = rng.choice([0.0, 0.05, 0.3])
        return [abs(rng.gauss(a if i < k else b_, s)) for i in range(n)]
    if kind == "shift2":
        k1 = rng.randrange(5, max(6, n // 2))
        k2 = rng.randrange(k1 + 1, max(k1 + 2, n))
        return [abs(rng.gauss(1.0 if i < k1 else (3.0 if i < k2 else 0.5), 0.2)) for i in range(n)]
    if kind == "const":
        return [rng.choice([0.0, 1.0, 2.5])] * n
    if kind == "noise":
        return [rng.random() for _ in range(n)]
    if kind == "cancel":
        k = rng.randrange(4, 13)
        return [rng.uniform(5, 15) if i < k else 0.0 for i in range(n)]
    p, q, k = 0.1, 0.7, rng.randrange(5, max(6, n))
    return [float(rng.random() < (p if i < k else q)) for i in range(n)]


def gen_cfg(rng):
    return dict(
        clock=rng.choice([1, 1, 1, 2, 4, 32]),
        delta=rng.choice([0.002, 0.05, 0.5, 0.9]),
        m=rng.choice([1, 2, 2, 3, 5]),
        min_window_size=rng.choice([1, 1, 2, 5]),
        min_num_instances=rng.choice([1, 3, 5, 10]),
    )


def monitor(ck, cfg, xs):
    """ADWIN's property over one implementation run (no resets). Returns (trace, ok)."""
    d = DET.make(cfg)
    seen = []
    trace = []
    width_prev = 0
    tol = 1e-7
    t_upd = 0
    cfg = dict(cfg)
    for i, v in enumerate(xs):
        if isinstance(v, tuple) and v[0] == "set":
            # a configuration field assigned through its public setter in mid-stream: the rules below use the new value
            setattr(d.config, v[1], v[2])
            cfg[v[1]] = v[2]
            trace.append(DET.observe(d))
            continue
        if isinstance(v, tuple) and v[0] == "copy":
            # continue on a deep copy / a pickle round trip of the detector: the copy must keep the exact window
            import copy as _copy, pickle as _pickle

            d = _copy.deepcopy(d) if v[1] == "deepcopy" else _pickle.loads(_pickle.dumps(d))
            trace.append(DET.observe(d))
            continue
        if v == "R":
            d.reset()
            seen, width_prev, t_upd = [], 0, 0
            trace.append(DET.observe(d))
            if int(d.width) != 0 or float(d.total) != 0.0 or float(d.variance) != 0.0 or bool(d.drift) or any(int(b.idx) for b in d.buckets):
                ck.violation(dict(clause="suffix-window", after="reset"), dict(what="window not empty after reset()", config=cfg, stream=xs[: i + 1], rows=[int(b.idx) for b in d.buckets], width=int(d.width)))
                return trace, False
            continue
        t_upd += 1
        try:
            d.update(value=v)
        except Exception as e:  # noqa: BLE001
            ck.violation(dict(clause="raises", error=type(e).__name__), dict(what="ADWIN.update raised on a non-negative stream", config=cfg, stream=xs[: i + 1], error=repr(e)))
            return trace, False
        seen.append(v)
        trace.append(DET.observe(d))
        w = int(d.width)
        detail = dict(config=cfg, stream=xs[: i + 1], step=i, width=w, width_before=width_prev)
        scale = max(1.0, max(abs(x) for x in xs if not isinstance(x, (str, tuple))))
        # (a) exact suffix window
        if not (0 < w <= len(seen)):
            ck.violation(dict(clause="suffix-window"), dict(what="width out of range", **detail))
            return trace, False
        n, s, ssd = stats(seen[-w:])
        if not (abs(float(d.total) - s) <= tol * scale * w and abs(float(d.variance) - ssd) <= tol * scale * scale * w):
            ck.violation(dict(clause="suffix-window"), dict(what="total/variance differ from sum/SSD of the last `width` values", total=float(d.total), variance=float(d.variance), expected_total=s, expected_ssd=ssd, **detail))
            return trace, False
        # (b) bucket structure
        rows = [int(b.idx) for b in d.buckets]
        if sum(r * 2**k for k, r in enumerate(rows)) != w or any(r > cfg["m"] for r in rows):
            ck.violation(dict(clause="buckets"), dict(what="bucket sizes do not add up to width or a row holds more than m buckets", rows=rows, **detail))
            return trace, False
        shrunk = w < width_prev + 1
        is_check = t_upd % cfg["clock"] == 0 and width_prev + 1 > cfg["min_num_instances"]
        # (c) shrinks only at checks
        if shrunk and not is_check:
            ck.violation(dict(clause="shrink-only-at-check"), dict(what="window shrank outside a check", **detail))
            return trace, False
        # (d) drift iff dropped
        if bool(d.drift) != shrunk:
            ck.violation(dict(clause="drift-iff-dropped", drift=bool(d.drift)), dict(what="drift flag differs from 'data was dropped at this update'", drift=bool(d.drift), dropped=shrunk, **detail))
            return trace, False
        mws = cfg["min_window_size"]
        # (e) a shrink is justified by some contiguous split of the pre-drop window (any position: weaker than bucket boundaries)
        if shrunk:
            W = seen[-(width_prev + 1) :]
            nW, sW, ssdW = stats(W)
            best = -math.inf
            for k in range(mws + 1, nW - mws):
                e = eps_cut(nW, ssdW / nW, k, nW - k, cfg["delta"], mws)
                if e == math.inf:
                    continue
                diff = abs(math.fsum(W[:k]) / k - math.fsum(W[k:]) / (nW - k))
                best = max(best, diff - e)
            if best < -1e-9 * scale:
                ck.violation(dict(clause="shrink-justified"), dict(what="window shrank although no contiguous split of it exceeds eps_cut", best_margin=best, window=W, **detail))
                return trace, False
        # (f) after a check no bucket-boundary split of the final window exceeds eps_cut
        if is_check:
            flat = []
            for k in range(len(d.buckets) - 1, -1, -1):
                b = d.buckets[k]
                flat += [(2**k, float(b.total[j])) for j in range(b.idx)]
            n0, t0 = 0, 0.0
            tot = math.fsum(t for _, t in flat)
            for size, t in flat[:-1]:
                n0 += size
                t0 += t
                n1 = w - n0
                if n0 > mws and n1 > mws:
                    e = eps_cut(w, ssd / w, n0, n1, cfg["delta"], mws)
                    diff = abs(t0 / n0 - (tot - t0) / n1)
                    if e != math.inf and diff - e > 1e-9 * scale:
                        ck.violation(dict(clause="quiet-after-check"), dict(what="a bucket-boundary split still exceeds eps_cut after the check", n0=n0, n1=n1, margin=diff - e, rows=rows, **detail))
                        return trace, False
        width_prev = w
    return trace, True


def run(ck: Check):
    rng = ck.rng
    thorough = ck.tier == "thorough"
    ck.rule(
        "non-negative streams with one to three mean shifts / constants / noise / cancellation-prone magnitudes, m in {1,2,3,5} (and 16/32 with clock 1: single-value drops), clock in {1,2,4,8,32} (long runs followed past the first cut), "
        "large min_num_instances with a cut leaving a narrower window and further level changes while it regrows; runs continue after detections; a third of the histories contain one or two reset() calls in mid-stream (the window must be empty after it and exact again afterwards); after EVERY update the implementation's window is recomputed from the raw stream; non-trivial = the window shrank at least once"
    )
    cases, impl = [], []
    import glob, json, os
    from lib import VERIF

    corpus = [json.load(open(f)) for f in sorted(glob.glob(os.path.join(VERIF, "corpus", "C05", "*.json")))]
    ntotal = 120 if not thorough else 1200
    for it in range(len(corpus) + ntotal):
        if it < len(corpus):
            cfg, xs = corpus[it]["config"], corpus[it]["stream"]
            n = len(xs)
        else:
            cfg = gen_cfg(rng)
            n = rng.choice([30, 60, 120, 200])
            xs = gen_adwin_stream(rng, n)
            r = rng.random()
            if r < 0.12:
                # wide rows: the whole window can sit in row 0, a check may then drop a single value
                cfg["m"] = rng.choice([16, 32])
                cfg["clock"] = 1
                cfg["min_num_instances"] = rng.choice([1, 3, 5])
                cfg["min_window_size"] = 1
                cfg["delta"] = rng.choice([0.5, 0.9])
                n = rng.choice([60, 120])
                k = rng.randrange(8, 30)
                xs = [abs(rng.gauss(0.2, 0.02)) for _ in range(k)] + [abs(rng.gauss(0.9, 0.02)) for _ in range(n - k)]
            elif r < 0.24:
                # a slow clock followed PAST the first cut: abrupt shifts make the cut reach into buckets smaller
                # than the clock, so width and update count fall out of phase
                cfg["clock"] = rng.choice([4, 8, 32])
                cfg["m"] = rng.choice([2, 5])
                cfg["delta"] = rng.choice([0.002, 0.05])
                cfg["min_num_instances"] = rng.choice([5, 10])
                n = rng.choice([400, 640])
                a1, a2 = sorted(rng.sample(range(n // 5, n - 40), 2))
                xs = [abs(rng.gauss(0.2 if (i < a1 or i >= a2) else 0.9, 0.05)) for i in range(n)]
            elif r < 0.36:
                # a large min_num_instances: a first genuine cut leaves a window narrower than it; the level keeps
                # moving while the window regrows, and no check is due until width exceeds min_num_instances again
                cfg["min_num_instances"] = rng.choice([40, 80, 150])
                cfg["clock"] = rng.choice([1, 2, 4, 8])
                cfg["m"] = rng.choice([2, 3, 5])
                cfg["min_window_size"] = rng.choice([1, 2, 5])
                cfg["delta"] = rng.choice([0.002, 0.05, 0.5])
                n0_ = cfg["min_num_instances"] + rng.choice([8, 24, 60])
                xs = [abs(rng.gauss(0.2, 0.03)) for _ in range(n0_)]
                lvl = 0.9
                while len(xs) < n0_ + rng.choice([60, 110]):
                    xs += [abs(rng.gauss(lvl, 0.03)) for _ in range(rng.choice([12, 20, 30]))]
                    lvl = rng.choice([0.1, 0.5, 0.9, 1.4])
                n = len(xs)
            if cfg["m"] == 1 and rng.random() < 0.5:
                # binary-counter shaped windows: staircase stream checked once at an odd length
                cfg["clock"] = rng.choice([23, 39, 47, 55, 87, 95])
                n = cfg["clock"] + rng.choice([0, 3])
                hi = 1 << (cfg["clock"].bit_length() - 1)
                xs = [100.0] * hi + [50.0] * ((cfg["clock"] - hi) // 2 + 1) + [0.0] * n
                xs = xs[:n]
                cfg["delta"] = 0.9
                cfg["min_window_size"] = 1
        if it >= len(corpus) and rng.random() < 0.35 and n > 12:
            # reset() in mid-stream (row 0 non-empty, possibly right after a shrink), then the stream goes on
            for _ in range(rng.choice([1, 2])):
                pos = rng.randrange(3, len(xs) - 2)
                if xs[pos] != "R" and xs[pos - 1] != "R" and xs[pos + 1] != "R":
                    xs = xs[:pos] + ["R"] + xs[pos:]
        special = False
        if it >= len(corpus) and "R" not in xs and n > 40:
            r2 = rng.random()
            if r2 < 0.12:
                pos = rng.randrange(10, len(xs) - 10)
                xs = xs[:pos] + [("copy", rng.choice(["deepcopy", "pickle"]))] + xs[pos:]
                special = True
            elif r2 < 0.24:
                pos = rng.randrange(10, len(xs) - 10)
                field, val = rng.choice([("min_num_instances", rng.choice([1, 30, 90])), ("clock", rng.choice([1, 3, 8])), ("delta", rng.choice([0.002, 0.3])), ("min_window_size", rng.choice([1, 4]))])
                xs = xs[:pos] + [("set", field, val)] + xs[pos:]
                special = True
        trace, ok = monitor(ck, cfg, xs)
        nshrink = sum(1 for t in trace if t[0])
        ck.case(dict(config=cfg, n=n, head=xs[:6], shrinks=nshrink, resets=xs.count("R"), special=special), nontrivial=nshrink > 0, key=repr((cfg, xs)))
        ck.count("updates", len(trace))
        ck.count("shrinking_updates", nshrink)
        ck.count("histories_with_copy_or_setter", int(special))
        if ok and len(xs) <= 220 and not special:
            cases.append((DET, cfg, xs, None))
            impl.append(trace)
    # a slow clock followed past TWO abrupt level changes (own generator: independent of the draws above): the first cut
    # reaches into buckets smaller than the clock, so the window's width and the update count fall out of phase modulo
    # the clock; the later cuts must still happen at clock-th UPDATES only, and every clock-th update must leave no
    # exceeding bucket-boundary split
    import random as _random

    prng = _random.Random(50505)
    nphase = 0
    for clock in (4, 8, 32):
        for m in (2, 5):
            for rep in range(2 if not thorough else 8):
                n = 420 if clock < 32 else 700
                a1 = prng.randrange(n // 5, n // 2) | 1
                a2 = prng.randrange(a1 + 60, n - 60)
                lv = prng.choice([(0.2, 0.9, 0.2), (0.8, 0.1, 0.6), (0.1, 0.5, 0.95)])
                xs = [abs(prng.gauss(lv[0] if i < a1 else lv[1] if i < a2 else lv[2], 0.04)) for i in range(n)]
                cfgp = dict(clock=clock, delta=prng.choice([0.002, 0.05]), m=m, min_window_size=prng.choice([1, 5]), min_num_instances=prng.choice([5, 10]))
                trace, ok = monitor(ck, cfgp, xs)
                nshrink = sum(1 for t in trace if t[0])
                ck.case(dict(family="slow-clock-two-shifts", config=cfgp, n=n, shifts=[a1, a2], shrinks=nshrink), nontrivial=nshrink > 1, key=repr((cfgp, a1, a2, rep)))
                ck.count("updates", len(trace))
                ck.count("shrinking_updates", nshrink)
                nphase += 1
    ck.count("slow_clock_two_shift_runs", nphase)
    # values of magnitude 1e152 (their squares are near the top of the binary64 range, the sum of squared deviations of a few
    # hundred of them is still finite): total / variance must stay the sum / SSD of the window, and a level change is cut
    for rep, lv2 in enumerate((1.0, 1.9)):
        n = 300
        xs = [prng.uniform(1.0, 1.2) * 1e152 for _ in range(n // 2)] + [prng.uniform(lv2, lv2 + 0.2) * 1e152 for _ in range(n - n // 2)]
        cfgp = dict(clock=prng.choice([1, 4]), delta=0.002, m=5, min_window_size=5, min_num_instances=10)
        trace, ok = monitor(ck, cfgp, xs)
        nshrink = sum(1 for t in trace if t[0])
        ck.case(dict(family="huge-magnitudes", config=cfgp, n=n, second_level=lv2, shrinks=nshrink), nontrivial=nshrink > 0, key=repr(("huge", cfgp, rep)))
        ck.count("huge_magnitude_runs")
    # min_num_instances raised / lowered through the configuration's setter shortly before a level change:
    # raised -> no cut while the window is narrower than the NEW value; lowered -> the due checks run (no exceeding split survives)
    for lo, hi, direction in ((5, 150, "raised"), (300, 5, "lowered"), (10, 90, "raised"), (200, 3, "lowered")):
        cfgs = dict(clock=rng.choice([1, 2, 4]), delta=0.002, m=rng.choice([2, 5]), min_window_size=rng.choice([1, 3]), min_num_instances=lo)
        k = rng.choice([40, 56])
        xs = [abs(rng.gauss(0.2, 0.03)) for _ in range(k)] + [("set", "min_num_instances", hi)] + [abs(rng.gauss(0.2, 0.03)) for _ in range(16)] + [abs(rng.gauss(0.9, 0.03)) for _ in range(60)]
        trace, ok = monitor(ck, cfgs, xs)
        ck.case(dict(config=cfgs, kind="min-setter-" + direction, n=len(xs)), nontrivial=any(t[0] for t in trace), key=repr(("minset", cfgs, direction, xs[:4])))
        ck.count("min_setter_histories")
    # a very long window (rows 0..16 in use, sizes up to 2^16): width / total / variance against prefix sums
    import numpy as _np

    for mlong in ([1] if not thorough else [1, 5]):
        nlong = 120000
        cfgl = dict(clock=32, delta=0.002, m=mlong, min_window_size=5, min_num_instances=10)
        nprng = _np.random.RandomState(rng.randrange(2**31))
        xl = _np.abs(_np.concatenate([nprng.normal(0.3, 0.1, nlong - 15000), nprng.normal(0.6, 0.1, 15000)]))
        c1, c2 = _np.concatenate([[0.0], _np.cumsum(xl)]), _np.concatenate([[0.0], _np.cumsum(xl * xl)])
        dl = DET.make(cfgl)
        bad = None
        wprev = 0
        for t, v in enumerate(xl, 1):
            dl.update(value=float(v))
            w = int(dl.width)
            if w < wprev + 1 or t % 5000 == 0 or t == nlong:
                sm = c1[t] - c1[t - w]
                ssd = (c2[t] - c2[t - w]) - sm * sm / w
                if not (abs(float(dl.total) - sm) <= 1e-6 * max(1.0, abs(sm)) and abs(float(dl.variance) - ssd) <= 1e-5 * max(1.0, abs(ssd))):
                    bad = dict(step=t, width=w, total=float(dl.total), expected_total=float(sm), variance=float(dl.variance), expected_ssd=float(ssd))
                    break
            wprev = w
        ck.case(dict(config=cfgl, n=nlong, kind="very-long-run"), nontrivial=True, key=repr(("long", cfgl)))
        ck.count("very_long_run_steps", nlong)
        if bad:
            ck.violation(dict(clause="suffix-window", regime="very-long"), dict(what="after 10^5 values total / variance differ from the sum / SSD of the last `width` values (prefix sums)", config=cfgl, stream="|N(.3,.1)| x 105000 then |N(.6,.1)| x 15000 from the check's generator", **bad))
    # the same 0/1 stream carried by narrow NumPy integers (more than 255 ones: anything accumulated in the values' own type
    # would wrap) and by np.float64: width, total, variance and drift as for Python ints at every step
    tprng = _random.Random(51515)
    cfgt = dict(clock=4, delta=0.002, m=5, min_window_size=5, min_num_instances=10)
    ints = [int(tprng.random() < 0.85) for _ in range(420)] + [int(tprng.random() < 0.3) for _ in range(180)]
    base = DET.make(cfgt)
    ref_tr = []
    for v in ints:
        base.update(value=v)
        ref_tr.append((bool(base.drift), int(base.width), float(base.total), float(base.variance)))
    for dt in (_np.uint8, _np.int8, _np.uint16, _np.float64):
        dd = DET.make(cfgt)
        bad = None
        try:
            for t, v in enumerate(ints):
                dd.update(value=dt(v))
                got = (bool(dd.drift), int(dd.width), float(dd.total), float(dd.variance))
                if got[:2] != ref_tr[t][:2] or abs(got[2] - ref_tr[t][2]) > 1e-9 or abs(got[3] - ref_tr[t][3]) > 1e-7:
                    bad = dict(step=t + 1, typed=got, python_int=ref_tr[t])
                    break
        except Exception as e:  # noqa: BLE001
            bad = dict(error=repr(e))
        ck.case(dict(config=cfgt, kind="typed-stream", dtype=dt.__name__, n=len(ints)), nontrivial=True, key=repr(("typed", dt.__name__)))
        ck.count("typed_stream_runs")
        if bad:
            ck.violation(dict(clause="suffix-window", regime="typed-stream", dtype=dt.__name__), dict(what="width / total / variance / drift on a 0/1 stream depend on the numeric type that carries the values", config=cfgt, dtype=dt.__name__, stream_head=ints[:10], **bad))
    models = run_models("C05", cases, shard=12)
    from detectors import corr_compare

    corr_compare(ck, "C05", cases, impl, models, rtol=1e-7, atol=1e-9)

def main(tier, seed):
    ck = Check("C05", tier, seed)
    ck.proof = check_props("C05")
    ck.assumptions = ["representation theorems are over R; binary64 downdating error is covered only by the tolerance of the run-time comparison"]
    run(ck)
    return ck.finish()
