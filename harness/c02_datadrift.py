"""C02, data-drift part: IncrementalKSTest and streaming MMD after reset() + re-fit on the same
reference behave as a newly constructed instance fitted on it."""
from __future__ import annotations

import math

import numpy as np


def _res(r):
    """canonical form of an update's return value"""
    out = r[0] if isinstance(r, tuple) else r
    if out is None:
        return None
    if hasattr(out, "statistic"):
        return ("stat", float(out.statistic), float(out.p_value))
    if hasattr(out, "distance"):
        return ("dist", float(out.distance))
    return ("?", repr(out))


def _same(a, b):
    if a is None or b is None:
        return a is None and b is None
    return a[0] == b[0] and all((math.isnan(x) and math.isnan(y)) or x == y for x, y in zip(a[1:], b[1:]))


def run(ck):
    from frouros.detectors.data_drift import IncrementalKSTest, MMDStreaming
    from frouros.detectors.data_drift.exceptions import MissingFitError

    rng = ck.rng
    nprng = np.random.RandomState(rng.randrange(2**31))
    thorough = ck.tier == "thorough"
    ck.rule(
        "data-drift streaming detectors: reference + prefix stream (shorter than / equal to / longer than the window, so the ring is empty, partly filled, full or wrapped at the reset), "
        "reset(), update must raise MissingFitError, re-fit on the same reference, then a suffix: counters and every output compared exactly with a new instance"
    )
    for cls, name in [(IncrementalKSTest, "IncrementalKSTest"), (MMDStreaming, "MMDStreaming")]:
        for _ in range(25 if not thorough else 150):
            w = rng.choice([1, 2, 3, 5, 8]) if cls is IncrementalKSTest else rng.choice([2, 3, 5, 8])
            ref = nprng.normal(0, 1, size=rng.choice([5, 12, 30]))
            npre = rng.choice([0, 1, w - 1, w, w + 1, 2 * w + 1, 3 * w])
            pre = [float(x) for x in nprng.normal(rng.choice([0, 2]), 1, size=max(0, npre))]
            suf = [float(x) for x in nprng.normal(rng.choice([0, 1]), 1, size=rng.choice([w, w + 3, 2 * w + 2]))]
            d, f = cls(window_size=w), cls(window_size=w)
            detail = dict(detector=name, window_size=w, reference=[float(x) for x in ref], prefix=pre, suffix=suf)
            try:
                d.fit(X=ref)
                for v in pre:
                    d.update(value=v)
                d.reset()
                # counters read as new right after reset(), before any re-fit (a newly constructed instance is not fitted either)
                n_new = getattr(cls(window_size=w), "num_instances", 0)
                if getattr(d, "num_instances", 0) != n_new:
                    ck.violation(dict(clause="reset-state", detector=name, observable="num_instances-before-refit"),
                                 dict(what="num_instances right after reset() (before re-fitting) differs from that of a newly constructed instance", got=int(d.num_instances), fresh=int(n_new), **detail))
                    continue
                # every other public entry point answers as on a newly constructed instance too (streaming MMD has compare())
                if hasattr(d, "compare"):
                    def _outc(obj):
                        try:
                            r_ = obj.compare(X=ref)
                            return "returned " + type(r_).__name__
                        except Exception as e_:  # noqa: BLE001
                            return type(e_).__name__
                    oc_d, oc_new = _outc(d), _outc(cls(window_size=w))
                    if oc_d != oc_new:
                        ck.violation(dict(clause="reset-state", detector=name, observable="compare-before-refit"),
                                     dict(what="compare() right after reset() (before re-fitting) does not answer as on a newly constructed instance", after_reset=oc_d, fresh=oc_new, **detail))
                        continue
                raised = False
                try:
                    d.update(value=0.0)
                except MissingFitError:
                    raised = True
                if not raised:
                    ck.violation(dict(clause="reset-state", detector=name), dict(what="update after reset() did not raise MissingFitError", **detail))
                    continue
                d.fit(X=ref)
                f.fit(X=ref)
                if getattr(d, "num_instances", 0) != getattr(f, "num_instances", 0):
                    ck.violation(dict(clause="reset-state", detector=name), dict(what="num_instances after reset()+fit differs from a new instance", got=d.num_instances, **detail))
                    continue
                a = [_res(d.update(value=v)) for v in suf]
                b_ = [_res(f.update(value=v)) for v in suf]
            except Exception as e:  # noqa: BLE001
                ck.violation(dict(clause="raises", detector=name, error=type(e).__name__), dict(error=repr(e), **detail))
                continue
            ck.case(dict(detector=name, window_size=w, n_ref=len(ref), prefix_len=len(pre), suffix_len=len(suf)), nontrivial=len(pre) >= w, key=repr((name, w, pre, suf)))
            ck.count(f"cases_{name}")
            k = next((i for i, (x, y) in enumerate(zip(a, b_)) if not _same(x, y)), None)
            if k is not None:
                ck.violation(dict(clause="reset-behaviour", detector=name), dict(what="outputs after reset()+fit differ from a new instance", step=k, after_reset=a[k], fresh=b_[k], **detail))
