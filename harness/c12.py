"""C12 — two-sample test detectors return the named test's valid result for every option.

Monitor (on the implementation): every wrapper x every accepted option value against a direct
SciPy call on (reference, test) in that order; p in [0,1] and not NaN; Kuiper's statistic against
an independent V = D+ + D-; metamorphic relations (sample order, strictly increasing transforms,
swap, category relabelling).
Correspondence (Coq model vs implementation): midranks, Mann-Whitney U, Cramer-von Mises T,
Welch t, chi-square table + statistic, Kuiper D and p-value (Model/Tests.v at FloatA), and the
forwarding model's predicted SciPy call / TypeError for random keyword dictionaries (observed
with a spy installed from here on the SciPy name the wrapper module imported; /repo is not touched).
"""
from __future__ import annotations

import collections
import importlib
import inspect
import math
import re
import types

import numpy as np
import scipy.stats as st

from lib import HEADER, Check, Ctor, check_props, close, coq_eval, fl, fl_list, z, z_list

HDR = HEADER + "From FV Require Import KS Tests.\n"
PKG = "frouros.detectors.data_drift.batch.statistical_test"

W = {
    "AD": dict(cls="AndersonDarlingTest", mod="anderson_darling", fn="anderson_ksamp"),
    "BWS": dict(cls="BWSTest", mod="bws", fn="bws_test"),
    "CVM": dict(cls="CVMTest", mod="cvm", fn="cramervonmises_2samp"),
    "MWU": dict(cls="MannWhitneyUTest", mod="mann_whitney_u", fn="mannwhitneyu"),
    "Welch": dict(cls="WelchTTest", mod="welch_t_test", fn="ttest_ind"),
    "Kuiper": dict(cls="KuiperTest", mod="kuiper_test", fn="ks_2samp"),
    "Chi": dict(cls="ChiSquareTest", mod="chisquare", fn="chi2_contingency"),
}
NUMERIC = ["AD", "BWS", "CVM", "MWU", "Welch", "Kuiper"]
RANK = ["AD", "BWS", "CVM", "MWU", "Kuiper"]
ALT = ["two-sided", "less", "greater"]
NANP = ["propagate", "raise", "omit"]


def PM():
    return st.PermutationMethod(n_resamples=199, random_state=11)


# every option the named SciPy test accepts (Welch: equal_var is fixed by the detector's name)
OPTS = {
    "AD": {"midrank": [True, False], "method": [None, "PM"]},
    "BWS": {"alternative": ALT, "method": [None, "PM"]},
    "CVM": {"method": ["auto", "asymptotic", "exact"], "nan_policy": NANP, "axis": [0], "keepdims": [False, True]},
    "MWU": {
        "use_continuity": [True, False],
        "alternative": ALT,
        "method": ["auto", "asymptotic", "exact", "PM"],
        "nan_policy": NANP,
        "axis": [0],
        "keepdims": [False, True],
    },
    "Welch": {
        "alternative": ALT,
        "nan_policy": NANP,
        "permutations": [None, 200],
        "random_state": [None, 5],
        "trim": [0, 0.1, 0.2],
        "axis": [0],
        "keepdims": [False, True],
    },
    "Kuiper": {},
    "Chi": {
        "correction": [True, False],
        "lambda_": [None, "pearson", "log-likelihood", "freeman-tukey", "mod-log-likelihood", "neyman", "cressie-read", 1.0, 0.0, 0.5],
    },
}


def dec_kw(kw):
    """JSON-able option dictionary -> the Python values handed to compare ("PM" = a PermutationMethod)."""
    return {k: (PM() if v == "PM" else v) for k, v in kw.items()}


def det_cls(w):
    return getattr(importlib.import_module(PKG), W[w]["cls"])


# ------------------------------------------------------------------ implementation / oracle


def run_wrapper(w, ref, test, kw, seed=0):
    try:
        det = det_cls(w)()
        det.fit(X=ref)
    except Exception as e:  # noqa: BLE001  (a reference the direct SciPy call accepts but fit() rejects shows as a difference below)
        return ("exc", type(e).__name__, "fit: " + str(e))
    np.random.seed(seed)
    try:
        res = det.compare(X=test, **dec_kw(kw))[0]
        return ("ok", res.statistic, res.p_value)
    except Exception as e:  # noqa: BLE001
        return ("exc", type(e).__name__, str(e))


def chi_oracle_table(ref, test):
    cats = sorted(set(ref.tolist()) | set(test.tolist()), key=repr)
    cr, ct = collections.Counter(ref.tolist()), collections.Counter(test.tolist())
    return np.array([[cr.get(c, 0) for c in cats], [ct.get(c, 0) for c in cats]]), cats


def kuiper_V(ref, test):
    zs = np.concatenate([ref, test])
    F = np.searchsorted(np.sort(ref), zs, side="right") / len(ref)
    G = np.searchsorted(np.sort(test), zs, side="right") / len(test)
    d = F - G
    return max(d.max(), 0.0) + max((-d).max(), 0.0), max(np.abs(d).max(), 0.0)


def direct(w, ref, test, kw, seed=0):
    """The named test called directly on (reference, test), options = the detector's defaults + kw."""
    k = dec_kw(kw)
    np.random.seed(seed)
    try:
        if w == "AD":
            r = st.anderson_ksamp([ref, test], **k)
        elif w == "BWS":
            r = st.bws_test(ref, test, **k)
        elif w == "CVM":
            r = st.cramervonmises_2samp(ref, test, **k)
        elif w == "MWU":
            r = st.mannwhitneyu(ref, test, **{"nan_policy": "raise", **k})
        elif w == "Welch":
            r = st.ttest_ind(ref, test, equal_var=False, **k)
        elif w == "Chi":
            r = st.chi2_contingency(chi_oracle_table(ref, test)[0], **k)
        else:
            raise AssertionError(w)
        return ("ok", r.statistic, r.pvalue)
    except Exception as e:  # noqa: BLE001
        return ("exc", type(e).__name__, str(e))


def arr_close(a, b, rtol=1e-12, atol=0.0):
    a, b = np.atleast_1d(np.asarray(a, dtype=float)), np.atleast_1d(np.asarray(b, dtype=float))
    return a.shape == b.shape and all(close(x, y, rtol, atol) for x, y in zip(a.ravel(), b.ravel()))


def p_kind(p):
    p = np.atleast_1d(np.asarray(p, dtype=float))
    if np.isnan(p).any():
        return "nan"
    if (p > 1).any():
        return "above-1"
    if (p < 0).any():
        return "below-0"
    return None


def jl(a):
    return np.asarray(a).tolist()


def pooled_constant(ref, test):
    return len(set(ref.tolist()) | set(test.tolist())) == 1


def opt_name(kw):
    return "default" if not kw else (next(iter(kw)) if len(kw) == 1 else "combination")


def monitor(ck, w, ref, test, kw, kind, seed=0):
    """One (detector, data, options) case against the direct call.  Returns the implementation's outcome."""
    cls = W[w]["cls"]
    impl = run_wrapper(w, ref, test, kw, seed)
    base = dict(replay_kind="monitor", wrapper=w, detector=cls, ref=jl(ref), test=jl(test), kw=kw, data_kind=kind, seed=seed)
    ck.count(f"{w}:{'+'.join(sorted(kw)) or 'default'}")
    if w == "Kuiper":
        if impl[0] == "exc":
            ck.violation(dict(clause="raises", detector=cls), dict(base, error=impl[1:]))
            return impl
        V, D = kuiper_V(ref, test)
        if not close(impl[1], V, 1e-9, 1e-12):
            ck.violation(
                dict(clause="named-statistic", detector=cls),
                dict(base, what="reported statistic is the Kolmogorov-Smirnov D = max(D+, D-), not Kuiper's V = D+ + D-", got=float(impl[1]), kuiper_V=float(V), ks_D=float(D)),
            )
        pk = p_kind(impl[2])
        if pk:
            ck.violation(dict(clause="p-range", detector=cls, kind=pk), dict(base, what="p-value outside [0,1] or NaN", statistic=float(impl[1]), p_value=float(impl[2])))
        return impl
    exp = direct(w, ref, test, kw, seed)
    if impl[0] == "exc" and exp[0] == "exc":
        m = re.search(r"multiple values for keyword argument '(\w+)'", impl[2])
        if impl[1] != exp[1] and m:
            ck.violation(dict(clause="option-honoured", detector=cls, option=m.group(1), error="TypeError"), dict(base, what="an accepted option is rejected (the option combination is invalid for SciPy as well, with another error)", error=impl[1:], direct_error=exp[1:]))
        elif impl[1] != exp[1]:
            ck.violation(dict(clause="raises", detector=cls, option=opt_name(kw)), dict(base, wrapper_error=impl[1:], direct_error=exp[1:]))
        ck.count("both-raise")
        return impl
    if impl[0] == "exc":
        m = re.search(r"keyword argument '(\w+)'", impl[2])
        if impl[1] == "TypeError":
            ck.violation(
                dict(clause="option-honoured", detector=cls, option=m.group(1) if m else "+".join(sorted(kw)), error="TypeError"),
                dict(base, what="an accepted option is rejected: the direct SciPy call with the same option succeeds", error=impl[1:], direct=[jl(exp[1]), jl(exp[2])]),
            )
        else:
            ck.violation(dict(clause="raises", detector=cls, option=opt_name(kw)), dict(base, error=impl[1:], direct=[jl(exp[1]), jl(exp[2])]))
        return impl
    if exp[0] == "exc":
        ck.violation(dict(clause="named-result", detector=cls, option=opt_name(kw)), dict(base, what="direct call raises, the detector returns", direct_error=exp[1:], got=[jl(impl[1]), jl(impl[2])]))
        return impl
    if not (arr_close(impl[1], exp[1]) and arr_close(impl[2], exp[2])):
        ck.violation(
            dict(clause="named-result", detector=cls, option=opt_name(kw)),
            dict(base, what="(statistic, p-value) differ from the named test on (reference, test) with these options", got=[jl(impl[1]), jl(impl[2])], expected=[jl(exp[1]), jl(exp[2])]),
        )
    pk = p_kind(impl[2])
    if pk:
        if w != "Chi" and pooled_constant(ref, test):
            ck.count("undefined-test-input(all pooled values equal)")
        else:
            sig = dict(clause="p-range", detector=cls, kind=pk)
            if w == "Chi":
                lam = kw.get("lambda_")
                lamv = {"freeman-tukey": -0.5, "neyman": -2.0, "mod-log-likelihood": -1.0}.get(lam, lam if isinstance(lam, float) else 1.0)
                tab = chi_oracle_table(ref, test)[0]
                sig.update(option="lambda_<0" if lamv < 0 else "lambda_>=0", input="zero-cell" if (tab == 0).any() else "positive-cells")
            ck.violation(sig, dict(base, what="p-value outside [0,1] or NaN", statistic=jl(impl[1]), p_value=jl(impl[2])))
    return impl


# ------------------------------------------------------------------ data


SIZES = [3, 3, 3, 4, 4, 5, 5, 6, 7, 8, 10, 13, 20, 27, 40]
KINDS = ["gauss", "gauss", "shift", "shift", "grid", "grid", "ties", "ties", "interleaved", "identical", "one-const", "const-diff", "const-equal"]


def gen_pair(rng, kind=None, n=None, m=None):
    kind = kind or rng.choice(KINDS)
    n = n or rng.choice(SIZES)
    m = m or rng.choice(SIZES)
    if kind == "gauss":
        a, b_ = [rng.gauss(0, 1) for _ in range(n)], [rng.gauss(0, 1) for _ in range(m)]
    elif kind == "shift":
        d, s = rng.choice([(0.5, 1.0), (1.5, 1.0), (0.0, 3.0), (-1.0, 0.5)])
        a, b_ = [rng.gauss(0, 1) for _ in range(n)], [rng.gauss(d, s) for _ in range(m)]
    elif kind == "grid":
        a, b_ = [rng.randrange(-24, 25) / 8 for _ in range(n)], [rng.randrange(-20, 29) / 8 for _ in range(m)]
    elif kind == "ties":
        k = rng.choice([2, 3, 5])
        a, b_ = [float(rng.randrange(k)) for _ in range(n)], [float(rng.randrange(k + 1)) for _ in range(m)]
    elif kind == "interleaved":
        a, b_ = [float(2 * i + 1) for i in range(n)], [float(2 * i + 2) for i in range(m)]
        rng.shuffle(a)
        rng.shuffle(b_)
    elif kind == "far-shift":
        # most of the batch above most of the reference: a large statistic (0.5 < D < 1) without complete separation
        a = [float(i) for i in range(n)]
        off = rng.choice([0.55, 0.7, 0.85]) * n
        b_ = [off + 0.5 + i * (n / m) for i in range(m)]
        rng.shuffle(a)
        rng.shuffle(b_)
    elif kind == "identical":
        a = [rng.randrange(-24, 25) / 8 for _ in range(n)]
        b_ = list(a)
        rng.shuffle(b_)
    elif kind == "one-const":
        a, b_ = [rng.randrange(-8, 9) / 4 for _ in range(n)], [0.5] * m
        if rng.random() < 0.5:
            a, b_ = [0.5] * n, [rng.randrange(-8, 9) / 4 for _ in range(m)]
    elif kind == "const-diff":
        a, b_ = [1.5] * n, [2.5] * m
    else:
        a, b_ = [1.5] * n, [1.5] * m
    return np.array(a, dtype=float), np.array(b_, dtype=float), kind


def gen_cat(rng):
    n, m = rng.choice(SIZES), rng.choice(SIZES)
    k = rng.choice([1, 2, 2, 3, 4, 6])
    style = rng.choice(["both", "both", "test-misses", "ref-misses", "disjoint"])
    ca = list(range(k))
    cb = list(range(k))
    if style == "test-misses" and k > 1:
        cb = cb[:-1]
    elif style == "ref-misses" and k > 1:
        ca = ca[1:]
    elif style == "disjoint":
        cb = [c + k for c in cb]
    a = [rng.choice(ca) for _ in range(n)]
    b_ = [rng.choice(cb) for _ in range(m)]
    return a, b_, style


LABELS = [
    ("str", lambda c: f"c{c}"),
    ("rev-str", lambda c: "zyxwvutsrqpon"[c]),
    ("int", lambda c: c),
    ("shifted-int", lambda c: 100 - 7 * c),
    # labels that collide under str(): the int k and the string "k" are different categories (object arrays)
    ("int-vs-digit-string", lambda c: (c // 2) if c % 2 == 0 else str(c // 2)),
]


def cat_arrays(a, b_, lab):
    f = dict(LABELS)[lab]
    if lab == "int-vs-digit-string":
        return np.array([f(c) for c in a], dtype=object), np.array([f(c) for c in b_], dtype=object)
    return np.array([f(c) for c in a]), np.array([f(c) for c in b_])


def same_pattern(x, fx):
    """f preserved the order and the ties of x exactly (needed before comparing rank statistics)."""
    o = np.argsort(x, kind="stable")
    xs, fs = x[o], fx[o]
    return bool(np.all((np.diff(xs) > 0) == (np.diff(fs) > 0)) and np.all((np.diff(xs) == 0) == (np.diff(fs) == 0)))


TRANSFORMS = [("exp", np.exp), ("cube", lambda v: v**3), ("affine", lambda v: 2.0 * v + 3.0), ("atan-scaled", lambda v: 5.0 * np.arctan(v))]


# ------------------------------------------------------------------ Coq literals


def lam_cell(lam):
    if lam is None or lam == "pearson" or lam == 1.0:
        return "pearson"
    if lam == "log-likelihood" or lam == 0.0:
        return "loglik"
    if lam == "mod-log-likelihood" or lam == -1.0:
        return "modloglik"
    v = {"freeman-tukey": -0.5, "neyman": -2.0, "cressie-read": 2 / 3}.get(lam, lam)
    return f"(cressie (A:=FloatA) {fl(v)})"


FR = {0.1: (1, 10), 0.2: (1, 5), 0.5: (1, 2), 1.0: (1, 1), 0.0: (0, 1)}


def coq_val(v, objs):
    if v is None:
        return "VNone"
    if isinstance(v, bool):
        return f"VBool {'true' if v else 'false'}"
    if isinstance(v, str):
        return f'VStr "{v}"%string'
    if isinstance(v, int):
        return f"VInt {z(v)}"
    if isinstance(v, float):
        p, q = FR[v]
        return f"VFrac {p} {q}"
    return f"VObj {objs.index(v)}"


def py_desc(v, objs, ref=None, test=None):
    """Description of a Python argument in the vocabulary of Model/Tests.v (as plain tuples)."""
    if v is None:
        return ("VNone",)
    if isinstance(v, (bool, np.bool_)):
        return ("VBool", bool(v))
    if isinstance(v, str):
        return ("VStr", v)
    if isinstance(v, int):
        return ("VInt", v)
    if isinstance(v, float):
        return ("VFrac",) + FR[v]
    if isinstance(v, list):
        return ("VList", [py_desc(e, objs, ref, test) for e in v])
    if isinstance(v, np.ndarray):
        if v is ref:
            return ("VSample", ("Ref",))
        if v is test:
            return ("VSample", ("Test",))
        if v.ndim == 1 and np.array_equal(v, np.sort(ref)):
            return ("VSorted", ("Ref",))
        if v.ndim == 1 and np.array_equal(v, np.sort(test)):
            return ("VSorted", ("Test",))
        if v.ndim == 2 and v.shape[0] == 2:
            cr, ct = collections.Counter(ref.tolist()), collections.Counter(test.tolist())
            cols = sorted(zip(v[0].tolist(), v[1].tolist()))
            cats = set(cr) | set(ct)
            if cols == sorted((ct.get(c, 0), cr.get(c, 0)) for c in cats):
                return ("VList", [("VCounts", ("Test",)), ("VCounts", ("Ref",))])
            if cols == sorted((cr.get(c, 0), ct.get(c, 0)) for c in cats):
                return ("VList", [("VCounts", ("Ref",)), ("VCounts", ("Test",))])
        return ("unrecognised-array", v.tolist())
    for i, o in enumerate(objs):
        if v is o:
            return ("VObj", i)
    return ("unrecognised", repr(v))


def norm(v):
    """Parsed Coq value -> plain tuples / lists."""
    if isinstance(v, Ctor):
        return (v.name,) + tuple(norm(a) for a in v.args)
    if isinstance(v, tuple):
        if len(v) == 2 and v[0] == "Some":
            return ("Some", norm(v[1]))
        return tuple(norm(a) for a in v)
    if isinstance(v, list):
        return [norm(a) for a in v]
    return v


KEYNAMES = ["X", "X_ref", "Y", "samples", "x", "y", "a", "b", "data1", "data2", "observed", "alternative", "method", "midrank", "nan_policy", "equal_var", "use_continuity", "axis", "keepdims", "permutations", "random_state", "trim", "correction", "lambda_"]


def coq_key(k):
    return "K" + k if k in KEYNAMES else "Kother"


def spy_call(w, ref, test, kwpy):
    """What reaches SciPy: ('Ok', fn name, [(param, value)...]) or ('Raise', exception class name)."""
    mod = importlib.import_module(f"{PKG}.{W[w]['mod']}")
    fn = W[w]["fn"]
    real = getattr(mod, fn)
    sig = inspect.signature(real)
    rec = []

    def fake(*a, **k):
        ba = sig.bind(*a, **k)
        ba.apply_defaults()
        rec.append(list(ba.arguments.items()))
        if fn == "chi2_contingency":
            return (0.0, 0.5, 1, None)
        return types.SimpleNamespace(statistic=np.float64(0.5), pvalue=np.float64(0.5))

    det = det_cls(w)()
    det.fit(X=ref)
    setattr(mod, fn, fake)
    try:
        det.compare(X=test, **kwpy)
    except Exception as e:  # noqa: BLE001
        return ("Raise", type(e).__name__)
    finally:
        setattr(mod, fn, real)
    if len(rec) != 1:
        return ("Raise", f"{len(rec)} SciPy calls")
    return ("Ok", fn, rec[0])


# ------------------------------------------------------------------ the run


def run(ck: Check):
    rng = ck.rng
    thorough = ck.tier == "thorough"
    NP = 36 if not thorough else 260  # numeric pairs
    NC = 30 if not thorough else 220  # categorical pairs
    NF = 150 if not thorough else 1200  # forwarding dictionaries
    ck.rule(
        "histories on one instance: fit(A); compare; fit(B) without reset; compare == a new instance on B, and the reference itself / a permutation of it as the batch == the named test on (ref, ref); "
        "sample pairs of sizes 3..40 (3-5 over-represented) of kinds gauss / shifted / 1/8-grid (ties, exact transforms) / small alphabets (heavy ties) / interleaved "
        "(small D) / identical / one or both constant; every detector on every pair with default options, and every single value of every accepted option "
        "(alternative, method incl. PermutationMethod, midrank, use_continuity, nan_policy, axis, keepdims, permutations, random_state, trim, correction, lambda_) "
        "plus random 2-3 option combinations, each against a direct SciPy call on (reference, test); categorical pairs over 1..6 categories with categories missing "
        "from either sample or disjoint, under 4 labelings; keyword dictionaries for the forwarding model: 0-3 keys from the accepted names plus foreign names "
        "(X, X_ref, equal_var, foo, another test's options); non-trivial = the case's p-value is strictly inside (0,1) or it exercises a non-default option"
    )
    corr = []  # (expr, check(parsed) -> None | detail, what)

    def add(expr, fn, what):
        corr.append((expr, fn, what))

    # ---------------- numeric detectors
    pairs = []
    fixed = [("interleaved", 3, 3), ("interleaved", 4, 4), ("interleaved", 2, 3), ("gauss", 2, 2), ("ties", 3, 4), ("grid", 5, 5), ("const-equal", 4, 6), ("identical", 5, 5), ("one-const", 3, 7), ("const-diff", 5, 8),
             # sizes whose effective size n*m/(n+m) is an even / odd INTEGER, with a large statistic (end to end through compare)
             ("far-shift", 10, 15), ("far-shift", 20, 30), ("far-shift", 15, 10), ("far-shift", 12, 24), ("far-shift", 6, 3), ("far-shift", 30, 20)]
    for i in range(NP):
        if i < len(fixed):
            pairs.append(gen_pair(rng, *fixed[i]))
        else:
            pairs.append(gen_pair(rng))
    for pi, (ref, test, kind) in enumerate(pairs):
        n, m = len(ref), len(test)
        ck.count(f"kind:{kind}")
        ck.count(f"size:{'<=5' if max(n, m) <= 5 else '<=13' if max(n, m) <= 13 else '<=40'}")
        undefined = pooled_constant(ref, test)
        base_res = {}
        for w in NUMERIC:
            if w == "AD" and undefined:
                ck.count("undefined-test-input(all pooled values equal)")
                continue
            r = monitor(ck, w, ref, test, {}, kind, seed=pi)
            base_res[w] = r
            nontriv = r[0] == "ok" and not p_kind(r[2]) and 0 < float(np.atleast_1d(r[2])[0]) < 1
            ck.case(dict(detector=W[w]["cls"], kind=kind, n=n, m=m, result=[jl(x) for x in r[1:]]), nontrivial=nontriv, key=repr((w, ref.tolist(), test.tolist())))
        # ---- option sweep: every value of every option on a rotating subset, all of them on the first pairs
        for w in NUMERIC:
            if w == "AD" and undefined:
                continue
            singles = [{k: v} for k, vs in OPTS[w].items() for v in vs]
            if pi >= 4:
                singles = [s for j, s in enumerate(singles) if (j + pi) % 4 == 0]
            combos = []
            for _ in range(2):
                ks = rng.sample(sorted(OPTS[w]), min(len(OPTS[w]), rng.choice([2, 3])))
                combos.append({k: rng.choice(OPTS[w][k]) for k in ks})
            for kw in singles + combos:
                if kw.get("method") == "exact" and max(n, m) > 20:
                    continue
                if kw.get("permutations") is not None and kw.get("trim", 0) != 0:
                    continue  # SciPy: "Permutations are currently not supported with trimming."
                if w == "BWS" and n + m > 30 and kw.get("method") is None and pi % 3:
                    continue  # 9999 resamples each: keep a third of them
                r = monitor(ck, w, ref, test, kw, kind, seed=pi)
                ck.case(dict(detector=W[w]["cls"], kind=kind, n=n, m=m, kw=kw), nontrivial=r[0] == "ok", key=repr((w, ref.tolist(), test.tolist(), sorted(kw.items(), key=repr))))
        # ---- metamorphic relations on the implementation
        exact_bws = math.comb(n + m, n) <= 9999
        perm_r = np.array(rng.sample(ref.tolist(), n))
        perm_t = np.array(rng.sample(test.tolist(), m))
        for w in NUMERIC:
            b0 = base_res.get(w)
            if b0 is None or b0[0] != "ok" or p_kind(b0[2]):
                continue
            cls = W[w]["cls"]
            tol = 1e-7 if w == "Welch" else 1e-9
            det = dict(replay_kind="metamorphic", wrapper=w, detector=cls, ref=jl(ref), test=jl(test), data_kind=kind, seed=pi)
            r1 = run_wrapper(w, perm_r, perm_t, {}, seed=pi)
            skip_p = w == "BWS" and not exact_bws
            if r1[0] == "ok" and w == "Welch" and (len(set(ref.tolist())) == 1 or len(set(test.tolist())) == 1) and not close(b0[1], r1[1], tol, 1e-9):
                ck.near_ties += 1  # zero variance: rounding noise in the mean decides a 0/0
            elif r1[0] != "ok" or not arr_close(b0[1], r1[1], tol, 1e-9) or not (skip_p or arr_close(b0[2], r1[2], tol, 1e-12)):
                ck.violation(dict(clause="sample-order", detector=cls), dict(det, what="result changes when the samples are reordered", ref_perm=jl(perm_r), test_perm=jl(perm_t), got=[jl(x) for x in b0[1:]], permuted=[jl(x) for x in r1[1:]]))
            ck.count("meta:order")
            if w in RANK:
                tname, f = rng.choice(TRANSFORMS)
                fr, ft = f(ref), f(test)
                pooled, fpooled = np.concatenate([ref, test]), np.concatenate([fr, ft])
                if not same_pattern(pooled, fpooled):
                    ck.near_ties += 1
                else:
                    r2 = run_wrapper(w, fr, ft, {}, seed=pi)
                    if r2[0] != "ok" or not arr_close(b0[1], r2[1], 1e-9, 1e-9) or not (skip_p or arr_close(b0[2], r2[2], 1e-9, 1e-12)):
                        ck.violation(dict(clause="monotone-invariance", detector=cls), dict(det, what=f"rank-based result changes under the strictly increasing transform {tname}", transform=tname, got=[jl(x) for x in b0[1:]], transformed=[jl(x) for x in r2[1:]]))
                    ck.count("meta:monotone")
            r3 = run_wrapper(w, test, ref, {}, seed=pi)
            ok3 = r3[0] == "ok"
            if ok3 and w in ("AD", "CVM", "BWS", "Kuiper"):
                ok3 = arr_close(b0[1], r3[1], 1e-9, 1e-9)
            if ok3 and w == "MWU":
                ok3 = close(float(b0[1]) + float(r3[1]), n * m, 1e-12, 1e-9)
            if ok3 and w == "Welch":
                if math.isnan(float(b0[1])) or math.isinf(float(b0[1])):
                    ok3 = True
                else:
                    ok3 = close(float(b0[1]), -float(r3[1]), 1e-9, 1e-9)
            if ok3 and not skip_p and not (w == "Welch" and math.isnan(float(b0[1]))):
                ok3 = arr_close(b0[2], r3[2], tol, 1e-12)
            if not ok3:
                ck.violation(dict(clause="swap-symmetry", detector=cls), dict(det, what="two-sided result is not symmetric under swapping the samples", got=[jl(x) for x in b0[1:]], swapped=[jl(x) for x in r3[1:]]))
            ck.count("meta:swap")
            # one-sided alternatives mirror under the swap (where the detector accepts `alternative`)
            if w in ("BWS", "MWU", "Welch") and (w != "BWS" or exact_bws):
                ra = run_wrapper(w, ref, test, {"alternative": "less"}, seed=pi)
                rb = run_wrapper(w, test, ref, {"alternative": "greater"}, seed=pi)
                if ra[0] == "ok" and rb[0] == "ok" and not (p_kind(ra[2]) or p_kind(rb[2])):
                    if not arr_close(ra[2], rb[2], tol, 1e-12):
                        ck.violation(dict(clause="swap-symmetry", detector=cls, option="alternative"), dict(det, what="p(less; ref,test) != p(greater; test,ref)", less=[jl(x) for x in ra[1:]], greater_swapped=[jl(x) for x in rb[1:]]))
                    ck.count("meta:one-sided-mirror")
        # ---- correspondence with the Coq models
        X, Y = fl_list(ref), fl_list(test)
        pooled = np.concatenate([ref, test])

        def chk_ranks(res, pooled=pooled):
            exp = [int(round(2 * r)) for r in st.rankdata(pooled)]
            return None if res == exp else dict(model=res, scipy_rankdata_x2=exp)

        add(f"midranks2 PrimFloat.ltb ({X} ++ {Y})", chk_ranks, "midranks2 vs scipy.stats.rankdata")
        b = base_res.get("MWU")
        if b and b[0] == "ok":
            add(f"(mwu_U2 PrimFloat.ltb {X} {Y}, pairs2 PrimFloat.ltb {X} {Y})", (lambda res, u=float(b[1]): None if (res[0] == res[1] and close(res[0] / 2, u, 1e-12, 1e-9)) else dict(model_2U=res, impl_U=u)), "mwu_U2 vs MannWhitneyUTest statistic")
        b = base_res.get("CVM")
        if b and b[0] == "ok":
            add(f"cvm_T_frac PrimFloat.ltb {X} {Y}", (lambda res, t=float(b[1]): None if close(res[0] / res[1], t, 1e-9, 1e-12) else dict(model=res, model_T=res[0] / res[1], impl_T=t)), "cvm_T_frac vs CVMTest statistic")
        b = base_res.get("Welch")
        if b and b[0] == "ok":

            def chk_t(res, t=float(b[1]), ref=ref, test=test):
                if len(set(ref.tolist())) == 1 or len(set(test.tolist())) == 1 or math.isnan(t) or math.isinf(t):
                    # zero variance in a sample: the rounding of the mean decides between 0 and 1e-17; compare only when both finite
                    if isinstance(res, float) and math.isfinite(res) and math.isfinite(t):
                        return None if close(res, t, 1e-6, 1e-9) else dict(model=res, impl=t)
                    ck.near_ties += 1
                    return None
                return None if close(res, t, 1e-9, 1e-12) else dict(model=res, impl=t)

            add(f"welch_t (A:=FloatA) {X} {Y}", chk_t, "welch_t (FloatA) vs WelchTTest statistic")
        b = base_res.get("Kuiper")
        if b and b[0] == "ok":

            def chk_k(res, d=float(b[1]), p=float(b[2]), n=n, m=m):
                H, pm = res
                if not close(H / (n * m), d, 1e-12, 1e-15):
                    return dict(model_D=H / (n * m), impl_D=d)
                return None if close(pm, p, 1e-9, 1e-11) else dict(model_p=pm, impl_p=p, D=d, n=n, m=m)

            add(f"(ks_H (A:=FloatA) {X} {Y}, clip01 (A:=FloatA) (kuiper_fpp (A:=FloatA) {fl(float(b[1]))} {n} {m}))", chk_k, "ks_H / clip01 (kuiper_fpp) (FloatA) vs KuiperTest (statistic, p-value)")

    # ---------------- Kuiper p-value code on a grid of (D, n, m) (all four branches)
    KT = det_cls("Kuiper")
    grid = []
    for n in range(2, 11):
        for m in range(n, 11):
            hs = sorted({0, 1, n, m, n * m // 3, n * m // 2, n * m // 2 + 1, (2 * n * m) // 3, n * m - 1, n * m} & set(range(n * m + 1)))
            grid += [(n, m, h) for h in hs]
    extra = [(rng.randrange(2, 41), rng.randrange(2, 41)) for _ in range(40 if not thorough else 300)]
    grid += [(n, m, rng.randrange(1, n * m + 1)) for n, m in extra]
    # unequal sizes whose effective size n*m/(n+m) is an INTEGER (the parity tests of the finite-N formula decide on it;
    # computed as 1/(1/n + 1/m) it lands an ulp off), with large statistics
    integral = [(n, m) for n in range(2, 61) for m in range(n + 1, 61) if (n * m) % (n + m) == 0]
    for n, m in (integral if thorough else rng.sample(integral, min(14, len(integral))) + [(10, 15), (20, 30)]):
        for h in {(2 * n * m) // 3, (3 * n * m) // 4, n * m - 1, n * m // 2 + 1}:
            grid.append((n, m, h))
            grid.append((m, n, h))
    for n, m, h in grid:
        D = np.float64(h / (n * m))
        N = n * m / float(n + m)
        try:
            p = float(KT._false_positive_probability(D, N))
        except Exception as e:  # noqa: BLE001
            p = ("exc", type(e).__name__)
        ck.count("kuiper-grid")

        def chk_g(res, p=p, D=float(D), n=n, m=m):
            if isinstance(p, tuple):
                return dict(impl_raises=p, model=res, D=D, n=n, m=m)
            return None if close(res, p, 1e-9, 1e-11) else dict(model_p=res, impl_p=p, D=D, n=n, m=m)

        add(f"kuiper_fpp (A:=FloatA) {fl(float(D))} {n} {m}", chk_g, "kuiper_fpp (FloatA) vs KuiperTest._false_positive_probability")

    # ---------------- histories on ONE instance: re-fit without reset, the reference itself as the batch
    def same_res(a, b_):
        return a[0] == b_[0] and (a[0] != "ok" or (arr_close(a[1], b_[1], 1e-9, 1e-12) and (p_kind(a[2]) == p_kind(b_[2])) and (p_kind(a[2]) or arr_close(a[2], b_[2], 1e-9, 1e-12))))

    def on_instance(det, test, kw, seed):
        np.random.seed(seed)
        try:
            res = det.compare(X=test, **dec_kw(kw))[0]
            return ("ok", res.statistic, res.p_value)
        except Exception as e:  # noqa: BLE001
            return ("exc", type(e).__name__, str(e))

    for hi in range(10 if not thorough else 60):
        for w in NUMERIC + ["Chi"]:
            if w == "Chi":
                a, b_, _style = gen_cat(rng)
                A_, Y1 = cat_arrays(a, b_, "str")
                a2, b2, _ = gen_cat(rng)
                B_, Y2 = cat_arrays(a2 + ["zz"], b2, "str")  # a category the first reference did not have
                kw = {}
            else:
                A_, Y1, _k = gen_pair(rng, n=rng.choice([6, 9, 14]), m=rng.choice([5, 8]))
                B_, Y2, _k = gen_pair(rng, n=rng.choice([7, 11]), m=rng.choice([6, 9]))
                B_ = B_ + 1.5
                kw = {"method": "exact"} if w == "BWS" else {}
            if w != "Chi" and (pooled_constant(A_, Y1) or pooled_constant(B_, Y2) or pooled_constant(A_, A_)):
                continue
            det = det_cls(w)()
            det.fit(X=A_)
            first = on_instance(det, Y1, kw, hi)
            det.fit(X=B_)  # no reset() in between
            second = on_instance(det, Y2, kw, hi)
            fresh = run_wrapper(w, B_, Y2, kw, seed=hi)
            ck.case(dict(detector=W[w]["cls"], kind="refit-without-reset", n=len(B_), m=len(Y2)), nontrivial=second[0] == "ok", key=repr(("refit", w, hi, jl(B_), jl(Y2))))
            ck.count("history:refit")
            if not same_res(second, fresh):
                ck.violation(dict(clause="refit", detector=W[w]["cls"]), dict(what="fit(A); compare; fit(B); compare(Y) on one instance differs from a new instance fitted on B", detector=W[w]["cls"], A=jl(A_), Y1=jl(Y1), B=jl(B_), Y=jl(Y2), kw=kw, got=[jl(x) for x in second[1:]], fresh=[jl(x) for x in fresh[1:]], first=[jl(x) for x in first[1:]]))
            # the reference itself (element by element) and a permutation of it as the batch
            if w == "AD":
                continue  # SciPy's anderson_ksamp needs more than one distinct pooled value and warns on identical samples; covered by MWU / CVM / Welch / BWS / Kuiper / chi-square
            det2 = det_cls(w)()
            det2.fit(X=B_)
            own = on_instance(det2, np.array(B_.tolist()), kw, hi)
            perm = on_instance(det2, np.array(rng.sample(B_.tolist(), len(B_))), kw, hi)
            oracle = direct(w, B_, np.array(B_.tolist()), kw, seed=hi) if w != "Kuiper" else perm
            ck.count("history:self-batch")
            if not same_res(own, perm) or not same_res(own, oracle):
                ck.violation(dict(clause="self-batch", detector=W[w]["cls"]), dict(what="compare(batch equal to the reference) differs from the named test on (reference, reference) / from a permutation of the same batch", detector=W[w]["cls"], B=jl(B_), kw=kw, got=[jl(x) for x in own[1:]], permuted=[jl(x) for x in perm[1:]], direct=[jl(x) for x in oracle[1:]]))

    # ---------------- an INTEGER reference with a fractional float batch (and the reverse): the named test on the VALUES
    for hi in range(6 if not thorough else 30):
        for w in NUMERIC:
            ai = np.array([rng.randrange(-6, 12) for _ in range(rng.choice([7, 12]))], dtype=rng.choice([np.int64, np.int32]))
            yf = np.array([rng.randrange(-24, 48) / 4 + 0.125 for _ in range(rng.choice([6, 9]))])
            for ref, test, what in ((ai, yf, "int reference, float batch"), (yf, ai, "float reference, int batch")):
                if pooled_constant(ref.astype(float), test.astype(float)):
                    continue
                kw = {"method": "exact"} if w == "BWS" else {}
                got = run_wrapper(w, ref, test, kw, seed=hi)
                want = run_wrapper(w, ref.astype(float), test.astype(float), kw, seed=hi)
                ck.case(dict(detector=W[w]["cls"], kind="mixed-dtypes", what=what), nontrivial=got[0] == "ok", key=repr(("mixed", w, hi, what, ref.tolist(), test.tolist())))
                ck.count("mixed_dtype_pairs")
                if not same_res(got, want):
                    ck.violation(dict(clause="dtype", detector=W[w]["cls"]), dict(what="result for an integer-typed sample against a float-typed one differs from the result on the same values as floats", detector=W[w]["cls"], case=what, ref=jl(ref), test=jl(test), got=[jl(x) for x in got[1:]], as_floats=[jl(x) for x in want[1:]]))

    # ---------------- chi-square
    CT = det_cls("Chi")
    for ci in range(NC):
        a, b_, style = gen_cat(rng)
        ck.count(f"chi:{style}")
        res_by_label = {}
        for lab, _ in LABELS:
            ref, test = cat_arrays(a, b_, lab)
            singles = [{}] + [{k: v} for k, vs in OPTS["Chi"].items() for v in vs]
            if lab != "str":
                singles = [{}] + rng.sample(singles[1:], 3)
            singles.append({"correction": rng.choice([True, False]), "lambda_": rng.choice(OPTS["Chi"]["lambda_"])})
            for kw in singles:
                r = monitor(ck, "Chi", ref, test, kw, f"{style}/{lab}", seed=ci)
                key = repr(sorted(kw.items(), key=repr))
                res_by_label.setdefault(key, []).append((lab, r, kw))
                ck.case(dict(detector="ChiSquareTest", style=style, label=lab, n=len(a), m=len(b_), kw=kw, result=[jl(x) for x in r[1:]]), nontrivial=r[0] == "ok" and not p_kind(r[2]) and 0 < float(r[2]) < 1, key=repr((a, b_, lab, key)))
        # relabelling / order / swap on the implementation
        det = dict(replay_kind="chi-metamorphic", a=a, b=b_, style=style, seed=ci)
        for key, rs in res_by_label.items():
            l0, r0, kw = rs[0]
            for lab, r, _ in rs[1:]:
                if r0[0] != r[0] or (r0[0] == "ok" and not (arr_close(r0[1], r[1], 1e-9, 1e-12) and arr_close(r0[2], r[2], 1e-9, 1e-12))):
                    ck.violation(dict(clause="relabelling", detector="ChiSquareTest"), dict(det, what="result depends on the category labels", kw=kw, labels=[l0, lab], results=[[jl(x) for x in r0[1:]], [jl(x) for x in r[1:]]]))
                ck.count("meta:relabel")
        ref, test = cat_arrays(a, b_, "str")
        kw = {"correction": rng.choice([True, False])}
        r0 = run_wrapper("Chi", ref, test, kw)
        r1 = run_wrapper("Chi", np.array(rng.sample(ref.tolist(), len(ref))), np.array(rng.sample(test.tolist(), len(test))), kw)
        r2 = run_wrapper("Chi", test, ref, kw)
        for name, rr in (("sample-order", r1), ("swap-symmetry", r2)):
            if r0[0] != rr[0] or (r0[0] == "ok" and not (arr_close(r0[1], rr[1], 1e-9, 1e-12) and arr_close(r0[2], rr[2], 1e-9, 1e-12))):
                ck.violation(dict(clause=name, detector="ChiSquareTest"), dict(det, kw=kw, got=[jl(x) for x in r0[1:]], other=[jl(x) for x in rr[1:]]))
            ck.count(f"meta:chi-{name}")
        # correspondence: table and statistic (integer codes; the set order Python used)
        ref, test = cat_arrays(a, b_, "int")
        rc, tc = collections.Counter(ref), collections.Counter(test)
        pv = [int(v) for v in set([*rc.keys()] + [*tc.keys()])]
        f_exp, f_obs = CT._calculate_frequencies(X_ref=ref, X=test)
        for kw in [{}, {"correction": False}, {"lambda_": rng.choice(OPTS["Chi"]["lambda_"][2:])}, {"correction": rng.choice([True, False]), "lambda_": rng.choice(OPTS["Chi"]["lambda_"])}]:
            r = run_wrapper("Chi", ref, test, kw)

            def chk_chi(res, r=r, f_exp=list(map(int, f_exp)), f_obs=list(map(int, f_obs)), kw=kw):
                tab, stat = res
                if [list(c) for c in tab] != [list(c) for c in zip(f_obs, f_exp)]:
                    return dict(model_table=tab, impl_f_obs=f_obs, impl_f_exp=f_exp)
                stat = norm(stat)
                if r[0] == "exc":
                    return None if stat[0] == "Raise" and stat[1][0] == r[1] else dict(model=stat, impl=r, kw=kw)
                return None if stat[0] == "Ok" and close(stat[1], float(r[1]), 1e-9, 1e-12) else dict(model=stat, impl=float(r[1]), kw=kw, table=tab)

            tabx = f"(chi_table Z.eqb {z_list(pv)} {z_list(map(int, ref))} {z_list(map(int, test))})"
            add(f"({tabx}, chi2_stat (A:=FloatA) {lam_cell(kw.get('lambda_'))} {'true' if kw.get('correction', True) else 'false'} {tabx})", chk_chi, "chi_table / chi2_stat (FloatA) vs ChiSquareTest")

    # ---------------- (own generator) an option passed to ONE compare() must not outlive that call: a later compare()
    # without options, on the same instance and on a new instance, gives the default result again
    import random as _random

    prng = _random.Random(121212)
    STICKY = {
        "AD": [{"midrank": False}], "BWS": [{"alternative": "less"}, {"alternative": "greater"}],
        "CVM": [{"method": "asymptotic"}], "MWU": [{"alternative": "less"}, {"use_continuity": False}, {"method": "asymptotic"}],
        "Welch": [{"alternative": "less"}, {"alternative": "greater"}, {"trim": 0.2}],
        "Chi": [{"correction": False}, {"lambda_": "log-likelihood"}],
    }
    for w, optl in STICKY.items():
        for kw in optl:
            if w == "Chi":
                ref = np.array([prng.choice("abc") for _ in range(40)])
                test = np.array([prng.choice("aabc") for _ in range(30)])
            else:
                ref = np.array([prng.gauss(0, 1) for _ in range(9)])
                test = np.array([prng.gauss(0.8, 1.5) for _ in range(7)])
            try:
                det = det_cls(w)()
                det.fit(X=ref)
                np.random.seed(4242)  # BWS / permutation-based defaults draw from the global generator
                r0 = det.compare(X=test)[0]
                det.compare(X=test, **kw)
                np.random.seed(4242)
                r1 = det.compare(X=test)[0]
                det2 = det_cls(w)()
                det2.fit(X=ref)
                np.random.seed(4242)
                r2 = det2.compare(X=test)[0]
            except Exception as e:  # noqa: BLE001
                ck.violation(dict(clause="raises", detector=W[w]["cls"], scenario="option-then-default"), dict(detector=W[w]["cls"], option=kw, error=repr(e), ref=ref.tolist(), test=test.tolist()))
                continue
            ck.case(dict(kind="option-then-default", detector=W[w]["cls"], option=kw), nontrivial=True, key=repr(("sticky", w, kw)))
            ck.count("option_then_default_cases")
            same = lambda a, b_: (float(a.statistic) == float(b_.statistic) or (math.isnan(float(a.statistic)) and math.isnan(float(b_.statistic)))) and (float(a.p_value) == float(b_.p_value) or (math.isnan(float(a.p_value)) and math.isnan(float(b_.p_value))))  # noqa: E731
            if not (same(r0, r1) and same(r0, r2)):
                ck.violation(dict(clause="options-honoured", detector=W[w]["cls"], cause="option-outlives-call"),
                             dict(what="after one compare() with an option, a compare() without options no longer returns the default result", detector=W[w]["cls"], option=kw,
                                  default_before=[float(r0.statistic), float(r0.p_value)], default_after_same_instance=[float(r1.statistic), float(r1.p_value)], default_new_instance=[float(r2.statistic), float(r2.p_value)], ref=ref.tolist(), test=test.tolist()))
    # ---------------- Kuiper on long, strongly shifted samples (effective size n*m/(n+m) above 1000, D > 0.5): the series
    # multiplies binomial coefficients that overflow to inf by powers that underflow to 0; p must stay a number in [0, 1]
    for n, m in ([(2500, 2500), (2100, 6000)] if not thorough else [(2500, 2500), (3000, 4000), (2100, 6000), (5000, 2600)]):
        ref = np.arange(n, dtype=float)
        test = np.arange(m, dtype=float) + 0.6 * n + 0.5
        try:
            det = det_cls("Kuiper")()
            det.fit(X=ref)
            res = det.compare(X=test)[0]
            pv = float(res.p_value)
        except Exception as e:  # noqa: BLE001
            ck.violation(dict(clause="raises", detector="KuiperTest", scenario="long-shifted"), dict(sizes=[n, m], error=repr(e)))
            continue
        ck.case(dict(kind="kuiper-long-shifted", n=n, m=m, p=pv), nontrivial=True, key=repr(("kuiper-long", n, m)))
        ck.count("kuiper_long_cases")
        if math.isnan(pv) or not (0.0 <= pv <= 1.0):
            ck.violation(dict(clause="p-range", detector="KuiperTest", regime="long-shifted"), dict(what="Kuiper p-value is NaN or outside [0, 1] for long, strongly shifted samples", sizes=[n, m], statistic=float(res.statistic), p_value=repr(pv), construction="ref = arange(n), test = arange(m) + 0.6 n + 0.5"))
    # ---------------- Kuiper with a LARGE effective size and a TINY statistic (3/N <= D, D sqrt(N) ~ 0.05-0.2): the asymptotic
    # series then needs 18.82 / (D sqrt N) - hundreds of - terms and sums to ~1; reference = the same series summed in full with
    # math.fsum, and the Coq model on the same (D, n, m)
    for n, m, c in ((6000, 6000, 3.5), (6000, 6000, 7.0), (20000, 20000, 3.2), (9000, 4500, 4.0)):
        N = n * m / float(n + m)
        D = np.float64(c / N)
        z = float(D) * math.sqrt(N)
        ms = [float(k) for k in range(1, int(math.ceil(18.82 / z)))]
        S1 = math.fsum(2 * (4 * k * k * z * z - 1) * math.exp(-2 * k * k * z * z) for k in ms)
        S2 = math.fsum(k * k * (4 * k * k * z * z - 3) * math.exp(-2 * k * k * z * z) for k in ms)
        ref_p = S1 - 8 * float(D) / 3 * S2
        try:
            pk = float(KT._false_positive_probability(D, N))
        except Exception as e:  # noqa: BLE001
            ck.violation(dict(clause="raises", detector="KuiperTest", scenario="large-N-tiny-D"), dict(D=float(D), N=N, error=repr(e)))
            continue
        ck.case(dict(kind="kuiper-large-N-tiny-D", n=n, m=m, D=float(D), terms=len(ms), p=pk), nontrivial=True, key=repr(("kuiper-tiny", n, m, c)))
        ck.count("kuiper_large_N_tiny_D_cases")
        if not close(pk, ref_p, 1e-9, 1e-9):
            ck.violation(dict(clause="kuiper-p-value", regime="large-N-tiny-D"), dict(what="Kuiper false-positive probability differs from the asymptotic series summed in full", D=float(D), N=N, terms=len(ms), got=pk, expected=ref_p))
    for n, shift in ((6000, 7), (20000, 5)) if thorough else ((6000, 7),):
        ref = np.arange(n, dtype=float)
        test = np.arange(n, dtype=float) + shift + 0.5   # interleaved grids shifted by a few ranks: D = (shift + 1) / n
        try:
            det = det_cls("Kuiper")()
            det.fit(X=ref)
            res = det.compare(X=test)[0]
            pv = float(res.p_value)
        except Exception as e:  # noqa: BLE001
            ck.violation(dict(clause="raises", detector="KuiperTest", scenario="near-identical-long"), dict(n=n, error=repr(e)))
            continue
        ck.case(dict(kind="kuiper-near-identical-long", n=n, shift=shift, p=pv), nontrivial=True, key=repr(("kuiper-near", n, shift)))
        ck.count("kuiper_near_identical_cases")
        if not (pv >= 0.999):
            ck.violation(dict(clause="kuiper-p-value", regime="near-identical-long"), dict(what="two interleaved grids of the same size shifted by a few ranks are as close as two samples can be: the Kuiper p-value must be ~1", n=n, shift=shift, statistic=float(res.statistic), p_value=pv))
    # ---------------- options with a CALLBACK attached (a reset callback that never fires): compare(X, **options) returns what
    # the same detector without callbacks returns (own generator)
    from frouros.callbacks import ResetStatisticalTest as _RST

    for w, optl in STICKY.items():
        for kw in optl:
            if w == "Chi":
                ref = np.array([prng.choice("abc") for _ in range(40)])
                test = np.array([prng.choice("aabc") for _ in range(30)])
            else:
                ref = np.array([prng.gauss(0, 1) for _ in range(9)])
                test = np.array([prng.gauss(0.8, 1.5) for _ in range(7)])
            try:
                d0 = det_cls(w)()
                d0.fit(X=ref)
                np.random.seed(4242)
                r0 = d0.compare(X=test, **kw)[0]
                d1 = det_cls(w)(callbacks=[_RST(alpha=1e-300)])
                d1.fit(X=ref)
                np.random.seed(4242)
                r1 = d1.compare(X=test, **kw)[0]
            except Exception as e:  # noqa: BLE001
                ck.violation(dict(clause="raises", detector=W[w]["cls"], scenario="option-with-callback"), dict(detector=W[w]["cls"], option=kw, error=repr(e)))
                continue
            ck.case(dict(kind="option-with-callback", detector=W[w]["cls"], option=kw), nontrivial=True, key=repr(("optcb", w, kw)))
            ck.count("option_with_callback_cases")
            eqf = lambda a, b_: a == b_ or (math.isnan(a) and math.isnan(b_))  # noqa: E731
            if not (eqf(float(r0.statistic), float(r1.statistic)) and eqf(float(r0.p_value), float(r1.p_value))):
                ck.violation(dict(clause="options-honoured", detector=W[w]["cls"], cause="callback-attached"),
                             dict(what="with a callback attached, compare(X, **options) does not return what the same detector without callbacks returns for these options", detector=W[w]["cls"], option=kw,
                                  without_callback=[float(r0.statistic), float(r0.p_value)], with_callback=[float(r1.statistic), float(r1.p_value)], ref=ref.tolist(), test=test.tolist()))
    # ---------------- chi-square on INTEGER category codes that are negative or huge and sparse (-1 as a "missing" code, 2^40 as
    # an id): the categories are labels, the result is chi2_contingency of the two count vectors whatever the labels are
    # (deterministic); and every wrapper on READ-ONLY input arrays (np.frombuffer / memory maps are read-only): same result
    # as on writable copies, and the caller's arrays are left as they were
    codes_a = [0, 1, 1, 2, 0, 1, 2, 2, 2, 0, 1, 1] * 3
    codes_b = [0, 0, 1, 2, 0, 0, 2, 0, 1, 0] * 3
    for nm, mp in (("negative", {0: -1, 1: 0, 2: 7}), ("huge-sparse", {0: 3, 1: 2**40, 2: 2**41 + 5}), ("plain", {0: 0, 1: 1, 2: 2})):
        ref = np.array([mp[c] for c in codes_a], dtype=np.int64)
        test = np.array([mp[c] for c in codes_b], dtype=np.int64)
        r = monitor(ck, "Chi", ref, test, {}, "int-codes/" + nm, seed=0)
        ck.case(dict(detector="ChiSquareTest", kind="integer-codes", codes=nm, result=[jl(x) for x in r[1:]]), nontrivial=True, key=repr(("chi-codes", nm)))
        ck.count("chi_integer_code_cases")
    for w_ in ("AD", "CVM", "MWU", "Welch", "Kuiper"):
        ref = np.array([prng.gauss(0, 1) for _ in range(11)])
        test = np.array([prng.gauss(0.7, 1.2) for _ in range(9)])
        ref0, test0 = ref.copy(), test.copy()
        want = run_wrapper(w_, ref0.copy(), test0.copy(), {}, seed=7)
        ref.setflags(write=False)
        test.setflags(write=False)
        got = run_wrapper(w_, ref, test, {}, seed=7)
        ck.case(dict(kind="read-only-arrays", detector=W[w_]["cls"]), nontrivial=True, key=repr(("ro", w_)))
        ck.count("read_only_array_cases")
        if got[0] != want[0] or (got[0] == "ok" and not (arr_close(got[1], want[1]) and arr_close(got[2], want[2]))):
            ck.violation(dict(clause="named-statistic", detector=W[w_]["cls"], regime="read-only-arrays"), dict(what="fit / compare on read-only arrays does not give the result obtained on writable copies of them", detector=W[w_]["cls"], read_only=[jl(x) for x in got], writable=[jl(x) for x in want], ref=jl(ref0), test=jl(test0)))
        elif not (np.array_equal(ref, ref0) and np.array_equal(test, test0)):
            ck.violation(dict(clause="inputs-untouched", detector=W[w_]["cls"]), dict(what="the caller's arrays were modified", detector=W[w_]["cls"]))
    for w_ in ("Kuiper", "MWU"):
        # writable, UNSORTED inputs: compare must leave the caller's test array (and its own reference) in the order given
        ref = np.array([3.0, 1.0, 2.0, 5.0, 4.0, 0.5, 2.5])
        test = np.array([9.0, 7.0, 8.0, 6.5, 7.5])
        ref0, test0 = ref.copy(), test.copy()
        try:
            dd = det_cls(w_)()
            dd.fit(X=ref)
            dd.compare(X=test)
            okx = np.array_equal(test, test0) and np.array_equal(ref, ref0) and np.array_equal(np.asarray(dd.X_ref), ref0)
        except Exception as e:  # noqa: BLE001
            okx = False
        ck.case(dict(kind="inputs-left-in-order", detector=W[w_]["cls"]), nontrivial=True, key=repr(("order", w_)))
        ck.count("inputs_left_in_order_cases")
        if not okx:
            ck.violation(dict(clause="inputs-untouched", detector=W[w_]["cls"], regime="unsorted"), dict(what="compare() reordered the caller's test array, the caller's reference array or the stored reference", detector=W[w_]["cls"]))
    # ---------------- forwarding: model's predicted call vs the call observed by the spy
    FOREIGN = ["X", "X_ref", "equal_var", "foo", "alternative", "method", "correction", "nan_policy", "midrank"]
    VALUES = ["two-sided", "less", "auto", "exact", "raise", "omit", True, False, None, 0, 3, 0.1, 0.5, "OBJ"]
    objs = [PM(), object()]
    fref, ftest = np.array([0.5, 1.5, 2.5, 4.0]), np.array([1.0, 2.0, 3.5])
    cref, ctest = np.array(["a", "b", "a", "c"]), np.array(["b", "b", "d"])
    for fi in range(NF):
        w = list(W)[fi % 7]
        names = sorted(OPTS[w]) if w != "Welch" else sorted(OPTS[w])
        nk = rng.choice([0, 1, 1, 2, 2, 3])
        ks = []
        for _ in range(nk):
            k = rng.choice(names) if names and rng.random() < 0.75 else rng.choice(FOREIGN)
            if k not in ks:
                ks.append(k)
        kwpy, kwcoq = {}, []
        for k in ks:
            v = rng.choice(VALUES)
            if v == "OBJ":
                v = rng.choice(objs)
            kwpy[k] = v
            kwcoq.append(f"({coq_key(k)}, {coq_val(v, objs)})")
        ref, test = (cref, ctest) if w == "Chi" else (fref, ftest)
        got = spy_call(w, ref, test, kwpy)
        ck.count(f"fwd:{w}:{got[0]}")
        ck.case(dict(forwarding=W[w]["cls"], kw={k: repr(v) for k, v in kwpy.items()}, outcome=got[:2]), nontrivial=bool(ks), key=repr((w, sorted((k, repr(v)) for k, v in kwpy.items()))))

        def chk_f(res, got=got, ref=ref, test=test, w=w, kwpy=kwpy):
            res = norm(res)
            if got[0] == "Raise":
                return None if res[0] == "Raise" and res[1][0] == got[1] else dict(model=res, impl=got, wrapper=w, kw={k: repr(v) for k, v in kwpy.items()})
            if res[0] != "Ok":
                return dict(model=res, impl=("Ok", got[1]), wrapper=w, kw={k: repr(v) for k, v in kwpy.items()})
            fnm, args = res[1]
            impl_args = [(coq_key(k),) + (py_desc(v, objs, ref, test),) for k, v in got[2]]
            margs = [(a[0][0], a[1]) for a in args]
            if fnm[0] != got[1] or margs != [(k, d) for k, d in impl_args]:
                return dict(model=(fnm, margs), impl=(got[1], impl_args), wrapper=w, kw={k: repr(v) for k, v in kwpy.items()})
            return None

        add(f"match compare_call {w} [{'; '.join(kwcoq)}] with Ok c => Ok (c_fn c, c_args c) | Raise e => Raise e end", chk_f, "compare_call (forwarding model) vs the call observed at SciPy's entry")

    # ---------------- evaluate the models
    results = coq_eval("C12", HDR, [c[0] for c in corr], shard=200)
    for (expr, fn, what), res in zip(corr, results):
        ck.corr_cases += 1
        bad = fn(res)
        if bad is not None:
            ck.mismatch(what, dict(replay_kind="corr", expr=expr if len(expr) < 4000 else expr[:4000] + "...", **{k: (v if isinstance(v, (int, float, str, list, dict, type(None))) else repr(v)) for k, v in bad.items()}))


ASSUMPTIONS = [
    "SciPy's numerics are NOT modelled: that the p-values of the six SciPy-backed detectors lie in [0,1] and are not NaN, and that the Anderson-Darling / BWS statistics are the named tests', is not a theorem; it is checked on every case of this run by the monitor against direct SciPy calls (sampling, not proof)",
    "forwarding theorems are about Model/Tests.v's Python call semantics (explicit keyword + ** clash => TypeError, unknown keyword => TypeError, defaults); its agreement with CPython/SciPy signatures is checked by the spy-based correspondence on random keyword dictionaries",
    "rank/order/count theorems (midranks, Mann-Whitney U, Cramer-von Mises T, Welch t, chi-square table and statistic) are about exact models over R / Z; the same definitions run at binary64 are compared with the implementation's statistics with tolerance 1e-9",
    "Python's set iteration order is an oracle in the chi-square model (contract: each present category exactly once); the theorem chi2_order_irrelevant makes the statistic independent of it",
    "the Kuiper p-value model uses Gallina exp/ln (1 ulp) and a Stirling-series Gamma in place of libm/scipy.special: agreement to 1e-9 only; the theorem gives p in [0,1] only when the binary64 series value is not NaN - that it is not NaN is checked on every case by the monitor (F20 was repaired in /repo 6ddbfc2 by the guard D <= 1/N and np.clip)",
    "samples on which the named test is undefined (all pooled observations equal: anderson_ksamp raises ValueError, Welch's t is 0/0) are run and counted but not flagged",
]


def main(tier, seed):
    ck = Check("C12", tier, seed)
    ck.proof = check_props("C12")
    ck.assumptions = ASSUMPTIONS
    run(ck)
    return ck.finish()


def replay(obj):
    """Re-run one recorded failing input against the current code; exit status 1 iff it still fails."""
    if obj.get("kind") == "correspondence-broken":
        first = obj["first"]
        if "expr" not in first or first["expr"].endswith("..."):
            print("replay: expression not recorded in full")
            return 2
        res = coq_eval("C12_replay", HDR, [first["expr"]])
        print("model now:", res[0])
        print("recorded disagreement:", {k: v for k, v in first.items() if k != "expr"})
        return 1
    ck = Check("C12", "replay", 0)
    ck.known = []
    ck.proof = dict(ok=True, theorems=[], axioms=[], log="")
    sig = obj.get("signature", {})
    rk = obj.get("replay_kind")
    if rk in ("monitor", "metamorphic"):
        w = obj["wrapper"]
        dt = None if w == "Chi" else float
        ref, test = np.array(obj["ref"], dtype=dt), np.array(obj["test"], dtype=dt)
        if rk == "monitor":
            r = monitor(ck, w, ref, test, obj.get("kw", {}), obj.get("data_kind"), obj.get("seed", 0))
            print("implementation:", r)
        else:
            print("base:", run_wrapper(w, ref, test, {}, obj.get("seed", 0)))
            if "ref_perm" in obj:
                print("reordered:", run_wrapper(w, np.array(obj["ref_perm"]), np.array(obj["test_perm"]), {}, obj.get("seed", 0)))
            print("swapped:", run_wrapper(w, test, ref, {}, obj.get("seed", 0)))
            return 1
    elif rk == "chi-metamorphic":
        for lab, _ in LABELS:
            ref, test = cat_arrays(obj["a"], obj["b"], lab)
            print(lab, run_wrapper("Chi", ref, test, obj.get("kw", {})), "swapped:", run_wrapper("Chi", test, ref, obj.get("kw", {})))
        return 1
    else:
        print("nothing to replay for this record")
        return 2
    hit = [s for s, _ in ck.violations if s.get("clause") == sig.get("clause")]
    for s, _ in ck.violations:
        print("VIOLATION (replay)", s)
    print("reproduced" if hit else "not reproduced")
    return 1 if hit else 0
