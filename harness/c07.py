"""C07 — CUSUM, Page-Hinkley and geometric moving average follow their recurrences."""
from __future__ import annotations

import math

from detectors import BY_NAME, compare_traces, run_impl, run_models
from lib import Check, check_props, gen_stream_real

DETS = [BY_NAME["CUSUM"], BY_NAME["PageHinkley"], BY_NAME["GeometricMovingAverage"]]


def spec(det, cfg, xs):
    """The property's recurrence over the batch running mean (independent of the code)."""
    g = 0.0
    out = []
    for t in range(1, len(xs) + 1):
        m = math.fsum(xs[:t]) / t
        x = xs[t - 1]
        if det.name == "CUSUM":
            g = max(0.0, g + x - m - cfg["delta"])
        elif det.name == "PageHinkley":
            g = cfg["alpha"] * g + x - m - cfg["delta"]
        else:
            g = cfg["alpha"] * g + (1 - cfg["alpha"]) * (x - m)
        out.append(g)
    return out


def run(ck: Check):
    rng = ck.rng
    thorough = ck.tier == "thorough"
    ck.rule(
        "Gaussian / shifted / ramp / tied / cancellation-prone real streams; delta in {0,1e-9,.005,.1,1}, alpha in {0,.5,.9,.9999,1}, lambda on a grid, min_num_instances 1..30; "
        "every step compared with the recurrence over the batch mean; shift invariance and lambda monotonicity checked on the implementation itself away from near ties "
        "(|g - lambda| <= 1e-7*scale skipped); plus histories with a reset() whose second concept exceeds lambda_ inside the restarted warm-up; non-trivial = some step alarms and some does not"
    )
    cases, impl = [], []
    for det in DETS:
        for _ in range(60 if not thorough else 500):
            cfg = det.gen_cfg(rng)
            n = rng.choice([5, 20, 60, 150])
            xs = gen_stream_real(rng, n)
            scale = max(1.0, max(abs(x) for x in xs))
            if rng.random() < 0.5:  # make alarms likely: lambda relative to the stream's scale
                cfg["lambda_"] = rng.choice([0.0, 0.1, 1.0, 5.0]) * scale * rng.choice([0.01, 0.1, 1.0])
            out, exc, _ = run_impl(det, cfg, xs)
            if exc is not None:
                ck.violation(dict(clause="raises", detector=det.name), dict(detector=det.name, config=cfg, stream=xs[: len(out) + 1], error=repr(exc)))
                continue
            alarms = sum(1 for o in out if o[0])
            ck.case(dict(detector=det.name, config=cfg, n=n, head=xs[:5], alarms=alarms), nontrivial=0 < alarms < n, key=repr((det.name, cfg, xs)))
            ck.count("steps", n)
            ck.count("alarm_steps", alarms)
            g = spec(det, cfg, xs)
            tol = 1e-7 * scale * (1 + n * 0.01)
            ok = True
            for t, (o, gt) in enumerate(zip(out, g)):
                if not (abs(o[3][1] - gt) <= tol * max(1.0, abs(gt))):
                    ok = False
                    ck.violation(dict(clause="recurrence", detector=det.name), dict(what="statistic differs from the recurrence", detector=det.name, config=cfg, stream=xs[: t + 1], got=o[3][1], expected=gt))
                    break
                near = abs(gt - cfg["lambda_"]) <= tol * max(1.0, abs(gt))
                if near:
                    ck.near_ties += 1
                    continue
                exp = (t + 1) >= cfg["min_num_instances"] and gt > cfg["lambda_"]
                if o[0] != exp:
                    ok = False
                    ck.violation(dict(clause="verdict", detector=det.name), dict(what="drift flag differs from (t >= min and g_t > lambda)", detector=det.name, config=cfg, stream=xs[: t + 1], drift=o[0], g=gt))
                    break
            if not ok:
                continue
            cases.append((det, cfg, xs, None))
            impl.append(out)
            # shift invariance on the implementation
            k = rng.choice([1.0, -3.5, 100.0, 0.125])
            out2, _, _ = run_impl(det, cfg, [x + k for x in xs])
            tol2 = 1e-7 * (scale + abs(k)) * (1 + n * 0.01)
            for t, (a, b_, gt) in enumerate(zip(out, out2, g)):
                if abs(gt - cfg["lambda_"]) <= tol2 * max(1.0, abs(gt)):
                    ck.near_ties += 1
                    continue
                if a[0] != b_[0]:
                    ck.violation(dict(clause="shift-invariance", detector=det.name), dict(detector=det.name, config=cfg, stream=xs[: t + 1], shift=k, drift=a[0], drift_shifted=b_[0]))
                    break
            # raising lambda only removes alarms
            cfg3 = dict(cfg, lambda_=cfg["lambda_"] + rng.choice([0.0, 0.5, 1.0, 10.0]) * max(1.0, scale * 0.1))
            out3, _, _ = run_impl(det, cfg3, xs)
            for t, (a, c3) in enumerate(zip(out, out3)):
                if c3[0] and not a[0]:
                    ck.violation(dict(clause="lambda-antitone", detector=det.name), dict(detector=det.name, config=cfg, lambda_raised=cfg3["lambda_"], stream=xs[: t + 1]))
                    break
    # histories with a reset(): the recurrence, the running mean AND the warm-up restart at the reset;
    # the post-reset concept starts with a jump so that the statistic exceeds lambda_ within the new warm-up
    for det in DETS:
        for _ in range(25 if not thorough else 200):
            cfg = det.gen_cfg(rng)
            cfg["min_num_instances"] = rng.choice([3, 5, 8, 12])
            scale = rng.choice([1.0, 5.0])
            cfg["lambda_"] = rng.choice([0.1, 0.5, 1.0]) * scale
            n1 = cfg["min_num_instances"] + rng.choice([2, 10, 40])
            seg1 = [rng.gauss(0, 0.1 * scale) for _ in range(n1 // 2)] + [rng.gauss(3 * scale, 0.1 * scale) for _ in range(n1 - n1 // 2)]
            seg2 = [rng.gauss(0, 0.1 * scale) for _ in range(2)] + [rng.gauss(4 * scale, 0.1 * scale) for _ in range(cfg["min_num_instances"] + 6)]
            ops = seg1 + ["R"] + seg2
            out, exc, _ = run_impl(det, cfg, ops)
            if exc is not None:
                ck.violation(dict(clause="raises", detector=det.name), dict(detector=det.name, config=cfg, ops=ops[: len(out) + 1], error=repr(exc)))
                continue
            o2 = out[len(seg1) + 1 :]
            g2 = spec(det, cfg, seg2)
            ck.case(dict(detector=det.name, config=cfg, kind="reset-history", n=len(ops)), nontrivial=any(o[0] for o in o2), key=repr((det.name, cfg, ops)))
            ck.count("reset_histories")
            tol = 1e-7 * scale * 4
            for t, (o, gt) in enumerate(zip(o2, g2)):
                if not (abs(o[3][1] - gt) <= tol * max(1.0, abs(gt))):
                    ck.violation(dict(clause="recurrence", detector=det.name, after_reset=True), dict(what="statistic after reset() differs from the recurrence restarted at the reset", detector=det.name, config=cfg, ops=ops[: len(seg1) + 2 + t], got=o[3][1], expected=gt))
                    break
                if abs(gt - cfg["lambda_"]) <= tol * max(1.0, abs(gt)):
                    ck.near_ties += 1
                    continue
                exp = (t + 1) >= cfg["min_num_instances"] and gt > cfg["lambda_"]
                if o[0] != exp:
                    ck.violation(dict(clause="verdict", detector=det.name, after_reset=True), dict(what="after reset(): drift flag differs from (t >= min_num_instances counted from the reset and g_t > lambda)", detector=det.name, config=cfg, ops=ops[: len(seg1) + 2 + t], drift=o[0], g=gt, t_since_reset=t + 1))
                    break
            else:
                cases.append((det, cfg, ops, None))
                impl.append(out)
    # (own generator: independent of the draws above)
    import random as _random
    import numpy as _np

    prng = _random.Random(70707)
    # (i) the same small integer values carried by narrow NumPy integer scalars: the statistic is that of the VALUES
    #     (an unsigned / 8-bit difference must not wrap)
    for det in DETS:
        for dt in (_np.uint8, _np.int8, _np.uint16, _np.int64):
            hi = 100 if dt is _np.int8 else 250
            ints = [prng.randrange(0, hi) for _ in range(prng.choice([12, 30]))]
            cfg = det.gen_cfg(prng)
            cfg["min_num_instances"] = prng.choice([1, 3])
            cfg["lambda_"] = prng.choice([5.0, 40.0])
            out, exc, _ = run_impl(det, cfg, [dt(v) for v in ints])
            if exc is not None:
                ck.violation(dict(clause="raises", detector=det.name, dtype=dt.__name__), dict(detector=det.name, config=cfg, stream=ints[: len(out) + 1], dtype=dt.__name__, error=repr(exc)))
                continue
            g = spec(det, cfg, [float(v) for v in ints])
            ck.case(dict(detector=det.name, config=cfg, kind="typed-integers", dtype=dt.__name__, n=len(ints)), nontrivial=any(o[0] for o in out), key=repr(("typed", det.name, dt.__name__, cfg, ints)))
            ck.count("typed_integer_streams")
            for t, (o, gt) in enumerate(zip(out, g)):
                if not (abs(float(o[3][1]) - gt) <= 1e-7 * 250 * max(1.0, abs(gt))):
                    ck.violation(dict(clause="recurrence", detector=det.name, dtype=dt.__name__), dict(what="statistic differs from the recurrence when the values arrive as narrow NumPy integers", detector=det.name, config=cfg, dtype=dt.__name__, stream=ints[: t + 1], got=float(o[3][1]), expected=gt))
                    break
    # (ii) many quiet values, one huge value (a glitch), then values sitting 0.75 above the running mean, with alpha at
    #      and next to 0: g_t = alpha g_{t-1} + (1-alpha)(x_t - m_t) must be evaluated as written (an algebraically equal
    #      incremental form g += (1-alpha)(x - m - g) absorbs the ordinary deviation into the huge previous g)
    for det in DETS:
        if det.name != "GeometricMovingAverage":
            continue
        for alpha in (0.0, 1e-20):
            cfg = det.gen_cfg(prng)
            cfg.update(alpha=alpha, min_num_instances=2, lambda_=0.5)
            xs = [0.0] * 999 + [1e17]
            for _ in range(3):
                t = len(xs) + 1
                xs.append((math.fsum(xs) / t + 0.75) * t / (t - 1))
            out, exc, _ = run_impl(det, cfg, xs)
            if exc is not None:
                ck.violation(dict(clause="raises", detector=det.name, regime="glitch"), dict(detector=det.name, config=cfg, stream_tail=xs[-4:], error=repr(exc)))
                continue
            g = spec(det, cfg, xs)
            ck.case(dict(detector=det.name, config=cfg, kind="glitch-then-ordinary"), nontrivial=True, key=repr(("glitch", det.name, cfg)))
            ck.count("glitch_streams")
            for t in range(1000, len(xs)):
                # the running mean is ~1e14 here (spacing of doubles 0.016): 0.2 absolute is far above its rounding
                if not (abs(float(out[t][3][1]) - g[t]) <= 0.2) or bool(out[t][0]) != (g[t] > cfg["lambda_"]):
                    ck.violation(dict(clause="recurrence", detector=det.name, regime="glitch"), dict(what="after one huge value the statistic no longer follows g_t = alpha g_{t-1} + (1-alpha)(x_t - m_t)", detector=det.name, config=cfg, stream="999 zeros, 1e17, then values 0.75 above the running mean", tail=xs[-4:], step=t + 1, got=float(out[t][3][1]), expected=g[t], drift=bool(out[t][0])))
                    break
    # (iii) a detector constructed WITHOUT a configuration uses the documented defaults, whatever was done through the
    #       setters of the configuration of another instance of the class (deterministic)
    import frouros.detectors.concept_drift as _cd

    for det in DETS:
        cls, cfgcls = getattr(_cd, det.name), getattr(_cd, det.name + "Config")
        try:
            dflt = cfgcls()
            cfg = {k: getattr(dflt, k) for k in ("delta", "lambda_", "alpha", "min_num_instances") if hasattr(dflt, k)}
            tuned = cls()
            tuned.config.lambda_ = 0.05
            tuned.config.min_num_instances = 1
            for x in (0.0, 1.0, 0.0, 1.0):
                tuned.update(value=x)
            d = cls()
            xs = [0.0] * 40 + [1.0] * 40
            got = []
            for x in xs:
                d.update(value=x)
                got.append((bool(d.drift), float(d.sum_)))
        except Exception as e:  # noqa: BLE001
            ck.violation(dict(clause="raises", detector=det.name, scenario="default-config-isolation"), dict(detector=det.name, error=repr(e)))
            continue
        g = spec(det, cfg, xs)
        ck.case(dict(detector=det.name, config=cfg, kind="default-config-after-another-instance-was-tuned"), nontrivial=True, key=repr(("dflt-iso", det.name)))
        ck.count("default_config_isolation_cases")
        for t, ((dr, gs), gt) in enumerate(zip(got, g)):
            exp = (t + 1 >= cfg["min_num_instances"]) and gt > cfg["lambda_"]
            if abs(gt - cfg["lambda_"]) <= 1e-7:
                continue
            if dr != exp or not (abs(gs - gt) <= 1e-9 * max(1.0, abs(gt))):
                ck.violation(dict(clause="verdict", detector=det.name, scenario="default-config-isolation"),
                             dict(what="a detector constructed with the default configuration does not follow the rule with the default lambda_ / min_num_instances once ANOTHER default-configured instance had its configuration changed through the setters",
                                  detector=det.name, defaults=cfg, stream="40 zeros then 40 ones", step=t + 1, drift=dr, expected_drift=exp, statistic=gs, expected_statistic=gt, config_now=dict(lambda_=d.config.lambda_, min_num_instances=d.config.min_num_instances)))
                break
    # (iv) min_num_instances handed over as a NumPy integer scalar (unsigned ones included): the warm-up clause t >= min_num_instances
    #      is about its value. (v) finite streams of huge magnitude whose SUM leaves the binary64 range while every value, every
    #      running mean and every statistic stays finite (reference on the stream scaled by 2^-12, which is exact)
    import numpy as _np

    for det in DETS:
        for dt in (_np.uint8, _np.uint32, _np.uint64, _np.int16):
            cfg = det.gen_cfg(prng)
            cfg.update(min_num_instances=12, lambda_=0.3)
            if "delta" in cfg:
                cfg["delta"] = 0.005
            if "alpha" in cfg:
                cfg["alpha"] = 0.9
            xs = [0.0, 1.0] * 3 + [1.0] * 14
            try:
                d = det.make(dict(cfg, min_num_instances=dt(12)))
                got = []
                for x in xs:
                    d.update(value=x)
                    got.append((bool(d.drift), float(d.sum_)))
            except Exception as e:  # noqa: BLE001
                ck.violation(dict(clause="raises", detector=det.name, scenario="typed-min-num-instances", dtype=dt.__name__), dict(detector=det.name, config=cfg, dtype=dt.__name__, error=repr(e)))
                continue
            g = spec(det, cfg, xs)
            ck.case(dict(detector=det.name, config=cfg, kind="min_num_instances-as-" + dt.__name__), nontrivial=True, key=repr(("typed-min", det.name, dt.__name__)))
            ck.count("typed_min_num_instances_cases")
            for t, ((dr, gs), gt) in enumerate(zip(got, g)):
                exp = (t + 1 >= 12) and gt > cfg["lambda_"]
                if abs(gt - cfg["lambda_"]) > 1e-7 and dr != exp:
                    ck.violation(dict(clause="verdict", detector=det.name, scenario="typed-min-num-instances", dtype=dt.__name__),
                                 dict(what="with min_num_instances given as a NumPy integer scalar the verdict is not (t >= min_num_instances and statistic > lambda_)", detector=det.name, config=cfg, dtype=dt.__name__, stream=xs[: t + 1], step=t + 1, drift=dr, expected=exp, statistic=gs))
                    break
        for k in range(2):
            cfg = det.gen_cfg(prng)
            base = 3e307 if k == 0 else -2.5e307
            xs = [base + j * 1e304 for j in (0, 1, -1, 2, 0, 1, 30, 31, 29, 33)]
            cfg.update(min_num_instances=3, lambda_=2e305)
            if "delta" in cfg:
                cfg["delta"] = 0.005
            if "alpha" in cfg:
                cfg["alpha"] = 0.9
            out, exc, _ = run_impl(det, cfg, xs)
            if exc is not None:
                ck.violation(dict(clause="raises", detector=det.name, regime="huge-magnitude"), dict(detector=det.name, config=cfg, stream=xs[: len(out) + 1], error=repr(exc)))
                continue
            sc = 2.0 ** -12
            gsc = spec(det, dict(cfg, delta=cfg.get("delta", 0.0) * sc), [x * sc for x in xs])
            ck.case(dict(detector=det.name, config=cfg, kind="huge-magnitude", base=base), nontrivial=True, key=repr(("huge", det.name, k)))
            ck.count("huge_magnitude_streams")
            for t, (o, gt) in enumerate(zip(out, gsc)):
                gt = gt / sc
                exp = (t + 1 >= 3) and gt > cfg["lambda_"]
                if not (abs(float(o[3][1]) - gt) <= 1e-6 * max(1e300, abs(gt))) or (abs(gt - cfg["lambda_"]) > 1e300 and bool(o[0]) != exp):
                    ck.violation(dict(clause="recurrence", detector=det.name, regime="huge-magnitude"),
                                 dict(what="on a finite stream of huge magnitude (its sum exceeds the binary64 range, its values, running means and statistics do not) the statistic / verdict leaves the recurrence", detector=det.name, config=cfg, stream=xs[: t + 1], step=t + 1, got=float(o[3][1]), expected=gt, drift=bool(o[0]), expected_drift=exp))
                    break
    # (vi) the configurations built POSITIONALLY, in the documented parameter order (CUSUM: delta, lambda_, min_num_instances;
    #      Page-Hinkley: delta, lambda_, alpha, min_num_instances; GMA: alpha, lambda_, min_num_instances), run like the ones
    #      built by keyword.  (vii) TWO history callbacks on one detector: every sample is consumed once (deterministic)
    from frouros.callbacks import HistoryConceptDrift as _Hist

    POS = {"CUSUM": ("delta", "lambda_", "min_num_instances"), "PageHinkley": ("delta", "lambda_", "alpha", "min_num_instances"), "GeometricMovingAverage": ("alpha", "lambda_", "min_num_instances")}
    for det in DETS:
        cls, cfgcls = getattr(_cd, det.name), getattr(_cd, det.name + "Config")
        cfg = dict(delta=0.01, lambda_=0.2, alpha=0.9, min_num_instances=5)
        cfg = {k: cfg[k] for k in POS[det.name]}
        xs = [0.0, 1.0, 0.0, 1.0] + [1.0] * 12
        g = spec(det, cfg, xs)
        for how in ("positional-config", "two-callbacks"):
            try:
                if how == "positional-config":
                    d = cls(config=cfgcls(*[cfg[k] for k in POS[det.name]]))
                else:
                    d = cls(config=cfgcls(**cfg), callbacks=[_Hist(name="h1"), _Hist(name="h2")])
                got = []
                for x in xs:
                    d.update(value=x)
                    got.append((bool(d.drift), float(d.sum_), int(d.num_instances)))
            except Exception as e:  # noqa: BLE001
                ck.violation(dict(clause="raises", detector=det.name, scenario=how), dict(detector=det.name, config=cfg, error=repr(e)))
                continue
            ck.case(dict(detector=det.name, config=cfg, kind=how), nontrivial=True, key=repr((how, det.name)))
            ck.count(how.replace("-", "_") + "_cases")
            for t, ((dr, gs, ni), gt) in enumerate(zip(got, g)):
                exp = (t + 1 >= cfg["min_num_instances"]) and gt > cfg["lambda_"]
                if ni != t + 1 or not (abs(gs - gt) <= 1e-9 * max(1.0, abs(gt))) or (abs(gt - cfg["lambda_"]) > 1e-7 and dr != exp):
                    ck.violation(dict(clause="recurrence", detector=det.name, scenario=how),
                                 dict(what=("a configuration built positionally in the documented parameter order" if how == "positional-config" else "a detector with two history callbacks attached") + " does not follow the recurrence / verdict rule of these parameters",
                                      detector=det.name, config=cfg, order=POS[det.name], stream=xs[: t + 1], step=t + 1, statistic=gs, expected_statistic=gt, drift=dr, expected_drift=exp, num_instances=ni))
                    break
    models = run_models("C07", cases)
    from detectors import corr_compare

    corr_compare(ck, "C07", cases, impl, models)

def main(tier, seed):
    ck = Check("C07", tier, seed)
    ck.proof = check_props("C07")
    ck.assumptions = ["recurrence / invariance theorems are over R; the binary64 run of the same model is compared with the code (bit-identical operations, tolerance 1e-9)"]
    run(ck)
    return ck.finish()
