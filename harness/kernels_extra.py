"""An importable (hence picklable) kernel with k(x, x) != 1, for the permutation-test checks."""
import numpy as np


def poly_kernel(X, Y, c=1.0):  # noqa: N803
    X, Y = np.atleast_2d(X), np.atleast_2d(Y)
    return (X @ Y.T + c) ** 2
