"""C04 — HDDM-A/W decide by Hoeffding/McDiarmid bounds; two-sided mode is symmetric."""
from __future__ import annotations

import math

from detectors import BY_NAME, HDR, compare_traces, gen_ops, run_impl, run_models
from lib import Check, check_props, coq_eval, gen_stream01

A, W = BY_NAME["HDDMA"], BY_NAME["HDDMW"]
TIE = 1e-9


def near(a, b_):
    return abs(a - b_) <= TIE * max(1.0, abs(a), abs(b_))


def code(o):
    return 2 if o[0] else (1 if o[1] else 0)


def ibc(lam, k):
    v = 1.0
    for _ in range(k):
        v = lam * lam + (1 - lam) * (1 - lam) * v
    return v


def rule_A(ck, cfg, xs, out):
    """At non-drift steps the state is intact: verdict must match the two-sample Hoeffding bound."""
    for t, o in enumerate(out):
        if o[0] or (t + 1) < cfg["min_num_instances"]:
            continue
        xm, xn, zm, zn, ym, yn = o[3]
        conds = {}
        for side, cm, cn in (("incr", xm, xn), ("decr", ym, yn)):
            if side == "decr" and not cfg["two_sided_test"]:
                continue
            n1, n2 = cn, zn - cn
            if n2 <= 0 or n1 <= 0:
                conds[side] = (False, False, False)
                continue
            rest_mean = (zm * zn - cm * cn) / n2
            diff = (rest_mean - cm) if side == "incr" else (cm - rest_mean)
            bd = math.sqrt((1 / n1 + 1 / n2) / 2 * math.log(1 / cfg["alpha_d"]))
            bw = math.sqrt((1 / n1 + 1 / n2) / 2 * math.log(1 / cfg["alpha_w"]))
            conds[side] = (diff >= bd, diff >= bw, near(diff, bd) or near(diff, bw))
        if any(c[2] for c in conds.values()):
            ck.near_ties += 1
            continue
        exp_drift = any(c[0] for c in conds.values())
        exp_warn = (not exp_drift) and any(c[1] for c in conds.values())
        if exp_drift or exp_warn != o[1]:
            ck.violation(
                dict(clause="hoeffding-rule", detector="HDDMA", two_sided=cfg["two_sided_test"]),
                dict(what="verdict differs from the two-sample Hoeffding bound on the samples around the cut point", config=cfg, stream=xs[: t + 1], step=t, verdict=code(o), expected=(2 if exp_drift else int(exp_warn)), stats=o[3]),
            )
            return False
    return True


def rule_W(ck, cfg, xs, out, ibcs):
    for t, (o, ib) in enumerate(zip(out, ibcs)):
        if o[0] or (t + 1) < cfg["min_num_instances"]:
            continue
        tm, tibc, i1, i2, icut, d1, d2, dcut = o[3]
        L_d, L_w = math.log(1 / cfg["alpha_d"]), math.log(1 / cfg["alpha_w"])
        conds = []
        s = ib["inc1"] + ib["inc2"]
        conds.append((i2 - i1, math.sqrt(s * L_d / 2), math.sqrt(s * L_w / 2)))
        if cfg["two_sided_test"]:
            s = ib["dec1"] + ib["dec2"]
            conds.append((d1 - d2, math.sqrt(s * L_d / 2), math.sqrt(s * L_w / 2)))
        if any(near(df, bd) or near(df, bw) for df, bd, bw in conds):
            ck.near_ties += 1
            continue
        exp_drift = any(df > bd for df, bd, bw in conds)
        exp_warn = (not exp_drift) and any(df > bw for df, bd, bw in conds)
        if exp_drift or exp_warn != o[1]:
            ck.violation(
                dict(clause="mcdiarmid-rule" if len(conds) == 1 or not (conds[1][0] > conds[1][2]) else "hddmw-decrease", detector="HDDMW", two_sided=cfg["two_sided_test"]),
                dict(what="verdict differs from the McDiarmid bound on the EWMA samples around the cut point", config=cfg, stream=xs[: t + 1], step=t, verdict=code(o), expected=(2 if exp_drift else int(exp_warn)), stats=o[3], ibc=ib),
            )
            return False
    return True


def probe_ibc(d):
    t = d.test_type
    r = dict(inc1=float(t.sample_increase_1.independent_bound_condition), inc2=float(t.sample_increase_2.independent_bound_condition))
    if hasattr(t, "sample_decrease_1"):
        r.update(dec1=float(t.sample_decrease_1.independent_bound_condition), dec2=float(t.sample_decrease_2.independent_bound_condition))
    return r


def first_alarm(out):
    return next((i for i, o in enumerate(out) if o[0]), None)


def run(ck: Check):
    rng = ck.rng
    thorough = ck.tier == "thorough"
    cases, impl = [], []
    L = 10 if not thorough else 12
    ck.rule(
        f"all 2^{L} 0/1 streams of length {L} and random [0,1] streams (both modes): (i) verdict vs the two-sample Hoeffding / McDiarmid bound evaluated on the detector's own "
        "cut-point samples at every non-drift step; (ii) every one-sided alarm is a two-sided alarm up to the first two-sided alarm; (iii) HDDM-A two-sided verdicts unchanged under x -> 1-x; "
        "(iv) 0^n 1^k / 1^n 0^k family (n up to 1100: bounds converged in binary64, exact cut-point ties; these runs also go through the model correspondence): both flagged by the two-sided detector within the delay bound solved from the formula; near ties (1e-9) skipped, EXCEPT the exact-tie family: levels with ln(1/alpha) an exact float (2 and 8), all 0/1 streams of length 8 (11), steps where the difference equals the bound exactly in rationals and in the code's float expression must warn; non-trivial = some alarm"
    )

    def streams():
        for i in range(2**L):
            yield [(i >> (L - 1 - k)) & 1 for k in range(L)], "exh"
        for _ in range(60 if not thorough else 600):
            n = rng.choice([20, 60, 150])
            if rng.random() < 0.5:
                yield gen_stream01(rng, n), "rand01"
            else:
                k = rng.randrange(1, n)
                a, b_ = rng.choice([(0.1, 0.8), (0.7, 0.2), (0.5, 0.5), (0.3, 0.6)])
                yield [min(1.0, max(0.0, rng.gauss(a if i < k else b_, 0.1))) for i in range(n)], "randunit"

    cfgA = [dict(alpha_d=0.3, alpha_w=0.6, min_num_instances=1), dict(alpha_d=0.05, alpha_w=0.2, min_num_instances=3), dict(alpha_d=0.001, alpha_w=0.005, min_num_instances=5)]
    cfgW = [dict(alpha_d=0.3, alpha_w=0.6, lambda_=0.2, min_num_instances=1), dict(alpha_d=0.05, alpha_w=0.2, lambda_=0.05, min_num_instances=3), dict(alpha_d=0.01, alpha_w=0.05, lambda_=0.5, min_num_instances=5)]
    nkeep = 0
    for xs, kind in streams():
        ca = dict(rng.choice(cfgA))
        cw = dict(rng.choice(cfgW))
        for det, base in ((A, ca), (W, cw)):
            c1, c2 = dict(base, two_sided_test=False), dict(base, two_sided_test=True)
            ib1, ib2 = [], []
            o1, e1, _ = run_impl(det, c1, xs, probe=probe_ibc if det is W else None, probes=ib1)
            o2, e2, _ = run_impl(det, c2, xs, probe=probe_ibc if det is W else None, probes=ib2)
            ck.evals += 2
            if e1 is not None or e2 is not None:
                ck.violation(dict(clause="raises", detector=det.name), dict(detector=det.name, config=base, stream=xs, error=repr(e1 or e2)))
                continue
            if any(o[0] or o[1] for o in o1 + o2):
                ck.nontrivial.add(f"{det.name}{base}{xs}")
            ok = rule_A(ck, c1, xs, o1) and rule_A(ck, c2, xs, o2) if det is A else rule_W(ck, c1, xs, o1, ib1) and rule_W(ck, c2, xs, o2, ib2)
            # (ii) two-sided extends one-sided up to the first two-sided alarm
            fa = first_alarm(o2)
            horizon = len(xs) if fa is None else fa + 1
            for t in range(horizon):
                if o1[t][0] and not o2[t][0]:
                    ck.violation(
                        dict(clause="two-sided-extends", detector=det.name),
                        dict(what="one-sided alarm that is not a two-sided alarm before the first two-sided alarm", detector=det.name, config=base, stream=xs[: t + 1], step=t),
                    )
                    ok = False
                    break
            # (iii) mirror symmetry of the two-sided A-test
            if det is A and ok:
                mir = [1 - x for x in xs]
                o3, _, _ = run_impl(det, c2, mir)
                for t, (a, b_) in enumerate(zip(o2, o3)):
                    if code(a) != code(b_):
                        if kind != "exh" and kind != "rand01":
                            ck.near_ties += 1  # 1-x rounds for non-binary values; treated as a possible tie
                            break
                        ck.violation(
                            dict(clause="mirror", detector="HDDMA"),
                            dict(what="two-sided HDDM-A verdict changes under x -> 1-x", config=c2, stream=xs[: t + 1], step=t, verdict=code(a), verdict_mirrored=code(b_)),
                        )
                        ok = False
                        break
            if ok and (kind != "exh" or nkeep % 37 == 0):
                for c, o in ((c1, o1), (c2, o2)):
                    cases.append((det, c, xs, None))
                    impl.append(o)
            nkeep += 1
    # (i') exact ties of the Hoeffding test: "by AT LEAST the bound".  Levels whose ln(1/alpha) is an exact
    #      binary64 number, 0/1 streams; a step is used only if the tie is exact both in rational arithmetic and
    #      in the code's own floating-point expression (otherwise rounding decides and nothing is claimed).
    from fractions import Fraction

    def exact_log_alpha(L):
        a0 = math.exp(-L)
        c = a0
        for _ in range(64):
            if math.log(1 / c) == L:
                return c
            c = math.nextafter(c, 0.0)
        c = a0
        for _ in range(64):
            if math.log(1 / c) == L:
                return c
            c = math.nextafter(c, 1.0)
        return None

    aw, ad = exact_log_alpha(2.0), exact_log_alpha(8.0)
    nties = 0
    if aw is not None and ad is not None:
        Lt = 8 if not thorough else 11
        for two in (False, True):
            cfg = dict(alpha_d=ad, alpha_w=aw, two_sided_test=two, min_num_instances=1)
            for i in range(2**Lt):
                xs = [(i >> (Lt - 1 - k)) & 1 for k in range(Lt)]
                out, exc, _ = run_impl(A, cfg, xs)
                ck.evals += 1
                if exc is not None:
                    continue
                for t, o in enumerate(out):
                    if o[0]:
                        break  # state restarted
                    xm, xn, zm, zn, ym, yn = o[3]
                    fired_expected = False
                    tie = False
                    for side, cm, cn in (("incr", xm, xn), ("decr", ym, yn)):
                        if side == "decr" and not two:
                            continue
                        n1, n = int(cn), int(zn)
                        if n1 <= 0 or n1 >= n:
                            continue
                        cmq, zmq = Fraction(round(cm * n1), n1), Fraction(round(zm * n), n)
                        diffq = (zmq - cmq) if side == "incr" else (cmq - zmq)
                        q = Fraction(n - n1, 2 * n1 * n) * 2  # L = 2 exactly
                        thr = math.sqrt((n - n1) / (2 * n1 * n) * math.log(1 / aw))
                        difff = (zm - cm) if side == "incr" else (cm - zm)
                        if diffq > 0 and diffq * diffq == q and difff == thr:
                            tie = True
                            fired_expected = True
                        elif diffq > 0 and diffq * diffq > q:
                            fired_expected = True
                    if tie:
                        nties += 1
                        if not o[1]:
                            ck.violation(
                                dict(clause="hoeffding-rule", detector="HDDMA", two_sided=two, tie="exact"),
                                dict(what="difference EQUAL to the Hoeffding bound at alpha_w (exact in rationals and in binary64) but no warning: the rule is 'at least the bound'", config=cfg, stream=xs[: t + 1], step=t, stats=o[3]),
                            )
                            break
        ck.count("exact_hoeffding_ties_checked", nties)
        ck.nontrivial.add(f"exact-ties-{nties}")
    # (iv) rise / drop family
    nmax = 400 if not thorough else 2000
    for base in cfgA:
        c2 = dict(base, two_sided_test=True)
        Ld = math.log(1 / base["alpha_d"])
        for n in sorted({base["min_num_instances"], 2, 3, 5, 8, 13, 21, 50, 100, nmax // 2, nmax}):
            if n < base["min_num_instances"]:
                continue
            if 2 / Ld - 1 / n <= 0:
                continue
            K = math.ceil(1 / (2 / Ld - 1 / n) + 1e-9) + 1
            rise, _, _ = run_impl(A, c2, [0] * n + [1] * K)
            drop, _, _ = run_impl(A, c2, [1] * n + [0] * K)
            ck.evals += 2
            fr, fd = first_alarm(rise), first_alarm(drop)
            ck.nontrivial.add(f"risedropA{base}{n}")
            if fr is None or fd is None or fr != fd or fr < n or fr - n + 1 > K:
                ck.violation(
                    dict(clause="rise-drop", detector="HDDMA"),
                    dict(what="0^n 1^k and 1^n 0^k not flagged alike within the Hoeffding delay bound", config=c2, n=n, bound=K, first_alarm_rise=fr, first_alarm_drop=fd),
                )
    for base in cfgW:
        c2 = dict(base, two_sided_test=True)
        Ld = math.log(1 / base["alpha_d"])
        lam = base["lambda_"]
        for n in sorted({max(base["min_num_instances"], 30), 50, 100, nmax // 2, nmax, 700, 1100}):
            K = next((k for k in range(1, 3000) if 1 - (1 - lam) ** k > math.sqrt((ibc(lam, n) + ibc(lam, k)) * Ld / 2) * (1 + 1e-9)), None)
            if K is None:
                continue
            rise, _, _ = run_impl(W, c2, [0] * n + [1] * (K + 1))
            drop, _, _ = run_impl(W, c2, [1] * n + [0] * (K + 1))
            ck.evals += 2
            if n >= 700:
                # constant runs long enough for the McDiarmid bound to have converged in binary64 (exact ties of
                # ewma + eps with the running cut point): the whole run is also compared with the model, both modes
                for cc in (dict(base, two_sided_test=False), c2):
                    for xs_ in ([0] * n + [1] * (K + 1), [1] * n + [0] * (K + 1)):
                        o_, e_, _ = run_impl(W, cc, xs_)
                        if e_ is None:
                            cases.append((W, cc, xs_, None))
                            impl.append(o_)
            ck.nontrivial.add(f"risedropW{base}{n}")
            fr = next((i for i, o in enumerate(rise) if o[0] and i >= n), None)
            pre_alarm = any(o[0] for o in drop[:n])
            fd = next((i for i, o in enumerate(drop) if o[0] and i >= n), None)
            if fr is None or fr - n + 1 > K:
                ck.violation(dict(clause="rise-drop", detector="HDDMW", side="rise"), dict(what="sustained rise not flagged within the McDiarmid delay bound", config=c2, n=n, bound=K, first_alarm=fr))
            if pre_alarm:
                ck.count("drop_cases_skipped_prechange_alarm")  # known finding F05: EWMA starts at 0
                continue
            if fd is None or fd - n + 1 > K:
                ck.violation(dict(clause="rise-drop", detector="HDDMW", side="drop"), dict(what="sustained drop not flagged within the delay bound that holds for the mirrored rise", config=c2, n=n, bound=K, first_alarm=fd))
    # deterministic additions to the model correspondence (no draw from the generator):
    # (a) an alarm that is due exactly at the first step after the warm-up (t = min_num_instances), rise and drop, both modes
    for mn in (30, 20, 12):
        for ad, aw in ((0.001, 0.005), (0.05, 0.2)):
            for ts in (False, True):
                for xs_ in ([0] * (mn // 2) + [1] * (mn - mn // 2 + 2), [1] * (mn // 2) + [0] * (mn - mn // 2 + 2)):
                    cc = dict(alpha_d=ad, alpha_w=aw, min_num_instances=mn, two_sided_test=ts)
                    o_, e_, _ = run_impl(A, cc, xs_)
                    if e_ is None:
                        cases.append((A, cc, xs_, None))
                        impl.append(o_)
                    cw_ = dict(alpha_d=ad, alpha_w=aw, lambda_=0.2, min_num_instances=mn, two_sided_test=ts)
                    o_, e_, _ = run_impl(W, cw_, xs_)
                    if e_ is None:
                        cases.append((W, cw_, xs_, None))
                        impl.append(o_)
    ck.count("warmup_boundary_runs", 48)
    # (b) HDDM-W, two-sided: long runs of ones (the EWMA converges to 1 to the last bit, the decrease cut point stops
    #     moving at a step that depends on how the EWMA update is rounded), then a drop to 0 / to an intermediate level
    for lam_, n_ in ((0.05, 674), (0.05, 690), (0.2, 165), (0.2, 200)):
        for tail in ([0] * 80, [0.59] * (120 if not thorough else 600)):
            cc = dict(alpha_d=0.001, alpha_w=0.005, lambda_=lam_, min_num_instances=30, two_sided_test=True)
            xs_ = [1] * n_ + tail
            o_, e_, _ = run_impl(W, cc, xs_)
            if e_ is None:
                cases.append((W, cc, xs_, None))
                impl.append(o_)
    ck.count("long_ones_then_drop_runs", 8)
    # (c) the same 0/1 stream handed over as narrow NumPy integers (more than 256 ones, so that anything accumulated in the
    #     values' own type would wrap) and as np.float64: flags and counters as for Python ints, both detectors, both modes
    import random as _random

    import numpy as _np

    trng = _random.Random(40404)
    for dname, D, cc0 in (("HDDMA", A, dict(alpha_d=0.001, alpha_w=0.005, min_num_instances=30)), ("HDDMW", W, dict(alpha_d=0.001, alpha_w=0.005, lambda_=0.05, min_num_instances=30))):
        for ts in (False, True):
            cc = dict(cc0, two_sided_test=ts)
            ints = [int(trng.random() < 0.8) for _ in range(700)]
            ref, e0, _ = run_impl(D, cc, ints)
            for dt in (_np.uint8, _np.int8, _np.float64):
                o_, e_, _ = run_impl(D, cc, [dt(v) for v in ints])
                ck.case(dict(detector=dname, config=cc, kind="typed-stream", dtype=dt.__name__), nontrivial=True, key=repr(("typed", dname, ts, dt.__name__)))
                ck.count("typed_stream_runs")
                if e_ is not None or e0 is not None:
                    if e_ is not None and e0 is None:
                        ck.violation(dict(clause="raises", detector=dname, dtype=dt.__name__), dict(what="the detector raises when the 0/1 stream arrives as NumPy scalars", detector=dname, config=cc, dtype=dt.__name__, error=repr(e_), step=len(o_) + 1))
                    continue
                k = next((i for i, (a, b_) in enumerate(zip(o_, ref)) if (a[0], a[1], a[2]) != (b_[0], b_[1], b_[2])), None)
                if k is not None:
                    ck.violation(dict(clause="verdict", detector=dname, regime="typed-stream", dtype=dt.__name__),
                                 dict(what="the verdicts on a 0/1 stream depend on the numeric type that carries the values", detector=dname, config=cc, dtype=dt.__name__, stream=ints[: k + 1], step=k + 1, flags_typed=list(o_[k][:3]), flags_python_int=list(ref[k][:3])))
    # (d) a detector copied in mid-stream (copy.deepcopy / a pickle round trip - what save / load does): the copy, fed the rest
    #     of the stream, reports what the original reports (both detectors, both modes; streams with a warning and a drift)
    import copy as _copy
    import pickle as _pickle

    for dname, D, cc0 in (("HDDMA", A, dict(alpha_d=0.001, alpha_w=0.005, min_num_instances=30)), ("HDDMW", W, dict(alpha_d=0.001, alpha_w=0.005, lambda_=0.05, min_num_instances=30))):
        for ts in (False, True):
            cc = dict(cc0, two_sided_test=ts)
            xs_ = [int(trng.random() < 0.2) for _ in range(80)] + [int(trng.random() < 0.75) for _ in range(120)]
            for how in ("deepcopy", "pickle"):
                for cut in (45, 95):
                    try:
                        d0 = D.make(cc)
                        for v in xs_[:cut]:
                            d0.update(value=v)
                        d1 = _copy.deepcopy(d0) if how == "deepcopy" else _pickle.loads(_pickle.dumps(d0))
                        o0, o1 = [], []
                        for v in xs_[cut:]:
                            d0.update(value=v)
                            d1.update(value=v)
                            o0.append(D.observe(d0)[:3])
                            o1.append(D.observe(d1)[:3])
                    except Exception as e:  # noqa: BLE001
                        ck.violation(dict(clause="raises", detector=dname, scenario="copied-in-mid-stream", how=how), dict(detector=dname, config=cc, how=how, cut=cut, error=repr(e)))
                        continue
                    ck.case(dict(detector=dname, config=cc, kind="copied-in-mid-stream", how=how, cut=cut), nontrivial=any(o[0] or o[1] for o in o0), key=repr(("copy", dname, ts, how, cut)))
                    ck.count("copied_in_mid_stream_runs")
                    if o0 != o1:
                        k = next(i for i, (a, b_) in enumerate(zip(o0, o1)) if a != b_)
                        ck.violation(dict(clause="verdict", detector=dname, regime="copied-in-mid-stream", how=how),
                                     dict(what=f"a {how} of the detector taken after {cut} updates does not report what the original reports on the rest of the stream", detector=dname, config=cc, how=how, cut=cut, step=cut + k + 1, copy=list(o1[k]), original=list(o0[k]), stream=xs_[: cut + k + 1]))
    # correspondence
    models = run_models("C04", cases, shard=60)
    from detectors import corr_compare

    corr_compare(ck, "C04", cases, impl, models)

def main(tier, seed):
    ck = Check("C04", tier, seed)
    ck.proof = check_props("C04")
    ck.assumptions = [
        "rule-equivalence and mirror theorems are over R; ln is the model's own ~1ulp implementation in the binary64 run",
        "the cut-point rule is taken as the code defines it (HDDM-W uses lambda_ as the confidence of the cut-point bound: observation O1)",
    ]
    run(ck)
    return ck.finish()
