"""C02 — reset() returns every streaming detector to freshly-constructed behaviour."""
from __future__ import annotations

import numpy as np

from detectors import ALL, KSWINDet, compare_traces, gen_ops, run_impl, run_kswin, run_models
from lib import Check, check_props, first_diff


def phases(det, cfg, xs):
    """Positions (prefix lengths) at which to reset, one per detector phase found by a dry run."""
    out, exc, _ = run_impl(det, cfg, xs)
    pos = {}
    for i, o in enumerate(out):
        if o[0] and "drift" not in pos:
            pos["drift"] = i + 1
        if o[1] and "warning" not in pos:
            pos["warning"] = i + 1
        if not o[0] and not o[1] and i >= det.warm(cfg) and "in_control" not in pos:
            pos["in_control"] = i + 1
        if i > 0 and o[2] < out[i - 1][2] and "after_rebuild" not in pos:
            pos["after_rebuild"] = i + 1
        if i > 0 and out[i - 1][0] and "after_drift" not in pos:
            pos["after_drift"] = i + 1
    pos["warmup"] = max(1, min(len(xs) - 1, det.warm(cfg) // 2))
    pos["mid"] = max(1, len(xs) // 2)
    return {k: v for k, v in pos.items() if 0 < v <= len(xs)}


def run(ck: Check):
    rng = ck.rng
    thorough = ck.tier == "thorough"
    ck.rule(
        "per detector: random configuration and structured stream; a dry run locates each phase (warm-up, in control, warning, drift, right after drift, "
        "right after an internal rebuild, mid-stream); for each phase the detector is reset there (in 40% of the cases after an earlier use/reset cycle, so that the reset under test is the second one) and then fed a fresh suffix, and compared step by step "
        "(flags, counters, statistics) with a newly constructed instance fed the same suffix; non-trivial = pre-reset history contained an alarm or post-reset suffix alarms"
    )
    corr = []
    corr_impl = []
    for det in ALL:
        ncfg = 8 if not thorough else 60
        for _ in range(ncfg):
            cfg = det.gen_cfg(rng)
            n = rng.choice([20, 50, 120])
            if det.name == "BOCD":
                n = min(n, 40)
            xs = gen_ops(rng, det, cfg, n, resets=False)
            ph = phases(det, cfg, xs)
            for phase, k in ph.items():
                suffix = gen_ops(rng, det, cfg, rng.choice([10, 30, 60]) if det.name != "BOCD" else 20, resets=False)
                pre_ops = xs[:k]
                if rng.random() < 0.4 and not isinstance(det, KSWINDet):
                    # an earlier use / reset cycle first: state leaking into whatever reset() re-installs only
                    # shows from the SECOND reset on
                    pre_ops = gen_ops(rng, det, cfg, rng.choice([5, 40]) if det.name != "BOCD" else 10, resets=False) + ["R"] + pre_ops
                    ck.count("double_reset_cases")
                ops = pre_ops + ["R"] + suffix
                k = len(pre_ops)
                seed2 = rng.randrange(10**6)
                if isinstance(det, KSWINDet):
                    # re-seed NumPy's generator right after the reset / right after construction
                    from detectors import ChoiceRecorder

                    with ChoiceRecorder():
                        d = det.make(cfg)
                        for v in xs[:k]:
                            d.update(value=v)
                        d.reset()
                        after_reset = det.observe(d)
                        np.random.seed(seed2)
                        post = []
                        for v in suffix:
                            d.update(value=v)
                            post.append(det.observe(d))
                        f = det.make(cfg)
                        fresh0 = det.observe(f)
                        np.random.seed(seed2)
                        fresh = []
                        for v in suffix:
                            f.update(value=v)
                            fresh.append(det.observe(f))
                    exc = None
                else:
                    out, exc, d = run_impl(det, cfg, ops)
                    if exc is not None:
                        ck.violation(dict(clause="raises", detector=det.name, error=type(exc).__name__), dict(detector=det.name, config=cfg, ops=ops[: len(out) + 1], error=repr(exc)))
                        continue
                    after_reset = out[k]
                    post = out[k + 1 :]
                    f = det.make(cfg)
                    fresh0 = det.observe(f)
                    fresh, exc2, _ = run_impl(det, cfg, suffix, d=f)
                    corr.append((det, cfg, ops, None))
                    corr_impl.append(out)
                pre_alarm = phase in ("drift", "warning", "after_drift", "after_rebuild")
                ck.case(dict(detector=det.name, config=cfg, phase=phase, prefix_len=k, suffix_len=len(suffix)), nontrivial=pre_alarm or any(o[0] or o[1] for o in post), key=repr((det.name, cfg, ops)))
                ck.count(f"phase_{phase}")
                ck.count(f"cases_{det.name}")
                d0 = first_diff(list(after_reset), list(fresh0))
                if d0 is not None:
                    ck.violation(
                        dict(clause="reset-state", detector=det.name),
                        dict(what="state right after reset() differs from a new instance", detector=det.name, config=cfg, prefix=pre_ops, phase=phase, after_reset=after_reset, fresh=fresh0, diff=str(d0)),
                    )
                    continue
                dd = compare_traces(post, fresh)
                if dd is not None:
                    ck.violation(
                        dict(clause="reset-behaviour", detector=det.name),
                        dict(what="outputs after reset() differ from a new instance", detector=det.name, config=cfg, prefix=pre_ops, suffix=suffix[: dd[0] + 1], phase=phase, step=dd[0], diff=dd[1]),
                    )
    # PrequentialError
    from frouros.metrics import PrequentialError

    for _ in range(20):
        al = rng.choice([1.0, 0.9, 0.5, 0.999])
        p, f = PrequentialError(alpha=al), PrequentialError(alpha=al)
        pre = [rng.random() for _ in range(rng.randrange(1, 30))]
        suf = [float(rng.random() < 0.5) for _ in range(20)]
        for v in pre:
            p(v)
        p.reset()
        a = [p(v) for v in suf]
        b_ = [f(v) for v in suf]
        ck.case(dict(metric="PrequentialError", alpha=al, prefix_len=len(pre)), nontrivial=True, key=repr((al, pre, suf)))
        if a != b_ or (p.cumulative_error, p.cumulative_instances, p.num_instances) == (None,):
            ck.violation(dict(clause="reset-behaviour", detector="PrequentialError"), dict(alpha=al, prefix=pre, suffix=suf, after_reset=a, fresh=b_))
    # PrequentialError after extreme (but legal) error values: inf / huge before the reset must leave no trace
    for pre in ([0.2, float("inf"), 0.1], [1e308, 1e308, 0.5], [float("inf")], [0.3, -float("inf")]):
        for al in (1.0, 0.9):
            p, f = PrequentialError(alpha=al), PrequentialError(alpha=al)
            suf = [0.0, 1.0, 1.0, 0.5, 0.0]
            try:
                for v in pre:
                    p(v)
                p.reset()
                a = [p(v) for v in suf]
                b_ = [f(v) for v in suf]
            except Exception as e:  # noqa: BLE001
                ck.violation(dict(clause="reset-behaviour", detector="PrequentialError", error=type(e).__name__), dict(alpha=al, prefix=[repr(v) for v in pre], error=repr(e)))
                continue
            ck.case(dict(metric="PrequentialError", alpha=al, prefix=[repr(v) for v in pre], kind="extreme-prefix"), nontrivial=True, key=repr(("preq-ext", al, [repr(v) for v in pre])))
            if [repr(x) for x in a] != [repr(x) for x in b_]:
                ck.violation(dict(clause="reset-behaviour", detector="PrequentialError", prefix="non-finite"), dict(what="values reported after reset() depend on an infinite / huge error value seen before it", alpha=al, prefix=[repr(v) for v in pre], suffix=suf, after_reset=[repr(x) for x in a], fresh=[repr(x) for x in b_]))
    # what update() RETURNS (the callbacks' logs) after a reset, with a history callback attached: as on a new
    # detector with a new callback
    from frouros.callbacks import HistoryConceptDrift
    from frouros.utils.stats import BaseStat

    def plain(logs):
        def sc(v):
            v = v.get() if isinstance(v, BaseStat) else v
            return repr(float(v)) if isinstance(v, (bool, int, float, np.integer, np.floating, np.bool_)) else type(v).__name__
        return {cb: {k: ([sc(x) for x in v] if isinstance(v, list) else sc(v)) for k, v in lg.items()} for cb, lg in logs.items()}

    for det in ALL:
        if det.name == "KSWIN":
            continue
        for _ in range(2 if ck.tier != "thorough" else 8):
            cfg = det.gen_cfg(rng)
            pre = gen_ops(rng, det, cfg, rng.choice([6, 30]) if det.name != "BOCD" else 8, resets=False)
            suf = gen_ops(rng, det, cfg, rng.choice([5, 25]) if det.name != "BOCD" else 8, resets=False)
            d1 = det.make(cfg, callbacks=[HistoryConceptDrift(name="h")])
            d2 = det.make(cfg, callbacks=[HistoryConceptDrift(name="h")])
            try:
                for v in pre:
                    d1.update(value=v)
                d1.reset()
                r1 = [plain(d1.update(value=v)) for v in suf]
                r2 = [plain(d2.update(value=v)) for v in suf]
            except Exception as e:  # noqa: BLE001
                ck.violation(dict(clause="raises", detector=det.name, error=type(e).__name__, scenario="returned-logs"), dict(detector=det.name, config=cfg, prefix=pre, suffix=suf, error=repr(e)))
                continue
            ck.case(dict(detector=det.name, config=cfg, kind="returned-logs-after-reset", prefix_len=len(pre)), nontrivial=True, key=repr(("retlogs", det.name, cfg, pre, suf)))
            ck.count("returned_logs_cases")
            if r1 != r2:
                step = next(i for i, (a, b_) in enumerate(zip(r1, r2)) if a != b_)
                ck.violation(dict(clause="reset-behaviour", detector=det.name, observable="update-return-value"), dict(what="after reset() the logs RETURNED by update() differ from those of a new detector with a new history callback", detector=det.name, config=cfg, prefix=pre, suffix=suf[: step + 1], step=step, after_reset=r1[step], fresh=r2[step]))
    # data-drift streaming detectors (IncrementalKSTest, MMDStreaming): reset + refit on the same reference
    try:
        import c02_datadrift

        c02_datadrift.run(ck)
    except ImportError:
        ck.notes.append("IncrementalKSTest / streaming MMD reset clause: covered once their models exist (C09/C11)")
    # KSWIN where the random draw DECIDES (a large alpha on a noisy stream: the p-value straddles alpha from draw to draw),
    # followed long enough after the reset for the window to fill again: with NumPy's generator put in the same state, the
    # reset detector and a newly constructed one must then report the same flags (own generator: independent of the above)
    import random as _random
    from frouros.detectors.concept_drift import KSWIN as _KSWIN, KSWINConfig as _KSWINConfig

    prng = _random.Random(20202)
    for k in range(3 if not thorough else 12):
        n, test = prng.choice([(12, 4), (20, 6)])
        kw = dict(alpha=prng.choice([0.3, 0.5]), seed=prng.randrange(1000), min_num_instances=n, num_test_instances=test)
        pre = [prng.gauss(0, 1) for _ in range(n + prng.choice([3, 25]))]
        suf = [prng.gauss(0, 1) for _ in range(n + 60)]
        s2 = prng.randrange(10**6)
        try:
            d1 = _KSWIN(config=_KSWINConfig(**kw))
            for v in pre:
                d1.update(value=v)
            d1.reset()
            np.random.seed(s2)
            r1 = []
            for v in suf:
                d1.update(value=v)
                r1.append((bool(d1.drift), int(d1.num_instances), [float(x) for x in d1.window]))
            d2 = _KSWIN(config=_KSWINConfig(**kw))
            np.random.seed(s2)
            r2 = []
            for v in suf:
                d2.update(value=v)
                r2.append((bool(d2.drift), int(d2.num_instances), [float(x) for x in d2.window]))
        except Exception as e:  # noqa: BLE001
            ck.violation(dict(clause="raises", detector="KSWIN", error=type(e).__name__, scenario="draw-decides"), dict(config=kw, error=repr(e)))
            continue
        flips = sum(1 for a, b_ in zip(r1[:-1], r1[1:]) if a[0] != b_[0])
        ck.case(dict(detector="KSWIN", config=kw, kind="draw-decides-after-reset", prefix_len=len(pre), drift_flag_changes=flips), nontrivial=flips > 0, key=repr(("kswin-draw", kw, pre[:3], s2)))
        ck.count("kswin_draw_decides_cases")
        if r1 != r2:
            step = next(i for i, (a, b_) in enumerate(zip(r1, r2)) if a != b_)
            ck.violation(dict(clause="reset-behaviour", detector="KSWIN", scenario="draw-decides"),
                         dict(what="after reset() (NumPy's global generator re-seeded identically) KSWIN's outputs differ from those of a newly constructed detector", config=kw, prefix=pre, suffix=suf[: step + 1], reseed=s2, step=step, after_reset=r1[step][:2], fresh=r2[step][:2]))
    # ECDD-WT with a SMALL lambda_ (the variance factor 1 - (1-lambda_)^(2t) is then far from 1 for a long time after a
    # reset: anything carried across the reset shows) and a level change soon after the restarted warm-up
    from frouros.detectors.concept_drift import ECDDWT as _ECDD, ECDDWTConfig as _ECDDConfig

    grid = [(lam, arl, quiet) for lam in (0.02, 0.05) for arl in (100, 1000) for quiet in (35, 52, 70)]
    if thorough:
        grid += [(lam, arl, quiet) for lam in (0.01, 0.03) for arl in (100, 400, 1000) for quiet in (35, 52, 70)]
    for k, (lam, arl, quiet) in enumerate(grid):
        kw = dict(lambda_=lam, average_run_length=arl, min_num_instances=prng.choice([10, 30]))
        pre = [int(prng.random() < 0.25) for _ in range(prng.choice([80, 240]))]
        suf = [0] * quiet + [1] * 60
        try:
            d1 = _ECDD(config=_ECDDConfig(**kw))
            for v in pre:
                d1.update(value=v)
            d1.reset()
            r1 = []
            for v in suf:
                d1.update(value=v)
                r1.append((bool(d1.drift), bool(d1.warning), int(d1.num_instances)))
            d2 = _ECDD(config=_ECDDConfig(**kw))
            r2 = []
            for v in suf:
                d2.update(value=v)
                r2.append((bool(d2.drift), bool(d2.warning), int(d2.num_instances)))
        except Exception as e:  # noqa: BLE001
            ck.violation(dict(clause="raises", detector="ECDDWT", error=type(e).__name__, scenario="small-lambda"), dict(config=kw, error=repr(e)))
            continue
        ck.case(dict(detector="ECDDWT", config=kw, kind="small-lambda-after-reset", prefix_len=len(pre)), nontrivial=any(a[0] or a[1] for a in r2), key=repr(("ecdd-small", kw, pre[:5], suf[:5])))
        ck.count("ecdd_small_lambda_cases")
        if r1 != r2:
            step = next(i for i, (a, b_) in enumerate(zip(r1, r2)) if a != b_)
            ck.violation(dict(clause="reset-behaviour", detector="ECDDWT", scenario="small-lambda"),
                         dict(what="after reset() ECDD-WT's flags differ from those of a newly constructed detector", config=kw, prefix=pre, suffix=suf[: step + 1], step=step, after_reset=r1[step], fresh=r2[step]))
    # reset() INSIDE the warning zone (warning up, drift not): the flags must read as new at once, not from the next update
    # on (own generator; per detector the draws continue until a stream with such a step is found)
    wrng = _random.Random(70707)
    for det in ALL:
        if isinstance(det, KSWINDet):
            continue
        want = 2 if not thorough else 6
        found = 0
        for _ in range(40):
            if found >= want:
                break
            cfg = det.gen_cfg(wrng)
            xs = gen_ops(wrng, det, cfg, 120 if det.name != "BOCD" else 30, resets=False)
            out, exc, _d = run_impl(det, cfg, xs)
            k = next((i + 1 for i, o in enumerate(out) if o[1] and not o[0]), None)
            if exc is not None or k is None:
                continue
            found += 1
            suf = gen_ops(wrng, det, cfg, 15, resets=False)
            ops = xs[:k] + ["R"] + suf
            out2, exc2, _d = run_impl(det, cfg, ops)
            if exc2 is not None:
                ck.violation(dict(clause="raises", detector=det.name, error=type(exc2).__name__, scenario="reset-in-warning-zone"), dict(detector=det.name, config=cfg, ops=ops[: len(out2) + 1], error=repr(exc2)))
                continue
            f = det.make(cfg)
            fresh0 = det.observe(f)
            fresh, _e, _d = run_impl(det, cfg, suf, d=f)
            ck.case(dict(detector=det.name, config=cfg, kind="reset-in-warning-zone", prefix_len=k), nontrivial=True, key=repr(("warnzone", det.name, cfg, xs[:k], suf)))
            ck.count("reset_in_warning_zone_cases")
            d0 = first_diff(list(out2[k]), list(fresh0))
            if d0 is not None:
                ck.violation(dict(clause="reset-state", detector=det.name, scenario="reset-in-warning-zone"),
                             dict(what="state right after a reset() made while the warning flag was up differs from a new instance", detector=det.name, config=cfg, prefix=xs[:k], after_reset=out2[k], fresh=fresh0, diff=str(d0)))
                continue
            dd = compare_traces(out2[k + 1 :], fresh)
            if dd is not None:
                ck.violation(dict(clause="reset-behaviour", detector=det.name, scenario="reset-in-warning-zone"),
                             dict(what="outputs after a reset() made while the warning flag was up differ from a new instance", detector=det.name, config=cfg, prefix=xs[:k], suffix=suf[: dd[0] + 1], step=dd[0], diff=dd[1]))
    # model correspondence on the same histories
    models = run_models("C02", corr)
    from detectors import corr_compare

    corr_compare(ck, "C02", corr, corr_impl, models)

def main(tier, seed):
    ck = Check("C02", tier, seed)
    ck.proof = check_props("C02")
    ck.assumptions = [
        "in the models reset is definitionally the initial state; that the code's reset() reaches a state equivalent to a fresh instance is what the correspondence and the monitor establish per run",
        "KSWIN: NumPy's global generator is re-seeded identically after reset() and after construction of the fresh instance",
    ]
    run(ck)
    return ck.finish()
