"""C10 — histogram and transport distances equal their formulas and obey distance axioms."""
from __future__ import annotations

import math
import sys
from fractions import Fraction

import numpy as np

from lib import HEADER, Check, check_props, close, coq_eval, fl_list, z_list

HDR = (
    HEADER
    + """From FV Require Import Hist.
Definition tiny : float := 0x1p-1022.
Definition allD (nb : nat) (X Y : list float) (cX : list Z) (eX : list float) (cY : list Z) (eY : list float) :=
  let e := pooled_edges (A:=FloatA) X Y nb in
  let lo := lmin (A:=FloatA) [lmin X; lmin Y] in
  let hi := lmax (A:=FloatA) [lmax X; lmax Y] in
  (edge_counts e X, edge_counts e Y, uni_counts lo hi nb X, uni_counts lo hi nb Y,
   psi_dist tiny nb X Y, hellinger_dist nb X Y, bhattacharyya_dist nb X Y, hi_dist nb X Y,
   js_dist nb (cX, eX) (cY, eY), kl_dist nb (cX, eX) (cY, eY),
   emd_dist X Y, energy_dist X Y).
"""
)

BINNED = ["PSI", "Hellinger", "Bhattacharyya", "HI"]
PROB = ["JS", "KL"]
TRANSPORT = ["EMD", "Energy"]
DISTS = BINNED + PROB + TRANSPORT
NUM_BINS = [2, 3, 5, 10, 17, 64]
SQRT_LN2 = math.sqrt(math.log(2.0))
UPPER = {"Hellinger": 1.0, "Bhattacharyya": 1.0, "HI": 1.0, "JS": SQRT_LN2}


def _classes():
    from frouros.detectors.data_drift import (
        EMD,
        JS,
        KL,
        PSI,
        BhattacharyyaDistance,
        EnergyDistance,
        HellingerDistance,
        HINormalizedComplement,
    )

    return dict(PSI=PSI, Hellinger=HellingerDistance, Bhattacharyya=BhattacharyyaDistance, HI=HINormalizedComplement, JS=JS, KL=KL, EMD=EMD, Energy=EnergyDistance)


def impl(name, X, Y, nb):
    """detector.fit(X=ref); detector.compare(X=test)[0].distance  (the property's observation point)"""
    cls = _classes()[name]
    det = cls() if name in TRANSPORT else cls(num_bins=nb)
    det.fit(X=np.array(X, dtype=float))
    return float(det.compare(X=np.array(Y, dtype=float))[0].distance)


def impl_safe(ck, name, X, Y, nb, fam):
    try:
        return impl(name, X, Y, nb)
    except Exception as e:  # noqa: BLE001
        ck.violation(dict(clause="raises", distance=name, family=fam), dict(distance=name, X=X, Y=Y, num_bins=nb, error=repr(e)))
        return None


# ------------------------------------------------------------------ sample pairs


def gen_pair(rng, big):
    fam = rng.choice(["continuous", "continuous", "tied", "tied", "edges", "edges", "edges_ulp", "disjoint", "nested", "const_equal", "const_diff", "const_x", "const_y", "sizes", "replicated"])
    hi_n = 300 if big else 60
    n = rng.choice([1, 2, 3, 5, 8, 13, 21, 34, 55, hi_n])
    m = rng.choice([1, 2, 3, 5, 8, 13, 21, 34, 55, hi_n])
    if fam != "sizes" and rng.random() < 0.3:
        m = n
    nb = rng.choice(NUM_BINS)
    if fam in ("continuous", "sizes"):
        mu, s = rng.choice([(0.0, 1.0), (5.0, 0.1), (100.0, 10.0), (-3.0, 2.0)])
        sh = rng.choice([0.0, 0.0, 0.5, 2.0]) * s
        X = [rng.gauss(mu, s) for _ in range(n)]
        Y = [rng.gauss(mu + sh, s * rng.choice([1.0, 1.0, 0.5, 3.0])) for _ in range(m)]
    elif fam == "tied":
        vals = rng.choice([[0.0, 1.0], [0.0, 1.0, 2.0, 3.0], [-1.5, 0.25, 0.5, 7.0], [0.1, 0.2, 0.3, 0.4, 0.5, 0.6, 0.7, 0.8, 0.9, 1.0]])
        X = [rng.choice(vals) for _ in range(n)]
        Y = [rng.choice(vals[: max(1, len(vals) - rng.choice([0, 0, 1]))]) for _ in range(m)]
    elif fam in ("edges", "edges_ulp"):
        # values exactly on the bin edges of the pooled range (exactly representable grid for
        # "edges"; NumPy's own computed edges and their 1-ulp neighbours for "edges_ulp")
        if fam == "edges":
            lo = float(rng.choice([0, -4, 3, 100]))
            step = rng.choice([1.0, 0.5, 0.25, 2.0, 8.0])
            grid = [lo + i * step for i in range(nb + 1)]
        else:
            lo, hi = rng.choice([(0.0, 1.0), (0.1, 0.7), (-1.3, 2.9), (1e-3, 1e3), (5.0, 5.000001)])
            grid = [float(v) for v in np.linspace(lo, hi, nb + 1)]
            grid = grid + [math.nextafter(g, math.inf) for g in grid[1:-1]] + [math.nextafter(g, -math.inf) for g in grid[1:-1]]
        X = [rng.choice(grid) for _ in range(n)]
        Y = [rng.choice(grid) for _ in range(m)]
        # the extreme edges must be present so that the pooled range is the grid's range
        mn, mx = min(grid), max(grid)
        (X if rng.random() < 0.5 else Y).append(mn)
        (X if rng.random() < 0.5 else Y).append(mx)
        if rng.random() < 0.4:
            X += [rng.uniform(mn, mx) for _ in range(3)]
    elif fam == "disjoint":
        g = rng.choice([0.0, 0.5, 10.0])
        X = [rng.uniform(0, 1) for _ in range(n)]
        Y = [rng.uniform(1 + g, 2 + g) for _ in range(m)]
        if rng.random() < 0.5:
            X, Y = Y, X
    elif fam == "nested":
        X = [rng.uniform(0, 10) for _ in range(n)]
        Y = [rng.uniform(4, 5) for _ in range(m)]
        if rng.random() < 0.5:
            X, Y = Y, X
    elif fam == "replicated":
        # the same empirical distribution with different multiplicities (JS / KL / EMD ~ 0)
        base = [rng.choice([rng.gauss(0, 1), float(rng.randrange(5)), rng.uniform(0, 1)]) for _ in range(rng.choice([2, 3, 5, 8]))]
        X = base * rng.choice([1, 2, 3])
        Y = base * rng.choice([1, 2, 4, 7])
        rng.shuffle(Y)
    elif fam == "const_equal":
        c = rng.choice([0.0, 1.5, -2.0, 1e6, 0.1])
        X, Y = [c] * n, [c] * m
    elif fam == "const_diff":
        c = rng.choice([0.0, 1.5, -2.0, 0.1])
        d = rng.choice([0.25, 0.3, 1.0, 1.0, 5.0, -0.75])
        X, Y = [c] * n, [c + d] * m
    elif fam == "const_x":
        c = rng.choice([0.0, 0.25, 0.5, 1.0, 2.0])
        X = [c] * n
        Y = [rng.choice([rng.uniform(0, 1), rng.uniform(0, 0.5)]) for _ in range(m)] + [rng.choice([1.0, 0.75])]
    else:  # const_y
        c = rng.choice([0.0, 0.25, 0.5, 1.0, 2.0])
        Y = [c] * m
        X = [rng.choice([rng.uniform(0, 1), rng.uniform(0, 0.5)]) for _ in range(n)] + [rng.choice([1.0, 0.75])]
    return fam, [float(v) for v in X], [float(v) for v in Y], nb


# ------------------------------------------------------------------ independent oracle (textbook)


def exact_bins(X, Y, nb):
    """Counts per equal-width bin of the pooled range with exact rational edges
    e_i = lo + i*(hi-lo)/nb, bins [e_i, e_{i+1}), last bin closed.  Returns
    (countsX, countsY, near_tie)."""
    lo = Fraction(min(min(X), min(Y)))
    hi = Fraction(max(max(X), max(Y)))
    if lo == hi:
        lo, hi = lo - Fraction(1, 2), hi + Fraction(1, 2)
    w = hi - lo
    near = False
    flo, fhi = float(lo), float(hi)
    fstep = (fhi - flo) / nb
    # "within rounding of an edge", in bin widths: a few ulps of the values themselves
    thr = max(1e-9, 8 * math.ulp(max(abs(flo), abs(fhi))) * nb / float(w))
    out = []
    for S in (X, Y):
        c = [0] * nb
        for x in S:
            fx = Fraction(x)
            t = (fx - lo) * nb / w  # exact position in bin units
            i = min(int(t), nb - 1)
            c[i] += 1
            k = round(t)
            if 0 < k < nb:
                if t == k:
                    # exactly on an interior edge: unambiguous only if the float edge is that value
                    if k * fstep + flo != x:
                        near = True
                elif abs(t - k) <= thr:
                    near = True
        out.append(c)
    return out[0], out[1], near


def textbook_binned(name, cx, cy, n, m):
    p = [c / n for c in cx]
    q = [c / m for c in cy]
    if name == "PSI":
        tiny = sys.float_info.min
        p = [v if v != 0.0 else tiny for v in p]
        q = [v if v != 0.0 else tiny for v in q]
        return math.fsum((b - a) * math.log(b / a) for a, b in zip(p, q))
    if name == "Hellinger":
        return math.sqrt(math.fsum((math.sqrt(a) - math.sqrt(b)) ** 2 for a, b in zip(p, q))) / math.sqrt(2.0)
    if name == "Bhattacharyya":
        return 1.0 - math.fsum(math.sqrt(a * b) for a, b in zip(p, q))
    return 1.0 - math.fsum(min(a, b) for a, b in zip(p, q))


def exact_masses(counts, edges, pts):
    """Masses of the histogram distribution (density constant on each bin) between
    consecutive points, in exact rational arithmetic."""
    tot = sum(counts)
    E = [Fraction(float(e)) for e in edges]

    def F(x):
        if x <= E[0]:
            return Fraction(0)
        if x >= E[-1]:
            return Fraction(1)
        acc = Fraction(0)
        for i, c in enumerate(counts):
            if x >= E[i + 1]:
                acc += Fraction(int(c), int(tot))
            else:
                acc += Fraction(int(c), int(tot)) * (x - E[i]) / (E[i + 1] - E[i])
                break
        return acc

    Fs = [F(p) for p in pts]
    return [Fs[i] - Fs[i - 1] for i in range(1, len(pts))]


def textbook_prob(X, Y, nb, hX, hY, span="supports"):
    """JS distance and KL(test||reference) of the two auto-binned histogram distributions
    discretised on nb points spanning both histogram supports (= the pooled sample range, except
    that a constant sample c has the support [c - 1/2, c + 1/2]).  Returns (js, kl, near_tie, sP, sQ)."""
    if span == "supports":
        lo = min(Fraction(float(hX[1][0])), Fraction(float(hY[1][0])))
        hi = max(Fraction(float(hX[1][-1])), Fraction(float(hY[1][-1])))
    else:  # the pooled sample range: the discretisation before the repair 5e463cd (diagnosis only)
        lo = Fraction(min(min(X), min(Y)))
        hi = Fraction(max(max(X), max(Y)))
    pts = [lo + (hi - lo) * i / (nb - 1) for i in range(nb)]
    P = exact_masses(hX[0], hX[1], pts)
    Q = exact_masses(hY[0], hY[1], pts)
    near = False
    # a histogram edge of either sample falling within rounding of an interior point (the auto
    # edges of tied samples often ARE the linspace points): the float masses next to it may be
    # 0 or 1e-17, which decides KL = inf and can dominate its value
    flo, fhi = float(lo), float(hi)
    fstep = (fhi - flo) / (nb - 1)
    for e in list(hX[1]) + list(hY[1]):
        fe = Fraction(float(e))
        for i, pt in enumerate(pts[1:-1], start=1):
            if abs(fe - pt) <= Fraction(1, 10**9) * max(1, abs(pt)):
                if not (fe == pt and i * fstep + flo == float(e)):
                    near = True
    sP, sQ = sum(P), sum(Q)
    if sP == 0 or sQ == 0:
        js = math.nan
    else:
        p = [float(v / sP) for v in P]
        q = [float(v / sQ) for v in Q]
        mix = [(a + b) / 2 for a, b in zip(p, q)]
        js2 = math.fsum(a * math.log(a / c) for a, c in zip(p, mix) if a > 0) + math.fsum(b * math.log(b / c) for b, c in zip(q, mix) if b > 0)
        js = math.sqrt(max(js2, 0.0) / 2)
    kl = 0.0
    terms = []
    for pr, qt in zip(P, Q):
        if qt > 0 and pr > 0:
            terms.append(float(qt) * math.log(float(qt / pr)))
        elif qt > 0:
            kl = math.inf
    if kl == 0.0:
        kl = math.fsum(terms)
    return js, kl, near, float(sP), float(sQ)


def w1_quantile(X, Y):
    """Wasserstein-1 as the integral of |F_X^-1 - F_Y^-1| over (0,1) on the lcm grid."""
    xs, ys = sorted(X), sorted(Y)
    n, m = len(xs), len(ys)
    L = math.lcm(n, m)
    return math.fsum(abs(xs[k // (L // n)] - ys[k // (L // m)]) for k in range(L)) / L


def energy_pairwise(X, Y):
    """sqrt(2 E|X-Y| - E|X-X'| - E|Y-Y'|) over the empirical distributions."""
    n, m = len(X), len(Y)
    a = math.fsum(abs(x - y) for x in X for y in Y) / (n * m)
    b = math.fsum(abs(x - y) for x in X for y in X) / (n * n)
    c = math.fsum(abs(x - y) for x in Y for y in Y) / (m * m)
    return math.sqrt(max(2 * a - b - c, 0.0)), 2 * a - b - c


# ------------------------------------------------------------------ comparisons


def agree(name, a, b, scale=1.0):
    """a, b floats (possibly inf/nan). JS is compared on squares (sqrt near 0 amplifies rounding)."""
    if a is None or b is None:
        return False
    if math.isnan(a) or math.isnan(b):
        if name == "JS" and not (math.isnan(a) and math.isnan(b)):
            o = b if math.isnan(a) else a
            if not math.isinf(o) and o * o < 1e-12:
                return None  # sqrt of a rounding-level divergence: its sign is noise (near tie)
        return math.isnan(a) and math.isnan(b)
    if math.isinf(a) or math.isinf(b):
        return a == b
    if name in ("JS", "Energy"):
        return close(a * a, b * b, 1e-9, 1e-12 * scale)
    return close(a, b, 1e-9, 1e-12 * scale)


def model_val(v):
    """xnum / float from the parsed Coq value."""
    if isinstance(v, (int, float)):
        return float(v)
    if isinstance(v, tuple) and len(v) >= 1:
        nm = v[0]
        if nm == "Fin":
            return float(v[1])
        if nm == "PInf":
            return math.inf
        if nm == "NaN":
            return math.nan
    raise ValueError(f"unexpected model value {v!r}")


def input_class(X, Y):
    cx, cy = len(set(X)) == 1, len(set(Y)) == 1
    if cx and cy:
        return "both-constant-equal" if X[0] == Y[0] else "both-constant-different"
    if cx:
        return "reference-constant"
    if cy:
        return "test-constant"
    return "non-constant"


def nan_cause(name, X, Y, nb, hX, hY):
    """Why a nan: classifies the input for the finding's signature (exact arithmetic), in terms of
    the discretisation over the pooled sample range that the code used before the repair 5e463cd."""
    if name != "JS":
        return "other"
    if min(min(X), min(Y)) == max(max(X), max(Y)):
        return "empty-pooled-range"
    js, _, _, sP, sQ = textbook_prob(X, Y, nb, hX, hY, span="pooled")
    if sP == 0 or sQ == 0:
        return "zero-mass-in-pooled-range"
    if not math.isnan(js) and js * js < 1e-12:
        return "masses-coincide-up-to-rounding"
    return "other"


def check_axioms(ck, rng, fam, X, Y, nb, d, hX, hY):
    """Distance axioms on the implementation's own outputs; d = {name: distance(X, Y)}."""
    ic = input_class(X, Y)
    scale = max(1.0, max(abs(v) for v in X + Y))
    Xp, Yp = X[:], Y[:]
    rng.shuffle(Xp)
    rng.shuffle(Yp)
    for name in DISTS:
        v = d.get(name)
        if v is None:
            continue
        base = dict(distance=name, X=X, Y=Y, num_bins=nb, family=fam, value=v)
        tol = 1e-9 * (scale if name in TRANSPORT else 1.0)
        if math.isnan(v):
            ck.violation(dict(clause="nan", distance=name, input=ic, cause=nan_cause(name, X, Y, nb, hX, hY)), dict(what="distance is nan", **base))
            continue
        if v < -tol:
            ck.violation(dict(clause="nonneg", distance=name, input=ic), dict(what="distance is negative", **base))
        if name in UPPER and v > UPPER[name] + 1e-9:
            ck.violation(dict(clause="upper-bound", distance=name, input=ic), dict(what=f"distance exceeds {UPPER[name]}", **base))
        # identical samples
        s = impl_safe(ck, name, X, X, nb, fam)
        if s is not None:
            stol = 1e-7 if name in ("JS", "Energy") else tol
            if math.isnan(s):
                ck.violation(dict(clause="nan", distance=name, input="both-constant-equal" if len(set(X)) == 1 else "identical", cause=nan_cause(name, X, X, nb, hX, hX)), dict(what="d(X,X) is nan", distance=name, X=X, Y=X, num_bins=nb, value=s))
            elif abs(s) > stol:
                ck.violation(dict(clause="self-zero", distance=name, input=ic), dict(what="d(X,X) != 0", distance=name, X=X, Y=X, num_bins=nb, value=s))
        # order of the samples' elements
        pv = impl_safe(ck, name, Xp, Yp, nb, fam)
        if pv is not None and agree(name, v, pv, scale) is False:
            ck.violation(dict(clause="permutation", distance=name, input=ic), dict(what="distance depends on sample order", Xp=Xp, Yp=Yp, permuted=pv, **base))
        # symmetry
        if name != "KL":
            sv = impl_safe(ck, name, Y, X, nb, fam)
            if sv is not None and agree(name, v, sv, scale) is False:
                ck.violation(dict(clause="symmetry", distance=name, input=ic), dict(what="d(X,Y) != d(Y,X)", swapped=sv, **base))
    # affine maps
    a = rng.choice([-3.0, -1.0, 0.5, 2.0])
    b = rng.choice([-7.0, 0.0, 3.0])
    Xa = [a * x + b for x in X]
    Ya = [a * y + b for y in Y]
    for name, factor in (("EMD", abs(a)), ("Energy", math.sqrt(abs(a)))):
        v = d.get(name)
        if v is None or math.isnan(v):
            continue
        va = impl_safe(ck, name, Xa, Ya, nb, fam)
        if va is None:
            continue
        # a*x+b moves every point by at most one rounding of magnitude |a|*scale+|b|; each of the
        # n+m-1 gaps of the pooled order statistics changes by at most twice that
        tol = 8 * (len(X) + len(Y)) * 2.3e-16 * (abs(a) * scale + abs(b) + 1.0)
        if name == "Energy":
            ok = abs(va * va - factor * factor * v * v) <= tol + 1e-9 * va * va
        else:
            ok = abs(va - factor * v) <= tol + 1e-9 * abs(va)
        if not ok:
            ck.violation(dict(clause="affine", distance=name, a_negative=a < 0), dict(what="d(aX+b, aY+b) != factor * d(X,Y)", distance=name, X=X, Y=Y, a=a, b=b, value=v, transformed=va, factor=factor))


def check_formulas(ck, fam, X, Y, nb, d, hX, hY):
    """Implementation vs textbook formulas (independent oracle)."""
    n, m = len(X), len(Y)
    ic = input_class(X, Y)
    cx, cy, near = exact_bins(X, Y, nb)
    if near:
        ck.near_ties += 1
        ck.count("formula_skipped_value_within_1e-9_of_an_edge")
    else:
        for name in BINNED:
            v = d.get(name)
            if v is None or math.isnan(v):
                continue
            t = textbook_binned(name, cx, cy, n, m)
            if not close(v, t, 1e-9, 1e-12):
                ck.violation(dict(clause="formula", distance=name, input=ic), dict(what="distance differs from the textbook formula on exact-edge proportions", distance=name, X=X, Y=Y, num_bins=nb, family=fam, value=v, expected=t, countsX=cx, countsY=cy))
    js, kl, near2, sP, sQ = textbook_prob(X, Y, nb, hX, hY)
    if d.get("JS") is not None and not math.isnan(d["JS"]) and not math.isnan(js):
        if not close(d["JS"] ** 2, js**2, 1e-7, 1e-11):
            ck.violation(dict(clause="formula", distance="JS", input=ic), dict(what="JS differs from the Jensen-Shannon distance of the discretised histogram distributions", X=X, Y=Y, num_bins=nb, family=fam, value=d["JS"], expected=js))
    if d.get("KL") is not None and not math.isnan(d["KL"]):
        v = d["KL"]
        if math.isinf(v) != math.isinf(kl):
            if near2:
                ck.near_ties += 1
            else:
                ck.violation(dict(clause="formula", distance="KL", input=ic), dict(what="KL finiteness differs from KL(test||reference)", X=X, Y=Y, num_bins=nb, family=fam, value=v, expected=kl))
        elif not math.isinf(v) and near2 and not close(v, kl, 1e-7, 1e-10):
            ck.near_ties += 1
        elif not math.isinf(v) and not close(v, kl, 1e-7, 1e-10):
            ck.violation(dict(clause="formula", distance="KL", input=ic), dict(what="KL differs from sum q ln(q/p), q = test masses, p = reference masses", X=X, Y=Y, num_bins=nb, family=fam, value=v, expected=kl))
    scale = max(1.0, max(abs(v) for v in X + Y))
    if d.get("EMD") is not None and not math.isnan(d["EMD"]):
        t = w1_quantile(X, Y)
        if not close(d["EMD"], t, 1e-9, 1e-12 * scale):
            ck.violation(dict(clause="formula", distance="EMD", input=ic), dict(what="EMD differs from the quantile-function Wasserstein-1", X=X, Y=Y, value=d["EMD"], expected=t))
    if d.get("Energy") is not None and not math.isnan(d["Energy"]):
        t, t2 = energy_pairwise(X, Y)
        if not close(d["Energy"] ** 2, t2, 1e-7, 1e-10 * scale):
            ck.violation(dict(clause="formula", distance="Energy", input=ic), dict(what="energy distance differs from sqrt(2E|X-Y| - E|X-X'| - E|Y-Y'|)", X=X, Y=Y, value=d["Energy"], expected=t))


# ------------------------------------------------------------------ the run


def model_expr(X, Y, nb, hX, hY):
    return f"allD {nb} {fl_list(X)} {fl_list(Y)} {z_list(hX[0])} {fl_list(hX[1])} {z_list(hY[0])} {fl_list(hY[1])}"


def compare_model(ck, case, res):
    fam, X, Y, nb, d, hX, hY, icounts = case
    ck.corr_cases += 1
    mc = [list(map(int, res[i])) for i in range(4)]
    names = ["edge_counts(X)", "edge_counts(Y)", "uni_counts(X)", "uni_counts(Y)"]
    for nm, a, b in zip(names, mc, icounts):
        if a != list(b):
            ck.mismatch(f"bin counts {nm}", dict(X=X, Y=Y, num_bins=nb, family=fam, model=a, numpy=list(map(int, b))))
            return
    scale = max(1.0, max(abs(v) for v in X + Y))
    for k, name in enumerate(DISTS):
        if d.get(name) is None:
            continue
        mv = model_val(res[4 + k])
        ag = agree(name, d[name], mv, scale if name in TRANSPORT else 1.0)
        if ag is None:
            ck.near_ties += 1
            ck.count("js_sign_of_rounding_level_divergence_skipped")
            continue
        if not ag:
            ck.mismatch(f"{name} distance", dict(distance=name, X=X, Y=Y, num_bins=nb, family=fam, implementation=d[name], model=mv))
            return


def auto_bins_estimate(x):
    """Number of bins np.histogram(bins="auto") will allocate (min of FD and Sturges widths)."""
    x = np.asarray(x, dtype=float)
    ptp = float(x.max() - x.min())
    if ptp == 0.0:
        return 1
    st = ptp / (math.log2(x.size) + 1.0)
    q75, q25 = np.percentile(x, [75, 25])
    fd = 2.0 * float(q75 - q25) * x.size ** (-1.0 / 3.0)
    w = min(fd, st) if fd > 0 else st
    return math.ceil(ptp / w) if w > 0 else 1


def one_case(ck, fam, X, Y, nb):
    from frouros.detectors.data_drift.batch.distance_based.base import BaseDistanceBasedBins

    xa, ya = np.array(X, dtype=float), np.array(Y, dtype=float)
    skip = []
    if max(auto_bins_estimate(xa), auto_bins_estimate(ya)) > 5000:
        # NumPy's "auto" rule (Freedman-Diaconis) asks for ~1e16 bins when the IQR is a few ulps
        # and the range is not: MemoryError / minutes inside np.histogram.  The auto rule is an
        # oracle of this property, so JS / KL are not run on such samples (counted).
        ck.count("jskl_skipped_auto_bins_explosion")
        skip = PROB
        xa_h, ya_h = np.array([0.0, 1.0]), np.array([0.0, 1.0])
    else:
        xa_h, ya_h = xa, ya
    d = {name: (None if name in skip else impl_safe(ck, name, X, Y, nb, fam)) for name in DISTS}
    hX = np.histogram(xa_h, bins="auto")  # oracle input of the JS/KL model
    hY = np.histogram(ya_h, bins="auto")
    try:
        px, py = BaseDistanceBasedBins._calculate_bins_values(X_ref=xa, X=ya, num_bins=nb)
        ecx = [int(round(v * len(X))) for v in px]
        ecy = [int(round(v * len(Y))) for v in py]
    except Exception as e:  # noqa: BLE001
        ck.violation(dict(clause="raises", distance="bins", family=fam), dict(X=X, Y=Y, num_bins=nb, error=repr(e)))
        ecx = ecy = []
    rng_ = (min(min(X), min(Y)), max(max(X), max(Y)))
    ucx = np.histogram(xa, bins=nb, range=rng_)[0]
    ucy = np.histogram(ya, bins=nb, range=rng_)[0]
    hXl = ([int(c) for c in hX[0]], [float(e) for e in hX[1]])
    hYl = ([int(c) for c in hY[0]], [float(e) for e in hY[1]])
    if not skip:
        # the contract `valid_hist` assumed of the oracle by the JS / KL theorems
        for nm, (cs, es), n_ in (("reference", hXl, len(X)), ("test", hYl, len(Y))):
            S_ = X if nm == "reference" else Y
            ok = len(es) == len(cs) + 1 and len(cs) >= 1 and all(a < b for a, b in zip(es, es[1:])) and all(c >= 0 for c in cs) and sum(cs) == n_
            ok = ok and es[0] <= min(X if nm == "reference" else Y) and es[-1] >= max(X if nm == "reference" else Y)
            if not ok:
                # happens only when the sample range is a few ulps wide (NumPy's computed edges repeat):
                # the theorems' hypothesis does not cover such samples; model and code are still compared
                ck.count("oracle_contract_not_met_range_of_a_few_ulps")
                if (max(S_) - min(S_)) > 64 * math.ulp(max(abs(max(S_)), abs(min(S_)))):
                    ck.mismatch("oracle contract valid_hist (np.histogram auto)", dict(sample=nm, X=X, Y=Y, counts=cs, edges=es))
    return (fam, X, Y, nb, d, hXl, hYl, (ecx, ecy, [int(c) for c in ucx], [int(c) for c in ucy]))


def run(ck: Check):
    rng = ck.rng
    thorough = ck.tier == "thorough"
    ck.rule(
        "integer-valued samples as float64 / float32 / uint8 / int16 / int64 arrays (dtype independence of the six distances that do not go through NumPy's dtype-dependent auto-binning); sample pairs from 16 families (samples of > 10 000 observations in sorted / drifting order, Gaussian continuous, heavily tied on 2-10 values, values exactly on exactly-representable bin edges, "
        "values on NumPy's computed edges and their 1-ulp neighbours, disjoint / nested supports, both constant (equal / different), one constant, the same multiset replicated with different multiplicities, "
        "unequal sizes 1..60 (300 thorough)), num_bins in {2,3,5,10,17,64}; all 8 distances run through fit/compare; compared with the binary64 run of the "
        "Gallina model (bin counts exactly, distances 1e-9 rel, JS/energy on squares) and with textbook formulas computed in exact rational "
        "arithmetic for bin edges / CDF masses (skipped and counted when a value is within 1e-9 bin-widths / 8 ulps of an interior edge without being "
        "exactly on a representable one); axioms (>= 0, d(X,X) = 0, order independence, symmetry, upper bounds, affine scaling with a in "
        "{-3,-1,.5,2}, b in {-7,0,3}) checked on the implementation's outputs; non-trivial = non-constant pair with 0 < Hellinger < 1"
    )
    ncases = 3000 if thorough else 420
    cases = []
    # very long samples (> 10 000 observations) kept in a NON-random order: sorted, and drifting (the auto rule
    # must look at the whole sample, whatever its order)
    longs = []
    for k in range(2 if not thorough else 6):
        nlong = rng.choice([10500, 12000])
        base = [rng.gauss(0.0, 1.0) + (3.0 * j / nlong if k % 2 else 0.0) for j in range(nlong)]
        if k % 2 == 0:
            base.sort()
        other = [rng.gauss(0.5, 1.2) for _ in range(rng.choice([200, 400]))]
        longs.append(("long_ordered", base, other, rng.choice([5, 10])) if k % 4 < 2 else ("long_ordered", other, base, rng.choice([5, 10])))
    import numpy as _np

    # heavy-tailed long samples (own generator): a few far outliers make the "auto" rule ask for thousands of bins; the
    # distances are those of exactly these histograms
    _rs = _np.random.RandomState(20202)
    for k in range(1 if not thorough else 3):
        Xh = _rs.standard_t(2, size=20000).tolist()
        Yh = (_rs.standard_t(2, size=6000) * 1.3 + 0.2).tolist()
        nbx = len(_np.histogram_bin_edges(_np.array(Xh), bins="auto")) - 1
        ck.count("heavy_tail_auto_bins", nbx)
        longs.append(("long_heavy_tail", Xh, Yh, 10))
    for fam, X, Y, nb in longs:
        # JS / KL only, against the textbook value on the auto histograms of the WHOLE samples (no Coq run: the
        # histogram counts are an oracle input of the model anyway)
        cls = _classes()
        hX, hY = _np.histogram(_np.array(X), bins="auto"), _np.histogram(_np.array(Y), bins="auto")
        js, kl, near2, _, _ = textbook_prob(X, Y, nb, hX, hY)
        for name, exp in (("JS", js), ("KL", kl)):
            det = cls[name](num_bins=nb)
            det.fit(X=_np.array(X))
            v = float(det.compare(X=_np.array(Y))[0].distance)
            ck.case(dict(family=fam, n=len(X), m=len(Y), num_bins=nb, distance=name, value=v), nontrivial=True, key=repr((fam, name, X[:5], Y[:5], nb)))
            ck.count("family_" + fam)
            if near2 or math.isnan(exp):
                ck.near_ties += 1
                continue
            ok = (math.isinf(v) and math.isinf(exp)) or (close(v**2, exp**2, 1e-7, 1e-11) if name == "JS" else close(v, exp, 1e-7, 1e-10))
            if not ok:
                ck.violation(dict(clause="formula", distance=name, input="non-constant", family=fam),
                             dict(what=f"{name} on a sample of more than 10 000 observations differs from the value on the auto-binned histograms of the whole samples", n=len(X), m=len(Y), num_bins=nb, order="sorted / drifting", X_head=X[:6], Y_head=Y[:6], value=v, expected=exp))
    # the same integer-valued samples carried by other array dtypes (every value exactly representable in each):
    # the distances are functions of the VALUES (a narrow dtype must not be used for internal arithmetic)
    for k in range(6 if not thorough else 30):
        nb = rng.choice([2, 5, 10, 17])
        hi = rng.choice([3, 40, 250])
        Xi = _np.array([rng.randrange(0, hi) for _ in range(rng.choice([7, 30, 60]))])
        Yi = _np.array([rng.randrange(hi // 4, hi + hi // 4 + 1) for _ in range(rng.choice([len(Xi), 9, 45]))])
        Yi = _np.minimum(Yi, 255)
        base = {}
        for dt in (_np.float64, _np.float32, _np.uint8, _np.int16, _np.int64):
            for name, cls in _classes().items():
                if name in ("JS", "KL"):
                    continue  # NumPy's bins="auto" rule itself depends on the dtype (integer data: bin width >= 1): an oracle of the property
                try:
                    det = cls(num_bins=nb) if name in ("PSI", "Hellinger", "Bhattacharyya", "HI") else cls()
                    det.fit(X=Xi.astype(dt))
                    v = float(det.compare(X=Yi.astype(dt))[0].distance)
                except Exception as e:  # noqa: BLE001
                    ck.violation(dict(clause="raises", distance=name, dtype=dt.__name__), dict(what="fit/compare raised on integer-valued samples of this dtype", distance=name, dtype=dt.__name__, X=Xi.tolist(), Y=Yi.tolist(), num_bins=nb, error=repr(e)))
                    continue
                if dt is _np.float64:
                    base[name] = v
                    continue
                ck.count("dtype_runs")
                b0 = base.get(name)
                tol = 1e-9
                same = (math.isnan(v) and math.isnan(b0)) or (math.isinf(v) and math.isinf(b0) and v == b0) or (not math.isinf(v) and not math.isinf(b0) and abs(v - b0) <= tol * max(1.0, abs(b0)))
                if b0 is not None and not same:
                    ck.violation(dict(clause="dtype-independence", distance=name, dtype=dt.__name__), dict(what="the distance of the same integer values differs when the arrays have another dtype", distance=name, dtype=dt.__name__, value=v, as_float64=b0, X=Xi.tolist(), Y=Yi.tolist(), num_bins=nb))
        ck.case(dict(family="dtypes", n=len(Xi), m=len(Yi), num_bins=nb), nontrivial=True, key=repr(("dtypes", Xi.tolist(), Yi.tolist(), nb)))
    # num_bins assigned through the public setter after construction: compare must use the new value
    for k in range(4 if not thorough else 20):
        nb0, nb1 = rng.choice([(40, 4), (10, 3), (2, 17), (5, 9)])
        Xs = _np.array([rng.gauss(0, 1) for _ in range(rng.choice([20, 45]))])
        Ys = _np.array([rng.gauss(0.7, 1.3) for _ in range(rng.choice([15, 30]))])
        for name, cls in _classes().items():
            if name in ("EMD", "Energy"):
                continue
            try:
                d1 = cls(num_bins=nb0)
                d1.num_bins = nb1
                d1.fit(X=Xs)
                v1 = float(d1.compare(X=Ys)[0].distance)
                d2 = cls(num_bins=nb1)
                d2.fit(X=Xs)
                v2 = float(d2.compare(X=Ys)[0].distance)
            except Exception as e:  # noqa: BLE001
                ck.violation(dict(clause="raises", distance=name, scenario="num_bins-setter"), dict(distance=name, num_bins=(nb0, nb1), error=repr(e)))
                continue
            ck.count("num_bins_setter_runs")
            if not ((math.isinf(v1) and math.isinf(v2)) or (math.isnan(v1) and math.isnan(v2)) or abs(v1 - v2) <= 1e-12 * max(1.0, abs(v2))):
                ck.violation(dict(clause="num_bins-setter", distance=name), dict(what="after `detector.num_bins = k` the distance differs from that of a detector constructed with num_bins=k", distance=name, constructed_with=nb0, assigned=nb1, value=v1, expected=v2, X=Xs.tolist(), Y=Ys.tolist()))
        ck.case(dict(family="num_bins-setter", constructed_with=nb0, assigned=nb1), nontrivial=True, key=repr(("nbset", nb0, nb1, Xs.tolist()[:3])))
    for i in range(ncases):
        fam, X, Y, nb = gen_pair(rng, thorough and i % 10 == 0)
        c = one_case(ck, fam, X, Y, nb)
        d = c[4]
        h = d.get("Hellinger")
        nontriv = h is not None and 1e-9 < h < 1 - 1e-9 and input_class(X, Y) == "non-constant"
        ck.case(dict(family=fam, n=len(X), m=len(Y), num_bins=nb, X_head=X[:4], Y_head=Y[:4], distances={k: d[k] for k in DISTS}), nontrivial=nontriv, key=repr((X, Y, nb)))
        ck.count("family_" + fam)
        ck.count("num_bins_%d" % nb)
        ck.count("n_eq_m" if len(X) == len(Y) else "n_ne_m")
        ck.count("input_" + input_class(X, Y))
        if d.get("KL") is not None and math.isinf(d["KL"]):
            ck.count("kl_inf")
        check_axioms(ck, rng, fam, X, Y, nb, d, c[5], c[6])
        check_formulas(ck, fam, X, Y, nb, d, c[5], c[6])
        cases.append(c)
    # equal-SHAPED samples that differ by less than the usual closeness tolerances (own generator: independent of the
    # draws above): tiny magnitudes, and unit-scale spreads carried by a large offset. Different samples are different.
    import random as _random

    prng = _random.Random(101010)
    for k in range(8 if not thorough else 40):
        n = prng.choice([12, 25, 40])
        nb = prng.choice([3, 5, 10])
        if k % 2 == 0:
            sc = prng.choice([1e-9, 3e-10])
            X = [sc * prng.uniform(0, 1) for _ in range(n)]
            Y = [sc * prng.uniform(0.3, 1.6) for _ in range(n)]
        else:
            off = prng.choice([1e6, 1e7])
            X = [off + prng.uniform(0, 1) for _ in range(n)]
            Y = [off + prng.uniform(0.4, 2.0) for _ in range(n)]
        c = one_case(ck, "near_equal", X, Y, nb)
        d = c[4]
        ck.case(dict(family="near_equal", n=n, m=n, num_bins=nb, X_head=X[:4], Y_head=Y[:4], distances={k_: d[k_] for k_ in DISTS}), nontrivial=True, key=repr((X, Y, nb)))
        ck.count("family_near_equal")
        check_axioms(ck, prng, "near_equal", X, Y, nb, d, c[5], c[6])
        check_formulas(ck, "near_equal", X, Y, nb, d, c[5], c[6])
        cases.append(c)
    # call sequences on ONE detector object (deterministic): fit, compare, fit AGAIN on another reference of the same size
    # (and, separately, after reset()), compare: the second distance is the one a new detector fitted on the second
    # reference gives; a second compare against another test sample likewise (nothing derived from an earlier reference
    # or test sample may survive)
    R1 = [0.1 * i for i in range(30)]
    R2 = [3.0 + 0.05 * ((7 * i) % 30) for i in range(30)]
    T1 = [0.4 + 0.11 * i for i in range(25)]
    T2 = [2.0 + 0.07 * ((11 * i) % 25) for i in range(25)]
    for name in DISTS:
        cls = _classes()[name]
        mk = (lambda: cls()) if name in TRANSPORT else (lambda: cls(num_bins=6))
        for how in ("refit", "reset-then-fit", "second-compare"):
            try:
                det = mk()
                det.fit(X=np.array(R1))
                det.compare(X=np.array(T1))
                if how == "reset-then-fit":
                    det.reset()
                if how != "second-compare":
                    det.fit(X=np.array(R2))
                    got = float(det.compare(X=np.array(T1))[0].distance)
                    exp = impl(name, R2, T1, 6)
                else:
                    got = float(det.compare(X=np.array(T2))[0].distance)
                    exp = impl(name, R1, T2, 6)
            except Exception as e:  # noqa: BLE001
                ck.violation(dict(clause="raises", distance=name, family="call-sequence", how=how), dict(distance=name, how=how, error=repr(e)))
                continue
            ck.case(dict(family="call-sequence", distance=name, how=how), nontrivial=True, key=repr(("callseq", name, how)))
            ck.count("call_sequence_cases")
            if not (got == exp or (math.isnan(got) and math.isnan(exp))):
                ck.violation(dict(clause="function-of-samples", distance=name, family="call-sequence", how=how),
                             dict(what="the distance reported after an earlier fit / compare on the same detector object differs from the one a new detector gives for the same reference and test sample", distance=name, how=how, got=got, expected=exp,
                                  first_reference="0.1 i, i < 30", second_reference=R2[:5], test=T1[:5] if how != "second-compare" else T2[:5]))
    res = coq_eval("C10", HDR, [model_expr(c[1], c[2], c[3], c[5], c[6]) for c in cases], shard=40 if thorough else 20)
    for c, r in zip(cases, res):
        compare_model(ck, c, r)


def main(tier, seed):
    ck = Check("C10", tier, seed)
    ck.proof = check_props("C10")
    ck.assumptions = [
        "theorems are over R on the Gallina model; the binary64 run of the same model is compared with the code on every case (tolerance 1e-9; ln is the Gallina fln of Base/FloatA.v)",
        "np.histogram(bins='auto') (counts and edges of each sample) is an oracle input to the JS/KL model with the contract valid_hist (len(edges) = len(counts)+1, strictly increasing edges, counts >= 0 summing to n > 0), re-checked on every case; the auto rule itself is not modelled; samples for which it asks for > 5000 bins (IQR of a few ulps) are not run through JS/KL",
        "np.sum is modelled as a left-to-right sum (NumPy sums pairwise); NaN inputs and empty samples are outside the model",
        "EMD / energy distance are SciPy calls: the model is the reference definition (_cdf_distance), the comparison validates the delegation",
    ]
    run(ck)
    return ck.finish()


def replay(obj):
    """Re-run one recorded failing input against the current code."""
    sig = obj.get("signature", {})
    X, Y = obj.get("X"), obj.get("Y")
    nb = obj.get("num_bins", 10)
    if X is None or Y is None:
        print("replay: no sample pair recorded in this file (correspondence / proof failure)")
        return 2
    ck = Check("C10", "replay", 0)
    ck.known = []
    ck.proof = dict(ok=True, theorems=[], axioms=[], log="")
    name = sig.get("distance") or obj.get("distance")
    d = {n_: impl_safe(ck, n_, X, Y, nb, "replay") for n_ in DISTS}
    print("distances:", d)
    hX = np.histogram(np.array(X, dtype=float), bins="auto")
    hY = np.histogram(np.array(Y, dtype=float), bins="auto")
    hX = ([int(c) for c in hX[0]], list(map(float, hX[1])))
    hY = ([int(c) for c in hY[0]], list(map(float, hY[1])))
    check_axioms(ck, ck.rng, "replay", X, Y, nb, d, hX, hY)
    check_formulas(ck, "replay", X, Y, nb, d, hX, hY)
    hit = [s for s, _ in ck.violations if s.get("clause") == sig.get("clause") and (name is None or s.get("distance") == name)]
    for s, _ in ck.violations:
        print("VIOLATION (replay)", s)
    print("reproduced" if hit else "not reproduced")
    return 1 if hit else 0
