"""C08 — BOCD maintains the exact Bayesian run-length posterior."""
from __future__ import annotations

import math

import numpy as np

from detectors import BY_NAME, corr_compare, run_impl, run_models
from lib import Check, check_props, gen_stream_real

DET = BY_NAME["BOCD"]


def npdf(x, mu, var):
    return math.exp(-((x - mu) ** 2) / (2 * var)) / math.sqrt(2 * math.pi * var)


def reference(cfg, xs):
    """Adams-MacKay posterior in LINEAR space, parameters recomputed non-incrementally from the data
    of each run (conjugate Gaussian, known variance).  Rows are renormalised at every step (the
    posterior is invariant under rescaling of the joint)."""
    mu0, v0, s2, H = cfg["prior_mean"], cfg["prior_var"], cfg["data_var"], cfg["hazard"]

    def post(run):
        prec = 1 / v0 + len(run) / s2
        mu = (mu0 / v0 + sum(run) / s2) / prec
        return mu, prec

    P = [1.0]  # P(r_0 = 0) = 1
    rows = []
    for t in range(1, len(xs) + 1):
        x = xs[t - 1]
        pis = []
        for k in range(t):  # run length k before seeing x: data xs[t-1-k : t-1]
            mu, prec = post(xs[t - 1 - k : t - 1])
            pis.append(npdf(x, mu, 1 / prec + s2))
        growth = [P[k] * pis[k] * (1 - H) for k in range(t)]
        cp = sum(P[k] * pis[k] * H for k in range(t))
        joint = [cp] + growth
        Z = sum(joint)
        P = [j / Z for j in joint]
        mus, vars_ = [], []
        for k in range(t + 1):
            mu, prec = post(xs[t - k : t])
            mus.append(mu)
            vars_.append(1 / prec + s2)
        rows.append((list(P), sum(p * m for p, m in zip(P, mus)), sum(p * v for p, v in zip(P, vars_))))
    return rows


def reference_hp(cfg, xs):
    """The same posterior in 50-digit decimal arithmetic: the arbiter when the binary64 reference and the
    implementation disagree (extreme hazards make the float reference lose digits)."""
    from decimal import Decimal as D, getcontext

    getcontext().prec = 50
    mu0, v0, s2, H = (D(cfg[k]) for k in ("prior_mean", "prior_var", "data_var", "hazard"))
    X = [D(x) for x in xs]
    pi = D("3.14159265358979323846264338327950288419716939937510582")

    def post(run):
        prec = 1 / v0 + len(run) / s2
        return (mu0 / v0 + sum(run, D(0)) / s2) / prec, prec

    def pdf(x, mu, var):
        return (-(x - mu) ** 2 / (2 * var)).exp() / (2 * pi * var).sqrt()

    P = [D(1)]
    rows = []
    for t in range(1, len(X) + 1):
        x = X[t - 1]
        pis = []
        for k in range(t):
            mu, prec = post(X[t - 1 - k : t - 1])
            pis.append(pdf(x, mu, 1 / prec + s2))
        joint = [sum(P[k] * pis[k] * H for k in range(t))] + [P[k] * pis[k] * (1 - H) for k in range(t)]
        Z = sum(joint)
        P = [j / Z for j in joint]
        mus, vars_ = [], []
        for k in range(t + 1):
            mu, prec = post(X[t - k : t])
            mus.append(mu)
            vars_.append(1 / prec + s2)
        rows.append(([float(p) for p in P], float(sum(p * m for p, m in zip(P, mus))), float(sum(p * v for p, v in zip(P, vars_)))))
    return rows


def gen_cfg(rng):
    return dict(
        prior_mean=rng.choice([0.0, 1.0, -3.0, 10.0]),
        prior_var=rng.choice([0.1, 1.0, 10.0]),
        data_var=rng.choice([0.05, 0.5, 1.0, 4.0]),
        hazard=rng.choice([1e-6, 0.01, 0.1, 0.5, 0.999]),
        min_num_instances=rng.choice([1, 2, 5, 10, 30]),
    )


def run(ck: Check):
    rng = ck.rng
    thorough = ck.tier == "thorough"
    ck.rule(
        "integer-typed model parameters; config.min_num_instances re-assigned in mid-stream; data_var assigned through its setter before use; level shifts of 40-100 sigma (50-digit reference); last values bisected to a 1e-7 log-probability margin between the two most probable run lengths; Gaussian streams with 0-2 mean shifts, constants, ramps (t <= 60 quick / 150 thorough), priors / variances / hazards on a grid incl. extreme hazards (1e-6, .999); at every step the "
        "run-length row is compared with the linear-space Adams-MacKay posterior recomputed non-incrementally (tolerance 1e-8 abs on probabilities), normalisation, the posterior-weighted "
        "prediction, and drift vs (arg max != t) unless the two largest probabilities are within 1e-9; one run of 1300 steps (2500 thorough) without reset checked at every step for row normalisation and the exact identity P(r_t=0)=hazard; also pairs of detectors built from ONE configuration object and updated alternately (one reset in mid-stream), each checked against the posterior of its own stream; non-trivial = the most probable run length is shorter than t at some step"
    )
    cases, impl = [], []
    for _ in range(50 if not thorough else 400):
        cfg = gen_cfg(rng)
        n = rng.choice([5, 15, 30, 60] if not thorough else [5, 30, 60, 150])
        kind = rng.choice(["shift", "shift", "noise", "const", "ramp"])
        if kind == "shift":
            k = rng.randrange(1, n)
            a, b_ = rng.choice([(0, 4), (1, -2), (0, 0.5), (10, 11)])
            sd = math.sqrt(cfg["data_var"])
            xs = [rng.gauss(a if i < k else b_, sd) for i in range(n)]
        elif kind == "noise":
            xs = [rng.gauss(cfg["prior_mean"], math.sqrt(cfg["data_var"])) for _ in range(n)]
        elif kind == "const":
            xs = [rng.choice([0.0, 1.5, -2.0])] * n
        else:
            xs = [0.1 * i + rng.gauss(0, 0.2) for i in range(n)]
        out, exc, d = run_impl(DET, cfg, xs)
        if exc is not None:
            ck.violation(dict(clause="raises"), dict(config=cfg, stream=xs[: len(out) + 1], error=repr(exc)))
            continue
        ok, short = check_trace(ck, cfg, xs, out)
        ck.case(dict(config=cfg, n=n, kind=kind, head=xs[:4]), nontrivial=short, key=repr((cfg, xs)))
        if ok and n <= 30:
            cases.append((DET, cfg, xs, None))
            impl.append(out)
    # (a) data_var (the model's only public setter) assigned after the model object was constructed;
    # (b) level shifts of 40-100 standard deviations (every predictive density underflows in linear space);
    # (c) a last value placed by bisection so that a shorter run length beats the full one by ~1e-7 in log-probability
    from frouros.detectors.concept_drift import BOCD as _BOCD, BOCDConfig as _BOCDConfig
    from frouros.detectors.concept_drift.streaming.change_detection.bocd import GaussianUnknownMean as _GUM

    def run_obj(det, xs):
        out = []
        for v in xs:
            det.update(value=v)
            out.append(DET.observe(det))
        return out

    for _ in range(6 if not thorough else 40):
        cfg = gen_cfg(rng)
        cfg["min_num_instances"] = rng.choice([1, 3])
        n = rng.choice([8, 14])
        sd = math.sqrt(cfg["data_var"])
        xs = [rng.gauss(cfg["prior_mean"] if i < n // 2 else cfg["prior_mean"] + 3 * sd, sd) for i in range(n)]
        m = _GUM(prior_mean=cfg["prior_mean"], prior_var=cfg["prior_var"], data_var=cfg["data_var"] * 3)
        m.data_var = cfg["data_var"]  # the only parameter with a public setter
        try:
            out = run_obj(_BOCD(config=_BOCDConfig(model=m, hazard=cfg["hazard"], min_num_instances=cfg["min_num_instances"])), xs)
        except Exception as e:  # noqa: BLE001
            ck.violation(dict(clause="raises", scenario="setters"), dict(config=cfg, stream=xs, error=repr(e), scenario="model parameters assigned through the setters before use"))
            continue
        ok, short = check_trace(ck, cfg, xs, out, extra=dict(scenario="GaussianUnknownMean built with another data_var; data_var then assigned through its public setter before the detector was built"))
        ck.case(dict(config=cfg, n=n, kind="model-setters"), nontrivial=short, key=repr(("set", cfg, xs)))
        ck.count("model_setter_cases")
    for _ in range(5 if not thorough else 30):
        cfg = gen_cfg(rng)
        cfg["hazard"] = rng.choice([0.01, 0.1])
        cfg["min_num_instances"] = rng.choice([1, 5])
        sd = math.sqrt(cfg["data_var"])
        n = rng.choice([12, 24])
        jump = rng.choice([40, 80, 100]) * sd * rng.choice([1, -1])
        k = rng.randrange(n // 2, n - 2)
        xs = [rng.gauss(cfg["prior_mean"], sd) for _ in range(k)] + [rng.gauss(cfg["prior_mean"] + jump, sd) for _ in range(n - k)]
        out, exc, _ = run_impl(DET, cfg, xs)
        if exc is not None:
            ck.violation(dict(clause="raises", scenario="extreme-jump"), dict(config=cfg, stream=xs[: len(out) + 1], error=repr(exc)))
            continue
        ok, short = check_trace(ck, cfg, xs, out, extra=dict(scenario="level shift of 40-100 standard deviations"))
        ck.case(dict(config=cfg, n=n, kind="extreme-jump", jump=jump), nontrivial=short, key=repr(("jump", cfg, xs)))
        ck.count("extreme_jump_cases")
    for _ in range(6 if not thorough else 40):
        cfg = dict(prior_mean=0.0, prior_var=rng.choice([1.0, 4.0]), data_var=rng.choice([0.5, 1.0]), hazard=rng.choice([0.05, 0.1, 0.3]), min_num_instances=1)
        n = rng.choice([8, 12, 16])
        prefix = [rng.uniform(-0.5, 0.5) for _ in range(n)]

        def margin(x):
            P = reference(cfg, prefix + [x])[-1][0]
            return math.log(max(P[:-1])) - math.log(P[-1])

        target = rng.choice([1e-7, -1e-7, 3e-6])
        lo, hi = 0.0, 12.0
        if not (margin(lo) < target < margin(hi)):
            continue
        for _ in range(200):
            mid = 0.5 * (lo + hi)
            if margin(mid) < target:
                lo = mid
            else:
                hi = mid
        xs = prefix + [hi if target > 0 else lo]
        out, exc, _ = run_impl(DET, cfg, xs)
        if exc is not None:
            continue
        ok, short = check_trace(ck, cfg, xs, out, extra=dict(scenario="last value bisected so that the best shorter run length and the full run length differ by about 1e-7 in log-probability", log_margin=margin(xs[-1])))
        ck.case(dict(config=cfg, n=n + 1, kind="near-margin", target=target), nontrivial=short, key=repr(("margin", cfg, xs)))
        ck.count("near_margin_cases")
    # (d) integer-typed parameters (Python ints and NumPy integers where floats are usual), and
    # (e) config.min_num_instances assigned through its setter in mid-stream: the verdict rule follows the new value
    for _ in range(6 if not thorough else 30):
        ity = rng.choice([int, np.int64, np.int32])
        cfg = dict(prior_mean=ity(rng.choice([0, 1, -3])), prior_var=ity(rng.choice([1, 2, 9])), data_var=ity(rng.choice([1, 4, 2])), hazard=rng.choice([0.01, 0.1]), min_num_instances=rng.choice([1, 4]))
        n = rng.choice([8, 16])
        sd = math.sqrt(float(cfg["data_var"]))
        xs = [rng.gauss(float(cfg["prior_mean"]) + (0 if i < n // 2 else 3 * sd), sd) for i in range(n)]
        try:
            m = _GUM(prior_mean=cfg["prior_mean"], prior_var=cfg["prior_var"], data_var=cfg["data_var"])
            out = run_obj(_BOCD(config=_BOCDConfig(model=m, hazard=cfg["hazard"], min_num_instances=cfg["min_num_instances"])), xs)
        except Exception as e:  # noqa: BLE001
            ck.violation(dict(clause="raises", scenario="integer-parameters"), dict(config={k: repr(v) for k, v in cfg.items()}, stream=xs, error=repr(e)))
            continue
        fcfg = {k: (float(v) if k != "min_num_instances" else int(v)) for k, v in cfg.items()}
        ok, short = check_trace(ck, fcfg, xs, out, extra=dict(scenario=f"prior_mean / prior_var / data_var given as {ity.__name__}"))
        ck.case(dict(config=fcfg, n=n, kind="integer-parameters", type=ity.__name__), nontrivial=short, key=repr(("intpar", fcfg, xs, ity.__name__)))
        ck.count("integer_parameter_cases")
    for _ in range(5 if not thorough else 25):
        cfg = gen_cfg(rng)
        cfg["hazard"] = rng.choice([0.05, 0.1, 0.3])
        old_min, new_min = rng.choice([(20, 3), (12, 4), (30, 1)])  # lowered: the rule is unambiguous from the assignment on
        cfg["min_num_instances"] = old_min
        sd = math.sqrt(cfg["data_var"])
        n = 24
        k = rng.randrange(3, 8)
        xs = [rng.gauss(cfg["prior_mean"], sd) for _ in range(6)] + [rng.gauss(cfg["prior_mean"] + 5 * sd, sd) for _ in range(n - 6)]
        d = DET.make(cfg)
        out = []
        for i, v in enumerate(xs):
            if i == k:
                d.config.min_num_instances = new_min
            d.update(value=v)
            out.append(DET.observe(d))
        ok1, s1 = check_trace(ck, dict(cfg, min_num_instances=old_min), xs[:k], out[:k], extra=dict(scenario="before config.min_num_instances is re-assigned"))
        # after the assignment the rule uses the new value; rows / predictions are unaffected by it
        ref_cfg = dict(cfg, min_num_instances=new_min)
        ok2, s2 = check_trace(ck, ref_cfg, xs, [o if i >= k else (False,) + tuple(o[1:]) for i, o in enumerate(out)], extra=dict(scenario=f"config.min_num_instances assigned {old_min} -> {new_min} before update {k + 1}: steps from there on follow the new value", setter_at=k), verdict_from=k)
        ck.case(dict(config=cfg, kind="min-setter", old=old_min, new=new_min, at=k), nontrivial=s1 or s2, key=repr(("minset", cfg, xs, k, new_min)))
        ck.count("min_setter_cases")
    # two detectors built from ONE configuration object, updated alternately (one of them reset in mid-stream):
    # each must keep the exact posterior of ITS OWN stream
    for _ in range(8 if not thorough else 60):
        cfg = gen_cfg(rng)
        n = rng.choice([6, 12, 20])
        sd = math.sqrt(cfg["data_var"])
        xa = [rng.gauss(0 if i < n // 2 else 3, sd) for i in range(n)]
        xb = [rng.gauss(5, sd) for i in range(n)]
        from frouros.detectors.concept_drift import BOCD, BOCDConfig
        from frouros.detectors.concept_drift.streaming.change_detection.bocd import GaussianUnknownMean

        conf = BOCDConfig(model=GaussianUnknownMean(prior_mean=cfg["prior_mean"], prior_var=cfg["prior_var"], data_var=cfg["data_var"]), hazard=cfg["hazard"], min_num_instances=cfg["min_num_instances"])
        da, db = BOCD(config=conf), BOCD(config=conf)
        oa, ob = [], []
        kreset = rng.choice([None, n // 3])
        ya = []
        for i in range(n):
            if kreset is not None and i == kreset:
                da.reset()
                ya = []
                oa = []
            da.update(value=xa[i])
            ya.append(xa[i])
            oa.append(DET.observe(da))
            db.update(value=xb[i])
            ob.append(DET.observe(db))
        oka, _ = check_trace(ck, cfg, ya, oa, extra=dict(scenario="two detectors sharing one config object, alternating updates", other_stream=xb))
        okb, _ = check_trace(ck, cfg, xb, ob, extra=dict(scenario="two detectors sharing one config object, alternating updates", other_stream=xa))
        ck.case(dict(config=cfg, n=n, kind="shared-config-pair", reset_at=kreset), nontrivial=True, key=repr((cfg, xa, xb, kreset)))
        ck.count("shared_config_pairs")
    # long runs without reset: two exact invariants of the posterior that need no O(t^2) reference -
    # every row sums to one and, for a constant hazard H, P(r_t = 0 | x_1..t) = H exactly
    # (J_t(0) = H * evidence_t); the un-normalised message underflows naive linear-domain arithmetic after ~700 steps
    from scipy.special import logsumexp as _lse

    for n in ([1300] if not thorough else [1300, 2500]):
        cfg = dict(prior_mean=0.0, prior_var=1.0, data_var=1.0, hazard=rng.choice([0.01, 0.05]), min_num_instances=30)
        xs = [rng.gauss(0, 1) for _ in range(n - 150)] + [rng.gauss(4, 1) for _ in range(150)]
        d = DET.make(cfg)
        bad = None
        for t, v in enumerate(xs, 1):
            d.update(value=v)
            row = d.log_r[t, : t + 1]
            if not (abs(float(_lse(row))) <= 1e-9):
                bad = dict(clause="normalisation", what="run-length row does not sum to one", step=t, log_total=float(_lse(row)))
                break
            p0 = math.exp(float(row[0]))
            if not (abs(p0 - cfg["hazard"]) <= 1e-9 * cfg["hazard"] + 1e-15):
                bad = dict(clause="posterior", what="P(r_t = 0 | data) differs from the hazard (exact identity of the Adams-MacKay posterior with a constant hazard)", step=t, p0=p0, hazard=cfg["hazard"])
                break
        ck.case(dict(config=cfg, n=n, kind="long-run"), nontrivial=True, key=repr(("long", cfg, n, xs[:3])))
        ck.count("long_run_steps", n)
        if bad:
            ck.violation(dict(clause=bad["clause"], regime="long-run"), dict(config=cfg, stream_head=xs[:5], stream_len=n, seed_note="stream = N(0,1) then N(4,1) for the last 150 values, drawn from the check's generator", **bad))
    # (own generator: independent of the draws above)
    import random as _random
    import numpy as _np

    prng = _random.Random(80808)
    # the hazard handed over as a NumPy scalar of reduced precision: log H and log(1-H) are then rounded separately, yet
    # every row must still sum to one (the posterior is normalised by its own total, not by an assumed evidence)
    for hz in ([_np.float32(0.1), _np.float16(0.05)] if not thorough else [_np.float32(0.1), _np.float16(0.05), _np.float32(0.003), _np.float16(0.3), _np.float32(0.7)]):
        cfg = dict(prior_mean=0.5, prior_var=2.0, data_var=1.5, hazard=hz, min_num_instances=5)
        xs = [prng.gauss(0, 1) for _ in range(25)] + [prng.gauss(3, 1) for _ in range(25)]
        try:
            d = _BOCD(config=_BOCDConfig(model=_GUM(prior_mean=0.5, prior_var=2.0, data_var=1.5), hazard=hz, min_num_instances=5))
            worst, at = 0.0, 0
            for t, v in enumerate(xs, 1):
                d.update(value=v)
                tot = abs(float(_lse(d.log_r[t, : t + 1])))
                if not (tot <= worst):
                    worst, at = tot, t
        except Exception as e:  # noqa: BLE001
            ck.violation(dict(clause="raises", scenario="typed-hazard"), dict(hazard=repr(hz), error=repr(e), stream=xs))
            continue
        ck.case(dict(kind="typed-hazard", hazard=repr(hz), worst_log_total=worst), nontrivial=True, key=repr(("typed-hazard", repr(hz), xs[:3])))
        ck.count("typed_hazard_cases")
        if not (worst <= 1e-9):
            ck.violation(dict(clause="normalisation", regime="typed-hazard"), dict(what="run-length row does not sum to one when the hazard is a reduced-precision NumPy scalar", hazard=repr(hz), step=at, log_total=worst, stream=xs))
    # the configured model replaced / re-parameterised through the public attributes, THEN reset(): the detector must
    # continue as a detector newly built from the configuration as it is now
    for k in range(4 if not thorough else 16):
        pm, pv, dv = prng.choice([0.0, 1.0]), prng.choice([1.0, 4.0]), prng.choice([0.5, 1.0])
        hz = prng.choice([0.05, 0.2])
        xs0 = [prng.gauss(pm, 1) for _ in range(prng.choice([0, 7]))]
        xs = [prng.gauss(pm + 2, 1) for _ in range(12)] + [prng.gauss(pm - 2, 1) for _ in range(12)]
        try:
            conf = _BOCDConfig(model=_GUM(prior_mean=pm, prior_var=pv, data_var=dv), hazard=hz, min_num_instances=3)
            d = _BOCD(config=conf)
            for v in xs0:
                d.update(value=v)
            if k % 2 == 0:
                ncfg = dict(prior_mean=pm + 1.5, prior_var=pv * 2, data_var=dv * 3, hazard=hz, min_num_instances=3)
                d.config.model = _GUM(prior_mean=ncfg["prior_mean"], prior_var=ncfg["prior_var"], data_var=ncfg["data_var"])
                how = "config.model replaced"
            else:
                ncfg = dict(prior_mean=pm, prior_var=pv, data_var=dv * 4, hazard=hz, min_num_instances=3)
                d.config.model.data_var = ncfg["data_var"]
                how = "config.model.data_var assigned"
            d.reset()
            out = run_obj(d, xs)
        except Exception as e:  # noqa: BLE001
            ck.violation(dict(clause="raises", scenario="model-then-reset"), dict(error=repr(e), stream=xs))
            continue
        ok, short = check_trace(ck, ncfg, xs, out, extra=dict(scenario=f"{how} after {len(xs0)} updates, then reset(): the posterior must be the one of the configuration as it is now", updates_before=len(xs0)))
        ck.case(dict(config=ncfg, kind="model-then-reset", how=how), nontrivial=short, key=repr(("mtr", ncfg, xs, k)))
        ck.count("model_then_reset_cases")
    # a detector copied in mid-stream (copy.deepcopy / a pickle round trip, what checkpointing does): the COPY, fed the rest
    # of the stream, must hold the exact posterior of the whole stream, and the original must be unaffected by it
    import copy as _copy
    import pickle as _pickle

    for k in range(4 if not thorough else 16):
        pm, pv, dv = prng.choice([0.0, 2.0]), prng.choice([1.0, 9.0]), prng.choice([0.5, 2.0])
        ccfg = dict(prior_mean=pm, prior_var=pv, data_var=dv, hazard=prng.choice([0.02, 0.2]), min_num_instances=prng.choice([1, 4]))
        pre = [prng.gauss(pm, 1) for _ in range(prng.choice([1, 6, 13]))]
        suf = [prng.gauss(pm + 3, 1) for _ in range(10)]
        how = "copy.deepcopy" if k % 2 == 0 else "pickle round trip"
        try:
            d = _BOCD(config=_BOCDConfig(model=_GUM(prior_mean=pm, prior_var=pv, data_var=dv), hazard=ccfg["hazard"], min_num_instances=ccfg["min_num_instances"]))
            o_pre = run_obj(d, pre)
            c = _copy.deepcopy(d) if k % 2 == 0 else _pickle.loads(_pickle.dumps(d))
            o_copy = run_obj(c, suf)
            o_orig = run_obj(d, suf)
        except Exception as e:  # noqa: BLE001
            ck.violation(dict(clause="raises", scenario="copied-in-mid-stream", how=how), dict(what=f"a detector obtained by {how} after {len(pre)} updates cannot be updated further (or the copy disturbed the original)", config=ccfg, prefix=pre, suffix=suf, error=repr(e)))
            continue
        ok1, short = check_trace(ck, ccfg, pre + suf, o_pre + o_copy, extra=dict(scenario=f"{how} after {len(pre)} updates; the copy is fed the rest of the stream", updates_before=len(pre)))
        ok2, _ = check_trace(ck, ccfg, pre + suf, o_pre + o_orig, extra=dict(scenario=f"original detector after a {how} of it was taken and updated", updates_before=len(pre)))
        ck.case(dict(config=ccfg, kind="copied-in-mid-stream", how=how, prefix_len=len(pre)), nontrivial=True, key=repr(("copy", ccfg, pre, suf, k)))
        ck.count("copied_in_mid_stream_cases")
    # scale invariance at the ends of the binary64 range: data and prior mean multiplied by S = 2^510 (2^-500: the posterior precisions n/data_var still fit), the two
    # variances by S^2 - every quantity stays finite and normal, and the posterior is that of the stream in unit scale
    # (checked against the reference computed in unit scale)
    for k in range(2 if not thorough else 6):
        pm, pv, dv = prng.choice([0.0, 0.5]), prng.choice([1.0, 4.0]), prng.choice([0.5, 1.0])
        ucfg = dict(prior_mean=pm, prior_var=pv, data_var=dv, hazard=prng.choice([0.05, 0.2]), min_num_instances=1)
        xs = [prng.gauss(pm, 0.5) for _ in range(6)] + [prng.gauss(pm + 12, 0.5) for _ in range(4)]
        for S in (2.0 ** 510, 2.0 ** -500):
            try:
                with np.errstate(all="ignore"):
                    d = _BOCD(config=_BOCDConfig(model=_GUM(prior_mean=pm * S, prior_var=pv * S * S, data_var=dv * S * S), hazard=ucfg["hazard"], min_num_instances=1))
                    out = run_obj(d, [x * S for x in xs])
            except Exception as e:  # noqa: BLE001
                ck.violation(dict(clause="raises", scenario="extreme-scale"), dict(config=ucfg, scale=repr(S), stream_unit_scale=xs, error=repr(e)))
                continue
            # back to unit scale: predicted mean / S, predicted variance / S^2, the rows as they are
            out1 = [(o[0], o[1], o[2], [o[3][0] / S, o[3][1] / S / S] + list(o[3][2:])) for o in out]
            ok, short = check_trace(ck, ucfg, xs, out1, extra=dict(scenario=f"stream, prior mean scaled by S = {S!r}, variances by S^2 (all finite): the posterior must be the one of the unit-scale stream", scale=repr(S)))
            ck.case(dict(config=ucfg, kind="extreme-scale", scale=repr(S)), nontrivial=short, key=repr(("scale", ucfg, xs, S)))
            ck.count("extreme_scale_cases")
    # two detectors built WITHOUT a model (the documented default GaussianUnknownMean()): re-parameterising the model of one
    # through its public setter must not reach the other; and a hazard far below the spacing of doubles near 1 (1e-20: valid,
    # in (0, 1)) is used as given - the reference in 50-digit arithmetic decides (deterministic)
    dcfg = dict(prior_mean=0.0, prior_var=1.0, data_var=1.0, hazard=0.1, min_num_instances=2)   # the documented default model: prior N(0, 1), data variance 1
    for order in ("tuned-before-the-other-is-built", "tuned-then-the-other-is-reset"):
        try:
            if order == "tuned-before-the-other-is-built":
                ca = _BOCDConfig()
                ca.model.data_var = 25.0
                _BOCD(config=ca)
                db = _BOCD(config=_BOCDConfig(hazard=0.1, min_num_instances=2))
            else:
                da, db = _BOCD(config=_BOCDConfig(hazard=0.1, min_num_instances=2)), _BOCD(config=_BOCDConfig(hazard=0.1, min_num_instances=2))
                da.config.model.data_var = 25.0
                da.reset()
                db.update(value=0.5)
                db.reset()
            xs = [0.2, -0.1, 0.3, 0.0, 2.6, 2.4, 2.7, 2.5]
            out = run_obj(db, xs)
            ok, short = check_trace(ck, dcfg, xs, out, extra=dict(scenario=f"a detector built with the default model ({order}: ANOTHER default-model configuration had config.model.data_var assigned): the posterior must be the one of the documented default model"))
            ck.case(dict(config=dcfg, kind="default-model-isolation", order=order), nontrivial=True, key=repr(("dflt-model", order)))
            ck.count("default_model_isolation_cases")
        except Exception as e:  # noqa: BLE001
            ck.violation(dict(clause="raises", scenario="default-model-isolation"), dict(error=repr(e), order=order))
    for hz in (1e-20, 1e-30):
        hcfg = dict(prior_mean=0.0, prior_var=1.0, data_var=1.0, hazard=hz, min_num_instances=1)
        # a level shift whose evidence ratio is of the order of 1 / hazard: the most probable run length flips within the tail
        xs = [0.1, -0.2, 0.0, 0.15, -0.1, 0.05] + [9.6 if hz == 1e-20 else 11.8] * 6
        try:
            d = _BOCD(config=_BOCDConfig(model=_GUM(prior_mean=0.0, prior_var=1.0, data_var=1.0), hazard=hz, min_num_instances=1))
            out = run_obj(d, xs)
        except Exception as e:  # noqa: BLE001
            ck.violation(dict(clause="raises", scenario="tiny-hazard"), dict(config=hcfg, stream=xs, error=repr(e)))
            continue
        try:
            refh = reference_hp(hcfg, xs)
        except Exception as e:  # noqa: BLE001
            ck.notes.append(f"tiny-hazard reference failed: {e!r}")
            continue
        ck.case(dict(config=hcfg, kind="tiny-hazard"), nontrivial=True, key=repr(("tinyhz", hz)))
        ck.count("tiny_hazard_cases")
        for t, (o, (P, pm, pv)) in enumerate(zip(out, refh)):
            row = [math.exp(v) for v in o[3][2:]]
            if len(row) != len(P) or max(abs(a_ - float(b_)) for a_, b_ in zip(row, P)) > 1e-8:
                ck.violation(dict(clause="posterior", regime="tiny-hazard"), dict(what="with a hazard far below 2.2e-16 (valid: in (0, 1)) the run-length row differs from the exact posterior", config=hcfg, stream=xs[: t + 1], step=t + 1, row=row, exact=[float(x) for x in P]))
                break
    models = run_models("C08", cases, shard=8)
    corr_compare(ck, "C08", cases, impl, models, rtol=1e-7, atol=1e-9)


def check_trace(ck, cfg, xs, out, extra=None, verdict_from=0):
    """One implementation trace against the non-incremental reference. Returns (ok, some step had argmax != t)."""
    extra = extra or {}
    if True:
        try:
            ref = reference(cfg, xs)
        except (ZeroDivisionError, OverflowError):  # every predictive density underflowed in binary64 (extreme jumps)
            ref = reference_hp(cfg, xs)
            ck.count("high_precision_arbitrations")
        # fast binary64 reference first; if it disagrees with the implementation anywhere, the 50-digit
        # reference decides (the float reference loses digits for extreme hazards, the code does not)
        def agrees(rf):
            for o, (P, pm, pv) in zip(out, rf):
                row = [math.exp(v) for v in o[3][2:]]
                if len(row) != len(P) or not (max(abs(a - b_) for a, b_ in zip(row, P)) <= 1e-8):
                    return False
                if not (abs(o[3][0] - pm) <= 1e-7 * max(1.0, abs(pm)) and abs(o[3][1] - pv) <= 1e-7 * max(1.0, pv)):
                    return False
            return True

        if not agrees(ref):
            ref = reference_hp(cfg, xs)
            ck.count("high_precision_arbitrations")
        short = False
        ok = True
        for t, (o, (P, pm, pv)) in enumerate(zip(out, ref)):
            row = [math.exp(v) for v in o[3][2:]]
            detail = dict(config=cfg, stream=xs[: t + 1], step=t, **extra)
            if not (abs(sum(row) - 1) <= 1e-9):
                ck.violation(dict(clause="normalisation"), dict(what="run-length row does not sum to one", total=sum(row), **detail))
                ok = False
                break
            if len(row) != len(P) or not (max(abs(a - b_) for a, b_ in zip(row, P)) <= 1e-8):
                ck.violation(dict(clause="posterior"), dict(what="run-length distribution differs from the exact Adams-MacKay posterior", impl=row[:8], exact=P[:8], **detail))
                ok = False
                break
            sc = max(1.0, abs(pm))
            if not (abs(o[3][0] - pm) <= 1e-7 * sc and abs(o[3][1] - pv) <= 1e-7 * max(1.0, pv)):  # NaN / missing prediction counts as a difference
                ck.violation(dict(clause="prediction"), dict(what="predicted mean/variance are not the posterior-weighted mixtures", predicted_mean=o[3][0], predicted_var=o[3][1], exact_mean=pm, exact_var=pv, **detail))
                ok = False
                break
            top = sorted(P, reverse=True)
            am = max(range(len(P)), key=lambda k: (P[k], -k))
            short |= am != t + 1
            if t < verdict_from:
                continue
            if t + 1 >= cfg["min_num_instances"]:
                if len(top) > 1 and top[0] - top[1] <= 1e-9:
                    ck.near_ties += 1
                    continue
                if o[0] != (am != t + 1):
                    ck.violation(dict(clause="verdict"), dict(what="drift differs from (most probable run length < t)", drift=o[0], argmax=am, **detail))
                    ok = False
                    break
            elif o[0]:
                ck.violation(dict(clause="warmup"), dict(what="drift before min_num_instances", **detail))
                ok = False
                break
        return ok, short


def main(tier, seed):
    ck = Check("C08", tier, seed)
    ck.proof = check_props("C08")
    ck.assumptions = [
        "log-space = linear-space theorems are over R with exp/ln of the Reals library; the binary64 model uses Gallina exp/ln (~1 ulp) and is compared with tolerance",
        "the Gaussian log-density is SciPy's norm.logpdf in the code; modelled by its closed form",
    ]
    run(ck)
    return ck.finish()
