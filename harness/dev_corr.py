"""Development aid: run the model-vs-implementation correspondence for chosen detectors."""
import sys, os, random, collections
sys.path.insert(0, os.path.dirname(os.path.abspath(__file__)))
sys.path.insert(0, "/repo")
import warnings; warnings.filterwarnings("ignore")
import numpy as np; np.seterr(all="ignore")
from detectors import ALL, BY_NAME, run_impl, run_kswin, run_models, compare_traces, gen_ops, KSWINDet

names = sys.argv[1].split(",") if len(sys.argv) > 1 else [d.name for d in ALL]
N = int(sys.argv[2]) if len(sys.argv) > 2 else 30
rng = random.Random(1)
cases = []; impls = []
for nm in names:
    det = BY_NAME[nm]
    for _ in range(N):
        cfg = det.gen_cfg(rng)
        n = rng.choice([5, 12, 30, 60, 120])
        if nm == "BOCD": n = min(n, 40)
        ops = gen_ops(rng, det, cfg, n)
        if isinstance(det, KSWINDet):
            out, exc, samples = run_kswin(det, cfg, ops)
        else:
            out, exc, _ = run_impl(det, cfg, ops); samples = None
        if exc is not None:
            print("IMPL RAISED", nm, cfg, type(exc).__name__, exc, "at op", len(out))
            ops = ops[:len(out)]
            if samples is not None: samples = samples[:len([o for o in ops if o != "R"])]
        cases.append((det, cfg, ops, samples)); impls.append(out)
models = run_models("dev", cases)
bad = collections.Counter()
for (det, cfg, ops, _), im, mo in zip(cases, impls, models):
    d = compare_traces(im, mo)
    if d is not None:
        bad[det.name] += 1
        if bad[det.name] <= 3:
            i = d[0]
            print("MISMATCH", det.name, cfg, "step", d, "\n   ops", ops[:i+1][-12:], "\n   impl", im[i] if i < len(im) else None, "\n   model", mo[i] if i < len(mo) else None)
print("cases", len(cases), "mismatching", dict(bad))
