"""C06 — KSWIN and STEPD apply their documented window tests."""
from __future__ import annotations

import math
from fractions import Fraction

import numpy as np

from c11 import exact_p, ks_H
from detectors import BY_NAME, ChoiceRecorder, corr_compare, run_impl, run_kswin, run_models
from lib import Check, check_props, gen_stream01, gen_stream_real

KS, SP = BY_NAME["KSWIN"], BY_NAME["STEPD"]


def d_bounds(old, recent, n):
    """Bounds on H = n*n*D(S, recent) valid for EVERY sub-sample S of size n of `old` (m = n)."""
    pts = sorted(set(old) | set(recent))
    lo_best, hi_best = 0, 0
    N = len(old)
    for x in pts:
        le = sum(1 for v in old if v <= x)
        gtc = N - le
        fs_lo, fs_hi = max(0, n - gtc), min(n, le)  # count of S <= x lies in [fs_lo, fs_hi]
        fr = sum(1 for v in recent if v <= x)  # out of n
        # |cS*n - cR*n| with cS in [fs_lo, fs_hi]
        lo = 0 if fs_lo <= fr <= fs_hi else min(abs(fs_lo - fr), abs(fs_hi - fr))
        hi = max(abs(fs_lo - fr), abs(fs_hi - fr))
        lo_best = max(lo_best, lo * n)
        hi_best = max(hi_best, hi * n)
    return lo_best, hi_best


def kswin_stream(rng, cfg, n):
    kind = rng.choice(["disjoint", "same", "const", "random", "random", "bigint"])
    mn = cfg["min_num_instances"]
    if kind == "bigint":
        # integers beyond 2^53 (distinct as integers, equal after rounding to binary64); disjoint ranges after the shift
        k = rng.randrange(mn, max(mn + 1, n))
        return [2**60 + (rng.randrange(0, 50) if i < k else 1000 + rng.randrange(0, 50)) for i in range(n)]
    if kind == "disjoint":  # old and recent ranges disjoint after the shift: every sub-sample is rejected
        k = rng.randrange(mn, max(mn + 1, n))
        return [rng.uniform(0, 1) if i < k else rng.uniform(5, 6) for i in range(n)]
    if kind == "same":
        vals = [float(i % 3) for i in range(n)]
        return vals
    if kind == "const":
        return [2.5] * n
    return gen_stream_real(rng, n)


def run(ck: Check):
    rng = ck.rng
    thorough = ck.tier == "thorough"
    ck.rule(
        "KSWIN: streams built so that all sub-samples agree (disjoint ranges after a shift, identical multisets, constants) plus random ones; at every full-window step the window is "
        "compared with the last min_num_instances inputs, the verdict with the exact KS p-value of the RECORDED draw, and with the bounds valid for every sub-sample "
        "(p(D_lo) <= alpha forces an alarm, p(D_hi) > alpha forbids one); same-seed runs must agree (seed 0 included); alpha set exactly to an attainable draw-independent p-value must alarm and one ulp below must not; a third of the KSWIN and STEPD histories start with an earlier concept followed by reset(), the clauses being checked on everything after it. STEPD: all 0/1 streams of length 10 (12 thorough) for min in {1,2,3} and random regime-shift streams; verdict vs "
        "the one-sided p-value of the continuity-corrected two-proportion statistic recomputed from the raw stream; non-trivial = some alarm"
    )
    cases, impl = [], []
    # ------------------------------------------------------------------ KSWIN
    for _ in range(60 if not thorough else 500):
        cfg = KS.gen_cfg(rng)
        mn, nt = cfg["min_num_instances"], cfg["num_test_instances"]
        n = mn + rng.choice([0, 1, 5, 20, 40])
        xs = kswin_stream(rng, cfg, n)
        if rng.random() < 0.15:
            cfg["seed"] = 0  # a legal seed like any other
        # a third of the histories start with an earlier concept followed by reset(): the clauses are then
        # checked on everything after the reset (window = last min_num_instances values SINCE the reset)
        pre = []
        if rng.random() < 0.35:
            pre = kswin_stream(rng, cfg, rng.choice([1, mn - 1, mn, mn + 3, 2 * mn + 5]))
        full_ops = (pre + ["R"] if pre else []) + xs
        wins = []
        out, exc, samples = run_kswin(KS, cfg, full_ops, probe=lambda d: list(d.window), probes=wins)
        if exc is not None:
            ck.violation(dict(clause="raises", detector="KSWIN", error=type(exc).__name__), dict(config=cfg, stream=full_ops[: len(out) + 1], error=repr(exc)))
            continue
        full_out, full_samples = out, samples
        if pre:
            out, wins, samples = out[len(pre) + 1 :], wins[len(pre) + 1 :], samples[len(pre) :]
            ck.count("kswin_histories_with_reset")
        forced = 0
        ok = True
        for t, (o, w, smp) in enumerate(zip(out, wins, samples)):
            exp_w = xs[max(0, t + 1 - mn) : t + 1]
            if [float(v) for v in w] != [float(v) for v in exp_w]:
                ck.violation(dict(clause="window", detector="KSWIN"), dict(what="window is not the last min_num_instances values", config=cfg, stream=xs[: t + 1], window=w))
                ok = False
                break
            if len(w) < mn:
                if o[0]:
                    ck.violation(dict(clause="warmup", detector="KSWIN"), dict(config=cfg, stream=xs[: t + 1]))
                    ok = False
                    break
                continue
            old, recent = w[: mn - nt], w[mn - nt :]
            # the recorded draw must be a sub-sample of the old part
            if smp is None or sorted(smp) != sorted(smp) or any(smp.count(v) > old.count(v) for v in set(smp)) or len(smp) != nt:
                ck.violation(dict(clause="sample", detector="KSWIN"), dict(what="draw is not a size-num_test_instances sub-sample (without replacement) of the older values", config=cfg, stream=xs[: t + 1], sample=smp))
                ok = False
                break
            p = exact_p(nt, nt, ks_H(smp, recent))
            a = Fraction(float(cfg["alpha"]))
            if abs(float(p) - float(a)) > 1e-9 * float(a) and o[0] != (p <= a):
                ck.violation(dict(clause="kswin-rule", detector="KSWIN"), dict(what="drift differs from (exact KS p-value of the drawn sample <= alpha)", config=cfg, stream=xs[: t + 1], sample=smp, p=float(p), drift=o[0]))
                ok = False
                break
            lo, hi = d_bounds(old, recent, nt)
            p_lo, p_hi = exact_p(nt, nt, lo), exact_p(nt, nt, hi)  # p is antitone in H: p_hi <= p(S) <= p_lo
            if p_lo <= a * (1 - Fraction(1, 10**9)):
                forced += 1
                if not o[0]:
                    ck.violation(dict(clause="kswin-forced", detector="KSWIN", must="alarm"), dict(what="every sub-sample is rejected but no drift reported", config=cfg, stream=xs[: t + 1]))
                    ok = False
                    break
            elif p_hi > a * (1 + Fraction(1, 10**9)):
                forced += 1
                if o[0]:
                    ck.violation(dict(clause="kswin-forced", detector="KSWIN", must="silent"), dict(what="no sub-sample is rejected but drift reported", config=cfg, stream=xs[: t + 1]))
                    ok = False
                    break
        ck.case(dict(detector="KSWIN", config=cfg, n=n, head=xs[:5], forced_steps=forced), nontrivial=any(o[0] for o in out), key=repr((cfg, xs)))
        ck.count("kswin_forced_steps", forced)
        ck.count("kswin_full_steps", sum(1 for w in wins if len(w) >= mn))
        if not ok:
            continue
        # same seed => same run
        out2, _, samples2 = run_kswin(KS, cfg, full_ops)
        if out2 != full_out or samples2 != full_samples:
            ck.violation(dict(clause="kswin-seed", detector="KSWIN", seed_zero=cfg["seed"] == 0), dict(what="two runs from the same seed differ", config=cfg, stream=full_ops))
            continue
        if mn <= 20 and not any(isinstance(v, int) and abs(v) > 2**53 for v in full_ops if v != "R"):
            cases.append((KS, cfg, full_ops, full_samples))
            impl.append(full_out)
    # KSWIN, alpha EXACTLY an attainable p-value ("<= alpha"): min_num_instances = 2 * num_test_instances, so the
    # draw is a permutation of the whole older half and the p-value does not depend on it
    from scipy.stats import ks_2samp

    nexact = 0
    for nt in (3, 4, 5, 8):
        for shift in range(1, nt):
            old = [float(i) for i in range(nt)]
            recent = [float(i + shift) + 0.5 for i in range(nt)]
            p = float(ks_2samp(data1=old, data2=recent, alternative="two-sided", method="auto").pvalue)
            if not 0 < p < 1:
                continue
            for alpha, must in ((p, True), (math.nextafter(p, 0.0), False)):
                cfg = dict(alpha=alpha, seed=rng.randrange(1000), min_num_instances=2 * nt, num_test_instances=nt)
                out, exc, _ = run_kswin(KS, cfg, old + recent)
                ck.evals += 1
                nexact += 1
                if exc is not None or not out:
                    continue
                if out[-1][0] != must:
                    ck.violation(dict(clause="kswin-rule", detector="KSWIN", tie="exact"), dict(what="alpha equal to the (draw-independent) KS p-value must alarm; one ulp below it must not", config=cfg, stream=old + recent, p=p, drift=out[-1][0], expected=must))
    ck.count("kswin_exact_alpha_cases", nexact)
    ck.nontrivial.add(f"kswin-exact-alpha-{nexact}")
    # ------------------------------------------------------------------ STEPD
    from scipy.stats import norm

    def stepd_monitor(cfg, xs, out):
        mn = cfg["min_num_instances"]
        for t, o in enumerate(out):
            n = t + 1
            if n < 2 * mn:
                exp = (False, False)
            else:
                win, old = xs[n - mn : n], xs[: n - mn]
                n_w, n_o = len(win), len(old)
                c_w, c_o = sum(win), sum(old)
                p_hat = (c_w + c_o) / n
                inv = 1 / n_o + 1 / n_w
                den = math.sqrt(p_hat * (1 - p_hat) * inv)
                num = abs(c_o / n_o - c_w / n_w) - 0.5 * inv
                T = -math.inf if den == 0 else num / den
                p = float(norm.sf(T))
                if any(abs(p - al) <= 1e-9 * al for al in (cfg["alpha_d"], cfg["alpha_w"])):
                    ck.near_ties += 1
                    return True
                exp = (p < cfg["alpha_d"], (not p < cfg["alpha_d"]) and p < cfg["alpha_w"])
            if (o[0], o[1]) != exp:
                ck.violation(
                    dict(clause="stepd-rule", detector="STEPD"),
                    dict(what="verdict differs from the one-sided p-value of the two-proportion z statistic", config=cfg, stream=xs[: t + 1], step=t, verdict=(o[0], o[1]), expected=exp),
                )
                return False
        return True

    L = 10 if not thorough else 12
    for mn in (1, 2, 3):
        cfg = dict(alpha_d=rng.choice([0.003, 0.05, 0.2]), alpha_w=0.3, min_num_instances=mn)
        for i in range(2**L):
            xs = [(i >> (L - 1 - k)) & 1 for k in range(L)]
            out, exc, _ = run_impl(SP, cfg, xs)
            ck.evals += 1
            if any(o[0] or o[1] for o in out):
                ck.nontrivial.add(f"stepd{mn}-{i}")
            if not stepd_monitor(cfg, xs, out):
                break
            if i % 97 == 0:
                cases.append((SP, cfg, xs, None))
                impl.append(out)
    for _ in range(60 if not thorough else 500):
        cfg = SP.gen_cfg(rng)
        xs = gen_stream01(rng, rng.choice([20, 80, 200]))
        pre = []
        if rng.random() < 0.4:
            # an earlier concept whose length is NOT a multiple of the window, then reset(): the accuracy
            # window must restart empty and in phase
            mn = cfg["min_num_instances"]
            pre = gen_stream01(rng, rng.choice([1, mn + 1, 2 * mn + 1, 3 * mn + mn // 2 + 1, 75]))
        ops = (pre + ["R"] if pre else []) + xs
        out, exc, _ = run_impl(SP, cfg, ops)
        if exc is not None:
            ck.violation(dict(clause="raises", detector="STEPD", error=type(exc).__name__), dict(config=cfg, ops=ops[: len(out) + 1], error=repr(exc)))
            continue
        post = out[len(pre) + 1 :] if pre else out
        ck.case(dict(detector="STEPD", config=cfg, n=len(xs), prefix_then_reset=len(pre), head=xs[:10]), nontrivial=any(o[0] or o[1] for o in post), key=repr((cfg, ops)))
        if stepd_monitor(cfg, xs, post) and len(ops) <= 120:
            cases.append((SP, cfg, ops, None))
            impl.append(out)
    # STEPD on 0/1 streams handed over as narrow NumPy integers: counts pass 127 / 255 (correct predictions dominate)
    import numpy as _np

    for ty in (_np.uint8, _np.int8, _np.int64):
        for _ in range(2 if not thorough else 8):
            cfg = SP.gen_cfg(rng)
            n = rng.choice([330, 420])
            k = rng.randrange(n // 2, n - 40)
            xs = [int(rng.random() < (0.95 if i < k else 0.7)) for i in range(n)]
            out, exc, _ = run_impl(SP, cfg, [ty(v) for v in xs])
            if exc is not None:
                ck.violation(dict(clause="raises", detector="STEPD", error=type(exc).__name__, input_type=ty.__name__), dict(config=cfg, input_type=ty.__name__, n=n, error=repr(exc), head=xs[:10]))
                continue
            ck.case(dict(detector="STEPD", config=cfg, n=n, input_type=ty.__name__), nontrivial=any(o[0] or o[1] for o in out), key=repr((cfg, xs, ty.__name__)))
            ck.count("stepd_typed_streams")
            stepd_monitor(cfg, xs, out)
    # STEPD with a tiny accepted alpha_d and statistics between 8.3 and 8.8 standard deviations (no draw from the
    # generator): the one-sided p-value there is 1e-17 .. 1e-18 -- representable, but below the spacing of doubles near 1, so
    # it must come from the survival function itself (1 - cdf gives 0). Searched over the counts, then laid out as a stream.
    found = 0
    mn = 30
    for n_o in range(60, 260, 7):
        for c_w in range(0, 12):
            c_o = n_o  # every earlier prediction correct
            n = n_o + mn
            p_hat = (c_w + c_o) / n
            inv = 1 / n_o + 1 / mn
            T = (abs(c_o / n_o - c_w / mn) - 0.5 * inv) / math.sqrt(p_hat * (1 - p_hat) * inv)
            pv = float(norm.sf(T))
            if not (8.3 < T < 8.8):
                continue
            for alpha_d in (pv / 7.0, pv * 5.0):
                cfg = dict(alpha_d=alpha_d, alpha_w=max(alpha_d * 1e3, 1e-12), min_num_instances=mn)
                xs = [1] * n_o + [1] * c_w + [0] * (mn - c_w)
                out, exc, _ = run_impl(SP, cfg, xs)
                if exc is not None:
                    ck.violation(dict(clause="raises", detector="STEPD", error=type(exc).__name__, regime="tiny-alpha"), dict(config=cfg, n=len(xs), error=repr(exc)))
                    continue
                ck.case(dict(detector="STEPD", config=cfg, n=len(xs), kind="tiny-alpha", statistic=T, p_value=pv), nontrivial=True, key=repr(("tiny-alpha", cfg, n_o, c_w)))
                ck.count("stepd_tiny_alpha_cases")
                stepd_monitor(cfg, xs, out)
                found += 1
            break
        if found >= (6 if not thorough else 24):
            break
    # KSWIN on integers a double cannot tell apart (2^60 + i): the window holds the VALUES it was given, and two samples that
    # are fully separated as integers must alarm (every sub-sample is rejected: D = 1) - deterministic
    from frouros.detectors.concept_drift import KSWIN as _KSW, KSWINConfig as _KSWC

    for n_, nt_ in ((30, 10), (40, 20)):
        vals = [2**60 + i for i in range(n_)]
        try:
            d = _KSW(config=_KSWC(alpha=0.01, seed=3, min_num_instances=n_, num_test_instances=nt_))
            flags = []
            for v in vals:
                d.update(value=v)
                flags.append(bool(d.drift))
            win = [int(x) for x in d.window]
            err = None
        except Exception as e:  # noqa: BLE001
            win, flags, err = None, [], repr(e)
        ck.case(dict(detector="KSWIN", kind="integers-beyond-2^53", n=n_, num_test_instances=nt_), nontrivial=True, key=repr(("bigint", n_, nt_)))
        ck.count("kswin_big_integer_cases")
        if err is not None or win != vals:
            ck.violation(dict(clause="kswin-window", detector="KSWIN", regime="integers-beyond-2^53"), dict(what="the window does not hold the last min_num_instances values as they were given (integers beyond 2^53)", n=n_, error=err, window_head=None if win is None else win[:4], expected_head=vals[:4]))
        elif not flags[-1]:
            ck.violation(dict(clause="kswin-rule", detector="KSWIN", regime="integers-beyond-2^53"), dict(what="the newest values exceed every older value (as integers): every sub-sample gives D = 1, p far below alpha - KSWIN must alarm at the step the window is full", n=n_, num_test_instances=nt_, alpha=0.01, stream="2^60 + i, i < n"))
    models = run_models("C06", cases, shard=30)
    corr_compare(ck, "C06", cases, impl, models)


def main(tier, seed):
    ck = Check("C06", tier, seed)
    ck.proof = check_props("C06")
    ck.assumptions = [
        "KSWIN: the random draw is an oracle input of the model (recorded from numpy.random.choice); the forced-verdict clause uses bounds proved valid for every sub-sample",
        "STEPD: norm.sf is an oracle assumed strictly decreasing; the model compares the statistic with norm.isf(alpha)",
    ]
    run(ck)
    return ck.finish()
