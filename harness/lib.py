"""Shared machinery for the frouros verification checks.

* building / re-checking the Coq development (proof obligations),
* evaluating the executable Gallina models on generated cases (`coq_eval`),
* comparing model and implementation observables,
* known-findings matching, VIOLATION / KNOWN-FINDING reporting, evidence files.

Nothing here is a proof; the proofs are in /verif/coq.  This file is the
correspondence check and the search for failing inputs.
"""
from __future__ import annotations

import hashlib
import json
import math
import os
import random
import re
import subprocess
import sys
import time
from concurrent.futures import ThreadPoolExecutor

VERIF = os.path.dirname(os.path.dirname(os.path.abspath(__file__)))
COQ = os.path.join(VERIF, "coq")
BUILD = os.path.join(VERIF, "build")
# where evidence/ and replays/ are written: /verif itself, except for mutant runs (scripts/seed_eval.py)
OUT = os.environ.get("VERIF_OUT", VERIF)
REPO = os.environ.get("FROUROS_REPO", "/repo")
COQ_W = "-notation-overridden,-inexact-float,-deprecated-hint-without-locality,-deprecated-instance-without-locality"

# --------------------------------------------------------------------------- floats -> Coq


def fl(x) -> str:
    """Exact Coq literal of a Python float (hexadecimal, parsed without rounding)."""
    x = float(x)
    if math.isnan(x):
        return "nan"
    if math.isinf(x):
        return "infinity" if x > 0 else "neg_infinity"
    h = x.hex()
    return f"({h})%float" if h.startswith("-") else h + "%float"


def fl_list(xs) -> str:
    return "[" + "; ".join(fl(x) for x in xs) + "]"


def z(n) -> str:
    n = int(n)
    return f"({n})" if n < 0 else str(n)


def z_list(xs) -> str:
    return "[" + "; ".join(z(x) for x in xs) + "]"


def b(v) -> str:
    return "true" if v else "false"


# --------------------------------------------------------------------------- Coq output parser

_TOK = re.compile(
    r"\s*(?:(?P<num>-?(?:\d+\.?\d*(?:e[+-]?\d+)?))|(?P<id>[A-Za-z_][A-Za-z_0-9'.]*)|(?P<str>\"(?:[^\"]|\"\")*\")|(?P<p>[\[\]();,]))"
)


def _tokens(s: str):
    pos = 0
    s = s.strip()
    out = []
    while pos < len(s):
        if s[pos] == "%":  # scope annotation such as %Z, %float
            m = re.match(r"%[A-Za-z_]+", s[pos:])
            pos += m.end()
            continue
        m = _TOK.match(s, pos)
        if not m:
            raise ValueError(f"cannot tokenise Coq output at {s[pos:pos+40]!r}")
        pos = m.end()
        if m.group("num") is not None:
            t = m.group("num")
            out.append(("num", float(t) if any(c in t for c in ".e") else int(t)))
        elif m.group("id") is not None:
            out.append(("id", m.group("id")))
        elif m.group("str") is not None:
            out.append(("str", m.group("str")[1:-1].replace('""', '"')))
        else:
            out.append(("p", m.group("p")))
    return out


_CONST = {
    "true": True,
    "false": False,
    "None": None,
    "infinity": math.inf,
    "neg_infinity": -math.inf,
    "nan": math.nan,
    "tt": (),
}


class Ctor(tuple):
    """A constructor application: Ctor((name, arg1, ...))."""

    @property
    def name(self):
        return self[0]

    @property
    def args(self):
        return tuple(self[1:])

    def __repr__(self):
        return "Ctor" + tuple.__repr__(self)


def _parse_atom(toks, i):
    k, v = toks[i]
    if k == "num" or k == "str":
        return v, i + 1
    if k == "id":
        if v in _CONST:
            return _CONST[v], i + 1
        return Ctor((v,)), i + 1
    if v == "[":
        items = []
        i += 1
        if toks[i] == ("p", "]"):
            return items, i + 1
        while True:
            e, i = _parse_app(toks, i)
            items.append(e)
            if toks[i] == ("p", ";"):
                i += 1
                continue
            if toks[i] == ("p", "]"):
                return items, i + 1
            raise ValueError(f"bad list at token {i}: {toks[i]}")
    if v == "(":
        items = []
        i += 1
        while True:
            e, i = _parse_app(toks, i)
            items.append(e)
            if toks[i] == ("p", ","):
                i += 1
                continue
            if toks[i] == ("p", ")"):
                return (items[0] if len(items) == 1 else tuple(items)), i + 1
            raise ValueError(f"bad tuple at token {i}: {toks[i]}")
    raise ValueError(f"unexpected token {toks[i]}")


def _parse_app(toks, i):
    head, i = _parse_atom(toks, i)
    if isinstance(head, Ctor) and len(head) == 1:
        args = []
        while i < len(toks) and not (toks[i][0] == "p" and toks[i][1] in "];,)"):
            a, i = _parse_atom(toks, i)
            args.append(a)
        if args:
            if head.name == "Some":
                return ("Some", args[0]), i
            return Ctor((head.name, *args)), i
    return head, i


def parse_coq(s: str):
    toks = _tokens(s)
    v, i = _parse_app(toks, 0)
    if i != len(toks):
        raise ValueError(f"trailing tokens in Coq output: {toks[i:i+5]}")
    return v


def split_evals(out: str):
    """Split coqc stdout into the results of successive Eval commands."""
    res = []
    cur = None
    for line in out.splitlines():
        if line.startswith("     = "):
            if cur is not None:
                res.append(cur)
            cur = [line[7:]]
        elif line.startswith("     : "):
            if cur is not None:
                res.append(cur)
                cur = None
            # skip type lines (possibly continued)
        elif cur is not None:
            cur.append(line)
    if cur is not None:
        res.append(cur)
    return ["\n".join(c) for c in res]


# --------------------------------------------------------------------------- running Coq


def sh(cmd, cwd=None, timeout=3000, env=None):
    p = subprocess.run(cmd, cwd=cwd, shell=isinstance(cmd, str), capture_output=True, text=True, timeout=timeout, env=env)
    return p.returncode, p.stdout, p.stderr


def make_coq(targets=None, timeout=3000, jobs=16):
    """(Re)build the Coq development; returns (ok, log)."""
    if not os.path.exists(os.path.join(COQ, "Makefile")) or os.path.getmtime(os.path.join(COQ, "Makefile")) < os.path.getmtime(
        os.path.join(COQ, "_CoqProject")
    ):
        rc, o, e = sh("coq_makefile -f _CoqProject -o Makefile", cwd=COQ)
        if rc != 0:
            return False, o + e
    tg = " ".join(targets) if targets else ""
    rc, o, e = sh(f"timeout {timeout} make -j{jobs} {tg}", cwd=COQ, timeout=timeout + 30)
    return rc == 0, (o + e)


def check_props(pid: str):
    """Re-compile Props/<pid>.v (the property theorems) and collect Print Assumptions output.

    Returns dict(ok, theorems=[names], axioms=[names], log)."""
    src = os.path.join(COQ, "Props", f"{pid}.v")
    if not os.path.exists(src):
        return dict(ok=False, theorems=[], axioms=[], log=f"missing {src}")
    ok, log = make_coq()
    if not ok:
        return dict(ok=False, theorems=_theorem_names(src), axioms=[], log=log[-4000:], failed=_failed_file(log))
    rc, o, e = sh(f"timeout 600 coqc -Q . FV -w {COQ_W} Props/{pid}.v", cwd=COQ, timeout=700)
    axioms = sorted(set(_axioms(o)))
    res = dict(ok=(rc == 0), theorems=_theorem_names(src), axioms=axioms, log=(o + e)[-4000:], failed=f"Props/{pid}.v" if rc else None)
    tie = gen_tie(pid)
    if tie is not None:
        res["source_tie"] = {k: tie.get(k) for k in ("ok", "files", "units", "untranslated", "failed", "oracles")}
        res["theorems"] = res["theorems"] + tie["theorems"]
        res["axioms"] = sorted(set(res["axioms"]) | set(tie["axioms"]))
        if not tie["ok"]:
            res["ok"] = False
            res["failed"] = res["failed"] or tie["failed"]
            res["log"] = (res["log"] + "\n--- source tie (py2coq) ---\n" + tie["log"])[-6000:]
    return res


def gen_tie(pid: str):
    """Second tie to the code: translate the listed methods of /repo's CURRENT source to Gallina (harness/py2coq.py),
    compile the result, and compile coq/Gen/Eq*.v (generated definition = hand-written model, for every number
    system; property theorems re-stated over the generated definitions) against it.  None when the property has no
    translated part."""
    import shutil
    from gen_units import EQ, translate

    files = EQ.get(pid)
    if not files:
        return None
    d = os.path.join(BUILD, f"gen_{pid}_{os.getpid()}")
    os.makedirs(d, exist_ok=True)
    out = dict(ok=True, files=files, theorems=[], axioms=[], log="", failed=None, untranslated={}, units=0)
    try:
        flags = f"-Q {COQ} FV -Q . FVG -w {COQ_W}"
        FORBIDDEN = r"(?<![A-Za-z_0-9'])(Admitted|admit|Axiom|Axioms|Parameter|Parameters|Conjecture|Variable|Hypothesis|native_compute|Unset)(?![A-Za-z_0-9'])"
        imports = set()
        for fn in files:
            for m in re.finditer(r"From FVG Require Import ([^.]*)\.", open(os.path.join(COQ, "Gen", fn)).read()):
                imports |= set(m.group(1).split())
        errors, out["oracles"] = {}, []
        # which generated modules the equivalence files import: GSrc (methods of stateful objects, py2coq) and / or GFn
        # (pure static functions, fn2coq)
        gens = []
        if "GSrc" in imports or "GFn" not in imports:
            gens.append(("GSrc.v", "py2coq", translate))
        if "GFn" in imports:
            from gen_units import translate_fns

            gens.append(("GFn.v", "fn2coq", lambda repo: translate_fns(repo, pid)[:2]))
        for gname, tool, trans in gens:
            try:
                text, errs = trans(REPO)
            except Exception as e:  # noqa: BLE001  (fail-closed: a source the translator cannot even parse)
                out.update(ok=False, failed=f"{tool} translation", log=repr(e))
                return out
            errors.update(errs)
            out["units"] += text.count("\nDefinition ") - (text.count("\nDefinition g_") if gname == "GFn.v" else 0)
            mctx = re.search(r"Context \{A : Arith\}(.*)\.\n", text)
            out["oracles"] += re.findall(r"\((\w+) :", mctx.group(1)) if mctx else []
            if re.search(FORBIDDEN, re.sub(r"\(\*.*?\*\)", "", text, flags=re.S)):
                out.update(ok=False, failed=f"generated {gname} contains forbidden vernacular", log=text[:2000])
                return out
            with open(os.path.join(d, gname), "w") as f:
                f.write(text)
            rc, o, e = sh(f"timeout 300 coqc {flags} {gname}", cwd=d, timeout=330)
            if rc != 0:
                out.update(ok=False, failed=f"{gname} (generated from the source) does not type-check" + (f"; untranslated: {errors}" if errors else ""), log=(o + e)[-3000:])
                return out
        out["untranslated"] = errors
        def one(fn):
            shutil.copy(os.path.join(COQ, "Gen", fn), os.path.join(d, fn))
            rc, o, e = sh(f"timeout 900 coqc {flags} {fn}", cwd=d, timeout=930)
            return fn, rc, o, e

        # compile in waves: a file goes once every Eq*.v it imports (`From FVG Require Import ...`) is compiled
        def deps(fn):
            txt = open(os.path.join(COQ, "Gen", fn)).read()
            imp = set()
            for m in re.finditer(r"From FVG Require Import ([^.]*)\.", txt):
                imp |= {w + ".v" for w in m.group(1).split() if w not in ("GSrc", "GFn")}
            return imp
        need = {fn: deps(fn) for fn in files}
        missing = sorted({x for v in need.values() for x in v} - set(files))
        if missing:
            out.update(ok=False, failed=f"gen_units.EQ lists {files} but they import {missing}", log="")
            return out
        results, done, todo = [], set(), list(files)
        while todo:
            wave = [fn for fn in todo if need[fn] <= done]
            if not wave:
                break
            with ThreadPoolExecutor(max_workers=4) as ex:
                rs = list(ex.map(one, wave))
            results += rs
            done |= {fn for fn, rc, _, _ in rs if rc == 0}
            todo = [fn for fn in todo if fn not in wave]
        for fn, rc, o, e in results:
            names = [n for n in _theorem_names(os.path.join(d, fn))]
            out["theorems"] += [f"Gen.{fn[:-2]}.{n}" for n in names]
            out["axioms"] += _axioms(o)
            if rc != 0 and out["ok"]:
                m = re.findall(r'File "\./([^"]+)", line (\d+)', o + e)
                where = f"Gen/{m[-1][0]}:{m[-1][1]}" if m else f"Gen/{fn}"
                lemma = _lemma_at(os.path.join(d, fn), int(m[-1][1])) if m else None
                out.update(ok=False, failed=f"{where}" + (f" ({lemma})" if lemma else "") + " -- generated definition no longer equals the model" + (f"; untranslated: {errors}" if errors else ""), log=(o + e)[-3000:])
        return out
    finally:
        shutil.rmtree(d, ignore_errors=True)


def _lemma_at(path, line):
    name = None
    for i, l in enumerate(open(path), 1):
        m = re.match(r"\s*(Theorem|Lemma|Corollary|Example|Fact)\s+([A-Za-z_0-9']+)", l)
        if m:
            name = m.group(2)
        if i >= line:
            break
    return name


def _failed_file(log):
    m = re.findall(r'File "\./([^"]+)", line (\d+)', log)
    return f"{m[-1][0]}:{m[-1][1]}" if m else None


def _theorem_names(src):
    names = []
    for line in open(src):
        m = re.match(r"\s*(Theorem|Lemma|Corollary|Example|Fact)\s+([A-Za-z_0-9']+)", line)
        if m:
            names.append(m.group(2))
    return names


def _axioms(out):
    """Names listed by Print Assumptions (a name may stand alone on its line, its type wrapped below)."""
    ax = []
    inblock = False
    for line in out.splitlines():
        if line.startswith("Axioms:"):
            inblock = True
            continue
        if line.startswith("Closed under the global context"):
            inblock = False
            continue
        if inblock:
            if line.startswith(" "):
                continue  # continuation of a type
            m = re.match(r"^([A-Za-z_][A-Za-z_0-9'.]*)\s*(:|$)", line)
            if m:
                ax.append(m.group(1))
            else:
                inblock = False
    return ax


def coq_eval(name: str, header: str, exprs, shard=400, timeout=600, jobs=16):
    """Evaluate Gallina expressions with vm_compute; returns parsed results (same order).

    Each shard is one generated .v file `build/cases_<name>_<k>.v` compiled by coqc."""
    os.makedirs(BUILD, exist_ok=True)
    exprs = list(exprs)
    shards = [exprs[i : i + shard] for i in range(0, len(exprs), shard)] or [[]]
    files = []
    for k, sh_exprs in enumerate(shards):
        fn = os.path.join(BUILD, f"cases_{name}_{os.getpid()}_{k}.v")
        with open(fn, "w") as f:
            f.write(header + "\n")
            for ex in sh_exprs:
                f.write(f"Eval vm_compute in ({ex}).\n")
        files.append(fn)

    def run(fn):
        rc, o, e = sh(
            f"timeout {timeout} coqc -Q {COQ} FV -w {COQ_W} {fn}",
            cwd=BUILD,
            timeout=timeout + 30,
        )
        if rc != 0:
            raise RuntimeError(f"coqc failed on {fn}:\n{(o + e)[-3000:]}")
        return o

    with ThreadPoolExecutor(max_workers=jobs) as ex:
        outs = list(ex.map(run, files))
    results = []
    for fn, o, sh_exprs in zip(files, outs, shards):
        parts = split_evals(o)
        if len(parts) != len(sh_exprs):
            raise RuntimeError(f"{fn}: expected {len(sh_exprs)} results, got {len(parts)}")
        results.extend(parse_coq(p) for p in parts)
        for ext in (".v", ".vo", ".glob", ".vok", ".vos"):
            try:
                os.remove(fn[:-2] + ext)
            except OSError:
                pass
        try:
            os.remove(os.path.join(BUILD, "." + os.path.basename(fn)[:-2] + ".aux"))
        except OSError:
            pass
    return results


HEADER = """From Coq Require Import ZArith List Bool PrimFloat String.
From FV Require Import NumSys FloatA Py.
Import ListNotations.
Open Scope float_scope.
Open Scope Z_scope.
"""

# --------------------------------------------------------------------------- comparison


def close(a, b, rtol=1e-9, atol=1e-12):
    if a is None or b is None:
        return a is None and b is None
    a = float(a)
    b = float(b)
    if math.isnan(a) or math.isnan(b):
        return math.isnan(a) and math.isnan(b)
    if math.isinf(a) or math.isinf(b):
        return a == b
    return abs(a - b) <= atol + rtol * max(abs(a), abs(b))


def same(a, b, rtol=1e-9, atol=1e-12):
    """Structural comparison of observables; numbers by tolerance, the rest exactly."""
    if isinstance(a, bool) or isinstance(b, bool):
        return isinstance(a, bool) and isinstance(b, bool) and a == b
    if isinstance(a, (int, float)) and isinstance(b, (int, float)):
        if isinstance(a, int) and isinstance(b, int):
            return a == b
        return close(a, b, rtol, atol)
    if isinstance(a, (list, tuple)) and isinstance(b, (list, tuple)):
        return len(a) == len(b) and all(same(x, y, rtol, atol) for x, y in zip(a, b))
    return a == b


def first_diff(a, b, rtol=1e-9, atol=1e-12, path=()):
    """Path of the first differing component (or None)."""
    if isinstance(a, (list, tuple)) and isinstance(b, (list, tuple)) and not isinstance(a, Ctor):
        if len(a) != len(b):
            return path + (f"len {len(a)} != {len(b)}",)
        for i, (x, y) in enumerate(zip(a, b)):
            d = first_diff(x, y, rtol, atol, path + (i,))
            if d is not None:
                return d
        return None
    return None if same(a, b, rtol, atol) else path + (f"{a!r} != {b!r}",)


# --------------------------------------------------------------------------- known findings


def load_known():
    p = os.path.join(VERIF, "known_findings.json")
    if not os.path.exists(p):
        return []
    return json.load(open(p))["findings"]


def match_known(pid, sig, known):
    """A violation matches a known finding iff every key of the finding's signature
    is present with an equal value in the violation's signature."""
    for k in known:
        if k.get("property") != pid or k.get("status") != "known":
            continue
        if all(sig.get(a) == v for a, v in k["signature"].items()):
            return k
    return None


# --------------------------------------------------------------------------- a check run


class Check:
    def __init__(self, pid, tier="quick", seed=0):
        self.pid = pid
        self.tier = tier
        self.seed = seed
        self.rng = random.Random(f"{pid}-{seed}")
        self.t0 = time.time()
        self.known = load_known()
        self.violations = []  # (sig, detail)
        self.known_hits = {}
        self.evals = 0
        self.nontrivial = set()
        self.samples = []
        self.dist = {}
        self.corr_cases = 0
        self.corr_fail = []
        self.near_ties = 0
        self.notes = []
        self.rules = []
        self.proof = None
        self.assumptions = []
        self.exhaustive = False

    # -- bookkeeping
    def count(self, key, n=1):
        self.dist[key] = self.dist.get(key, 0) + n

    def case(self, desc, nontrivial=False, key=None):
        """Register one explored case; `key` identifies it for distinct counting."""
        self.evals += 1
        if nontrivial:
            k = key if key is not None else json.dumps(desc, sort_keys=True, default=str)
            self.nontrivial.add(hashlib.sha1(k.encode()).hexdigest())
        if len(self.samples) < 6 and (nontrivial or len(self.samples) < 2):
            self.samples.append(desc)

    def rule(self, text):
        self.rules.append(text)

    # -- outcomes
    def violation(self, sig: dict, detail: dict):
        """A property violation observed on the implementation (concrete input in detail)."""
        k = match_known(self.pid, sig, self.known)
        if k is not None:
            kid = k["id"]
            if kid not in self.known_hits:
                self.known_hits[kid] = (k, detail)
            return False
        self.violations.append((sig, detail))
        return True

    def mismatch(self, what: str, detail: dict):
        """Model and implementation disagree (correspondence broken)."""
        self.corr_fail.append((what, detail))

    def finish(self):
        os.makedirs(os.path.join(OUT, "evidence"), exist_ok=True)
        os.makedirs(os.path.join(OUT, "replays", self.pid), exist_ok=True)
        proof = self.proof or dict(ok=False, theorems=[], axioms=[], log="proofs not checked")
        lines = []
        for kid, (k, detail) in sorted(self.known_hits.items()):
            lines.append(f"KNOWN-FINDING: property={self.pid} {kid}: {k['summary']}")
        nviol = 0
        seen = set()
        for sig, detail in self.violations:
            key = json.dumps(sig, sort_keys=True, default=str)
            if key in seen:
                continue
            seen.add(key)
            nviol += 1
            path = self._replay(dict(kind="violation", property=self.pid, signature=sig, **detail))
            lines.append(f"VIOLATION property={self.pid} replay={path}")
        if True:
            # a broken correspondence / proof is reported even when the monitor also found concrete
            # violations (otherwise an unrelated finding would mask it)
            if self.corr_fail:
                what, detail = self.corr_fail[0]
                path = self._replay(
                    dict(
                        kind="correspondence-broken",
                        property=self.pid,
                        correspondence=what,
                        theorems_no_longer_transferred=proof.get("theorems", []),
                        n_disagreements=len(self.corr_fail),
                        first=detail,
                        others=[d for _, d in self.corr_fail[1:4]],
                    )
                )
                nviol += 1
                lines.append(f"VIOLATION property={self.pid} replay={path}" + ("" if self.violations else " no-failing-input-found"))
            elif not proof["ok"]:
                path = self._replay(
                    dict(kind="proof-broken", property=self.pid, failed=proof.get("failed"), theorems=proof.get("theorems", []), log=proof.get("log", "")[-3000:])
                )
                nviol += 1
                lines.append(f"VIOLATION property={self.pid} replay={path}" + ("" if self.violations else " no-failing-input-found"))
        wall = time.time() - self.t0
        nthm = len(proof.get("theorems", []))
        cov = dict(
            obligations=max(nthm, 1),
            discharged=nthm if proof["ok"] else 0,
            checker_cmd=f"cd /verif/coq && make && coqc -Q . FV Props/{self.pid}.v  (Coq 8.16.1, full .vo build; Print Assumptions after every theorem)",
            trusted_base=[
                "Coq 8.16.1 kernel incl. vm_compute and primitive floats/ints (no native_compute)",
                "axioms reported by Print Assumptions: " + (", ".join(proof.get("axioms", [])) or "none (closed under the global context)"),
                "hand-written Gallina models, tied to /repo by this run's correspondence check (differential testing, not proof)",
                "harness/*.py, CPython 3.12, NumPy/SciPy as installed",
            ] + ([
                f"source tie: harness/py2coq.py (methods of stateful objects) / harness/fn2coq.py (pure static functions) -- fail-closed translators, semantics assumed as stated in their headers; typing hints in harness/gen_units.py -- "
                f"generated {proof['source_tie']['units']} definitions from /repo's current source; coq/Gen/{', '.join(proof['source_tie']['files'])} prove them equal to the model "
                f"(ok={proof['source_tie']['ok']}; not translated: {proof['source_tie']['untranslated'] or 'none'}); library calls kept as uninterpreted function parameters of the generated file: "
                f"{', '.join(proof['source_tie'].get('oracles') or []) or 'none'}"
            ] if proof.get("source_tie") else []),
            theorems=proof.get("theorems", []),
            evaluations=self.evals,
            distinct_nontrivial=len(self.nontrivial),
            rule=" | ".join(self.rules),
            samples=self.samples[:6] or ["(none)"],
            correspondence_cases=self.corr_cases,
            correspondence_disagreements=len(self.corr_fail),
            near_ties_skipped=self.near_ties,
            distribution=self.dist,
            known_findings_seen=sorted(self.known_hits),
            notes=self.notes,
            exhaustive=self.exhaustive,
        )
        ev = dict(
            property_id=self.pid,
            tier=self.tier,
            seed=self.seed,
            level="proof",
            coverage=cov,
            assumptions=self.assumptions,
            wall_s=round(wall, 2),
            violations=nviol,
        )
        with open(os.path.join(OUT, "evidence", f"{self.pid}.json"), "w") as f:
            json.dump(ev, f, indent=1, default=str)
        for ln in lines:
            print(ln)
        print(
            f"[{self.pid}] tier={self.tier} seed={self.seed} theorems={nthm} proofs_ok={proof['ok']} "
            f"cases={self.evals} nontrivial={len(self.nontrivial)} corr={self.corr_cases} corr_fail={len(self.corr_fail)} "
            f"violations={nviol} known={len(self.known_hits)} wall={wall:.1f}s"
        )
        return 1 if nviol else 0

    def _replay(self, obj):
        blob = json.dumps(obj, sort_keys=True, default=str)
        h = hashlib.sha1(blob.encode()).hexdigest()[:12]
        path = os.path.join(OUT, "replays", self.pid, f"{h}.json")
        with open(path, "w") as f:
            json.dump(obj, f, indent=1, default=str)
        return path


# --------------------------------------------------------------------------- stream generators


def gen_stream01(rng, n, kind=None):
    kind = kind or rng.choice(["const0", "const1", "bern", "shift", "shift", "alt", "burst", "three"])
    if kind == "const0":
        return [0] * n
    if kind == "const1":
        return [1] * n
    if kind == "bern":
        p = rng.choice([0.05, 0.2, 0.5, 0.8])
        return [int(rng.random() < p) for _ in range(n)]
    if kind == "shift":
        k = rng.randrange(1, max(2, n))
        p, q = rng.choice([(0.05, 0.6), (0.2, 0.9), (0.7, 0.1), (0.0, 1.0), (0.3, 0.5)])
        return [int(rng.random() < (p if i < k else q)) for i in range(n)]
    if kind == "three":
        # a short burst, a long stretch of the other level, then the first level again (rise AND fall evidence at once)
        a = rng.randrange(1, max(2, min(8, n // 4 + 1)))
        c = rng.randrange(1, max(2, n // 3))
        hi = rng.choice([0, 1])
        return ([hi] * a + [1 - hi] * max(0, n - a - c) + [hi] * c)[:n]
    if kind == "alt":
        return [(i // rng.choice([1, 2, 3])) % 2 for i in range(n)]
    k = rng.randrange(0, max(1, n))
    return [1 if k <= i < k + 5 else 0 for i in range(n)]


def gen_stream_real(rng, n, kind=None, nonneg=False):
    kind = kind or rng.choice(["const", "gauss", "shift", "shift", "ramp", "ties", "cancel"])
    if kind == "const":
        c = rng.choice([0.0, 1.0, 0.5, 3.25, -2.0 if not nonneg else 2.0, 1e6])
        return [c] * n
    if kind == "gauss":
        mu, s = rng.choice([(0, 1), (5, 0.1), (100, 10)])
        xs = [rng.gauss(mu, s) for _ in range(n)]
    elif kind == "shift":
        k = rng.randrange(1, max(2, n))
        mu0, mu1, s = rng.choice([(0, 3, 1), (5, 5.5, 0.1), (2, 0.5, 0.3), (10, 20, 1)])
        xs = [rng.gauss(mu0 if i < k else mu1, s) for i in range(n)]
    elif kind == "ramp":
        a = rng.choice([0.01, 0.1, -0.05])
        xs = [5 + a * i + rng.gauss(0, 0.05) for i in range(n)]
    elif kind == "ties":
        xs = [float(rng.choice([0, 1, 2, 3])) for _ in range(n)]
    else:
        k = rng.randrange(1, max(2, n))
        xs = [rng.uniform(5, 15) if i < k else 0.0 for i in range(n)]
    if nonneg:
        xs = [abs(x) for x in xs]
    return xs
