"""C13 — permutation-test callback: same statistic under the null, Phipson-Smyth p-values.

Four families of cases, each with a monitor (oracle independent of the code) and a
correspondence check against Model/Permutation.v:

A  constructor chains: `statistical_kwargs` versus the keyword arguments `compare` really
   passes to the static statistic (recorded by a spy), for all nine detectors and
   non-default / invalid parameters; model = `construct` / `compare_kwargs`.
B  end to end: the permutations actually drawn are recorded (wrapper around
   `np.random.permutation`), every logged null statistic is recomputed with a fresh
   detector (fit on the first n of the permuted pool, compare on the last m), the observed
   statistic is compared with `compare`'s distance, the p-value with the formula for
   (b, m, m_t); enumeration branch included; model = `all_perms`, `resplit`, `count_ge`.
C  (b, m, m_t) grid for the four methods + auto through `_calculate_p_value` against exact
   rational formulas (fractions.Fraction) and against the model evaluated over Q.
D  num_jobs in {1,2,3,-1} and repeated runs with a fixed random_state: identical logs.
"""
from __future__ import annotations

import itertools
import math
from fractions import Fraction as F
from functools import partial

import numpy as np

from lib import HEADER, Check, check_props, close, coq_eval, fl, fl_list, z

HDR = (
    "From Coq Require Import ZArith String List Bool PrimFloat QArith.\n"
    "From FV Require Import NumSys FloatA Py Permutation.\n"
    "Import ListNotations.\nLocal Close Scope Q_scope.\nOpen Scope Z_scope.\n"
)

BINNED = ["PSI", "HellingerDistance", "BhattacharyyaDistance", "HINormalizedComplement"]
PROB = ["JS", "KL"]
ALL = BINNED + PROB + ["EMD", "EnergyDistance", "MMD"]
COQ_DET = {
    "PSI": "PSI", "HellingerDistance": "Hellinger", "BhattacharyyaDistance": "Bhattacharyya",
    "HINormalizedComplement": "HINC", "JS": "JS", "KL": "KL", "EMD": "EMD", "EnergyDistance": "Energy", "MMD": "MMD",
}
MAX_NUM_PERM = 1000000


def det_class(name):
    import frouros.detectors.data_drift.batch as B

    return getattr(B, name)


# ------------------------------------------------------------------ argument specs (JSON-able)


def build_args(name, spec, n, m):
    """Constructor keyword arguments from a JSON-able spec."""
    from frouros.utils.kernels import rbf_kernel

    kw = {}
    for k, v in spec.items():
        if k == "kernel_sigma":
            kw["kernel"] = partial(rbf_kernel, sigma=v)
        elif k == "kernel_poly":
            import kernels_extra

            kw["kernel"] = partial(kernels_extra.poly_kernel, c=v)
        elif k == "weights":
            kw["u_weights"] = np.linspace(1.0, 2.0, n)
            kw["v_weights"] = np.linspace(1.0, 3.0, m)
        elif k == "dtype64":
            kw["dtype"] = np.float64
        elif k == "chunk_float":
            kw["chunk_size"] = v
        else:
            kw[k] = v
    return kw


class Canon:
    """impl value -> model token (callables / opaque objects by identity)."""

    def __init__(self):
        self.objs = []

    def ident(self, o):
        for i, x in enumerate(self.objs):
            if x is o:
                return i + 1
        self.objs.append(o)
        return len(self.objs)

    def tok(self, v):
        from frouros.utils.kernels import rbf_kernel

        if v is None:
            return ("VNone",)
        if isinstance(v, (bool, np.bool_)):
            return ("VOther", self.ident(v))
        if isinstance(v, (int, np.integer)):
            return ("VInt", int(v))
        if isinstance(v, (float, np.floating)) and float(v) == math.sqrt(2.0):
            return ("VSqrt2",)
        if v is rbf_kernel:
            return ("VFun", 0)
        if callable(v) and not isinstance(v, type):
            return ("VFun", self.ident(v))
        return ("VOther", self.ident(v))

    def coq(self, t):
        return t[0] if len(t) == 1 else f"{t[0]} {z(t[1])}"

    def coq_dict(self, d):
        return "[" + "; ".join(f'("{k}"%string, {self.coq(self.tok(v))})' for k, v in d.items()) + "]"

    def canon_dict(self, d):
        return {k: self.tok(v) for k, v in d.items()}


def model_dict(lst):
    """parsed Coq dict (list of (str, Ctor)) -> {key: token}"""
    out = {}
    for k, v in lst:
        t = (v.name,) + tuple(v.args) if hasattr(v, "name") else (str(v),)
        if k not in out:
            out[k] = t
    return out


# ------------------------------------------------------------------ A: constructor chains

PARAM_SPECS = {
    "binned": [{}, {"num_bins": 2}, {"num_bins": 5}, {"num_bins": 17}, {"num_bins": 10}, {"num_bins": 1}, {"num_bins": 0}, {"num_bins": None}, {"foo": 1}],
    "JS": [{}, {"num_bins": 2}, {"num_bins": 5}, {"num_bins": 17}, {"num_bins": 5, "base": 2}, {"base": 3}, {"num_bins": 0}, {"num_bins": None}],
    "KL": [{}, {"num_bins": 2}, {"num_bins": 5}, {"num_bins": 17}, {"num_bins": 5, "dtype64": True}, {"num_bins": -3}],
    "w": [{}, {"weights": True}],
    "MMD": [{}, {"chunk_size": 2}, {"chunk_size": 3}, {"chunk_size": 7}, {"kernel_sigma": 0.5}, {"kernel_sigma": 2.0, "chunk_size": 3},
            {"chunk_size": 0}, {"chunk_float": 2.5}, {"kernel": 3}, {"kernel": 3, "chunk_size": 0}, {"foo": 1}, {"chunk_size": None}],
}


def specs_for(name):
    if name in BINNED:
        return PARAM_SPECS["binned"]
    if name in ("EMD", "EnergyDistance"):
        return PARAM_SPECS["w"]
    return PARAM_SPECS[name]


def spy_compare_kwargs(det, X, Y):
    """Keyword arguments the static statistic receives on compare's own path."""
    fname = det.statistical_method.__name__
    orig = det.statistical_method
    seen = {}

    def spy(*a, **kw):
        seen.update({k: v for k, v in kw.items() if k not in ("X", "Y")})
        return orig(*a, **kw)

    setattr(det, fname, spy)
    try:
        det.fit(X=X)
        det.compare(X=Y)
    finally:
        delattr(det, fname)
    return seen


def check_params(ck, name, spec, setattr_value=None, collect=None, setattr_name="num_bins"):
    """One constructor call (optionally followed by `det.num_bins = v`)."""
    n, m = 12, 9
    rs = np.random.RandomState(7)
    X, Y = rs.normal(size=n), rs.normal(0.5, 1.0, size=m)
    cn = Canon()
    user = build_args(name, spec, n, m)
    detail = dict(replay_kind="params", detector=name, spec=spec, setattr_value=setattr_value, setattr_name=setattr_name)
    new_value = None
    if setattr_value is not None:
        new_value = build_args(name, {setattr_name: setattr_value}, n, m)
        (attr_name, new_value), = new_value.items()
    try:
        det = det_class(name)(**user)
        if setattr_value is not None:
            setattr(det, attr_name, new_value)
        impl = ("ok", cn.canon_dict(det.statistical_kwargs), cn.canon_dict(spy_compare_kwargs(det, X, Y)))
    except (ValueError, TypeError) as e:
        impl = ("raise", type(e).__name__)
    ck.case(dict(kind="params", detector=name, spec=spec, setattr=[setattr_name, setattr_value] if setattr_value is not None else None, outcome=impl[0]),
            nontrivial=bool(spec) or setattr_value is not None, key=repr((name, spec, setattr_name, setattr_value)))
    ck.count("params_" + impl[0])
    if impl[0] == "ok":
        skw, ckw = impl[1], dict(impl[2])
        ckw.pop("expected_k_xx", None)
        if skw != ckw:
            bad = sorted(k for k in set(skw) | set(ckw) if skw.get(k) != ckw.get(k))
            ck.violation(
                dict(clause="null-params", detector=name, via="setattr" if setattr_value is not None else "constructor", param=bad[0]),
                dict(detail, what="statistical_kwargs (used for the null statistics) differ from the keyword arguments compare passes",
                     statistical_kwargs={k: list(v) for k, v in skw.items()}, compare_kwargs={k: list(v) for k, v in ckw.items()}),
            )
    if collect is not None:
        d = COQ_DET[name]
        u = cn.coq_dict(user)
        if setattr_value is None:
            body = f"match construct {d} {u} with Ok o => inl (o_skw o, compare_kwargs o []) | Raise e => inr e end"
        else:
            body = (f"match construct {d} {u} with Ok o => match assign_attr o \"{attr_name}\"%string ({cn.coq(cn.tok(new_value))}) with "
                    f"Ok o' => inl (o_skw o', compare_kwargs o' []) | Raise e => inr e end | Raise e => inr e end")
        collect.append((body, impl, detail))


def corr_params(ck, collected):
    res = coq_eval("C13a", HDR, [c[0] for c in collected])
    for (expr, impl, detail), r in zip(collected, res):
        ck.corr_cases += 1
        if r.name == "inr":
            mod = ("raise", r.args[0].name)
        else:
            skw, ckr = r.args[0]
            if ckr.name != "Ok":
                mod = ("ok", model_dict(skw), ("raise", ckr.args[0].name))
            else:
                mod = ("ok", model_dict(skw), model_dict(ckr.args[0]))
        imp = impl
        if impl[0] == "ok":
            c2 = dict(impl[2])
            if "expected_k_xx" in c2:
                c2["expected_k_xx"] = ("VCacheKxx",)
            imp = ("ok", impl[1], c2)
        if mod != imp:
            ck.mismatch("Model/Permutation.v construct/compare_kwargs vs the detector classes", dict(detail, impl=repr(imp), model=repr(mod), expr=expr))


# ------------------------------------------------------------------ B: end to end


class RecordPermutations:
    """Record what np.random.permutation returns inside the parent process."""

    def __enter__(self):
        self.draws = []
        self.orig = np.random.permutation

        def wrapped(x):
            r = self.orig(x)
            self.draws.append(np.array(r, copy=True))
            return r

        np.random.permutation = wrapped
        return self

    def __exit__(self, *a):
        np.random.permutation = self.orig


def lex_perms(k):
    """all permutations of range(k) in lexicographic order of positions (own enumeration)."""
    if k == 0:
        return [[]]
    out = []

    def go(prefix, rest):
        if not rest:
            out.append(prefix)
            return
        for i in range(len(rest)):
            go(prefix + [rest[i]], rest[:i] + rest[i + 1:])

    go([], list(range(k)))
    return out


def gen_data(rng, name, kind, n, m):
    rs = np.random.RandomState(rng.randrange(2**31))
    if name == "MMD" and kind == "multi":
        return rs.normal(size=(n, 2)), rs.normal(0.4, 1.0, size=(m, 2))
    if kind == "shift":
        return rs.normal(size=n), rs.normal(0.8, 1.0, size=m)
    if kind == "same":
        return rs.normal(size=n), rs.normal(size=m)
    if kind == "ties":
        return rs.randint(0, 4, size=n).astype(float), rs.randint(1, 5, size=m).astype(float)
    if kind == "uniform":
        return rs.uniform(0, 1, size=n), rs.uniform(0.2, 1.5, size=m)
    return rs.normal(size=n), rs.normal(0.8, 1.0, size=m)


def cdf_F(b, m, p):
    return sum(math.comb(m, k) * p**k * (1 - p) ** (m - k) for k in range(b + 1))


def exact_F(b, m, mt):
    return sum(cdf_F(b, m, F(t, mt)) for t in range(1, mt + 1)) / mt


def integral_F(b, m, a):
    """int_0^a BinomCDF(b; m, p) dp, by expanding (1-p)^(m-k)."""
    tot = F(0)
    for k in range(b + 1):
        for j in range(m - k + 1):
            tot += math.comb(m, k) * math.comb(m - k, j) * (-1) ** j * a ** (k + j + 1) / (k + j + 1)
    return tot


def approx_ps_F(b, m, mt):
    return F(b + 1, m + 1) - integral_F(b, m, F(1, 2 * mt))


def approx_code_F(b, m, mt):
    a = F(1, 2 * mt)
    return F(b + 1, m + 1) - a * integral_F(b, m, a)


def exact_float(b, m, mt):
    """the exact formula in floating point (for m_t too large for rationals); no SciPy."""
    p = np.arange(1, mt + 1, dtype=float) / mt
    tot = np.zeros_like(p)
    for k in range(b + 1):
        tot += math.comb(m, k) * p**k * (1 - p) ** (m - k)
    return float(tot.mean())


def expected_p(method, b, m, mt):
    """property's formula for (b, m, m_t) (None when not computable exactly here)."""
    if method == "conservative":
        return F(b + 1, m + 1)
    if method == "estimate":
        return F(b, m)
    if method in ("exact", "auto"):
        return exact_F(b, m, mt) if mt * (b + 1) <= 20000 else exact_float(b, m, mt)
    return approx_ps_F(b, m, mt)


def fclose(p, q, rtol=1e-9, atol=1e-13):
    return abs(float(p) - float(q)) <= atol + rtol * max(abs(float(p)), abs(float(q)))


def check_pvalue_formula(ck, method, p, b, m, mt, requested, where, detail):
    """clauses: formula per method, range (0,1]."""
    p = float(p)
    if method != "estimate" and mt >= 2:
        if not (0.0 < p <= 1.0 + 1e-12):
            ck.violation(dict(clause="p-range", method=method, where=where), dict(detail, what="p-value outside (0, 1]", p=p, b=b, m=m, m_t=mt))
    if method == "conservative":
        want = F(b + 1, m + 1)
        if not fclose(p, want):
            ck.violation(
                dict(clause="conservative-formula", branch="enumeration" if requested != m else "sampled"),
                dict(detail, what="conservative p-value is not (b+1)/(m+1) with m the number of null statistics", p=p, expected=float(want), b=b, m=m, requested=requested),
            )
    elif method == "estimate":
        if not fclose(p, F(b, m)):
            ck.violation(dict(clause="estimate-formula", where=where), dict(detail, p=p, expected=float(F(b, m)), b=b, m=m))
    elif method in ("exact", "auto"):
        want = expected_p(method, b, m, mt)
        if not fclose(p, want, rtol=1e-8):
            ck.violation(dict(clause="exact-formula", method=method, where=where), dict(detail, p=p, expected=float(want), b=b, m=m, m_t=mt))
    else:
        ps = approx_ps_F(b, m, mt)
        hi = F(b + 1, m + 1)
        # implied by the integral form (0 <= integral <= 0.5/m_t) and also met by the code's variant:
        # keeps 'approximate' monitored for regressions while the formula clause is a known finding
        if not (float(hi - F(1, 2 * mt)) - 1e-12 <= p <= float(hi) + 1e-12):
            ck.violation(dict(clause="approximate-bounds", where=where), dict(detail, what="'approximate' outside [(b+1)/(m+1) - 0.5/m_t, (b+1)/(m+1)]", p=p, b=b, m=m, m_t=mt))
        if not fclose(p, ps):
            ck.violation(
                dict(clause="approximate-formula"),
                dict(detail, what="'approximate' differs from (b+1)/(m+1) - int_0^{0.5/m_t} BinomCDF(b;m,p) dp", p=p,
                     phipson_smyth=float(ps), code_formula=float(approx_code_F(b, m, mt)), b=b, m=m, m_t=mt),
            )


def run_callback(name, spec, X, Y, cfg, record=True):
    from frouros.callbacks.batch import PermutationTestDistanceBased

    user = build_args(name, spec, len(X), len(Y))
    cb = PermutationTestDistanceBased(
        num_permutations=cfg["num_permutations"], total_num_permutations=cfg.get("total"), num_jobs=cfg.get("num_jobs", 1),
        method=cfg.get("method", "exact"), random_state=cfg.get("random_state"), name="perm",
    )
    det = det_class(name)(callbacks=[cb], **user)
    det.fit(X=X)
    if record:
        with RecordPermutations() as rec:
            res, logs = det.compare(X=Y)
        draws = rec.draws
    else:
        res, logs = det.compare(X=Y)
        draws = None
    lg = logs["perm"]
    return float(res.distance), float(lg["observed_statistic"]), np.asarray(lg["permuted_statistics"], dtype=float), float(lg["p_value"]), draws


def callback_failed(ck, name, spec, X, Y, e, detail):
    """compare raised with the callback attached: a finding iff the same detector works without it."""
    try:
        fresh_distance(name, spec, X, Y)
    except Exception:  # noqa: BLE001  the detector itself cannot handle this pair (not a C13 matter); counted
        ck.count("detector_error_" + type(e).__name__)
        return
    ck.violation(dict(clause="callback-raises", detector=name), dict(detail, what="compare raises only when the permutation callback is attached", error=repr(e)[:400]))


def fresh_distance(name, spec, A, B, override=None):
    sp = dict(spec)
    if override:
        sp.update(override)
    det = det_class(name)(**build_args(name, sp, len(A), len(B)))
    det.fit(X=A)
    return float(det.compare(X=B)[0].distance)


def eqf(a, b):
    if math.isnan(a) or math.isnan(b):
        return math.isnan(a) and math.isnan(b)
    return a == b or abs(a - b) <= 1e-12 * max(1.0, abs(a), abs(b))


def check_e2e(ck, name, spec, X, Y, cfg, data_kind, collect=None):
    n, m = len(X), len(Y)
    detail = dict(replay_kind="e2e", detector=name, spec=spec, X_ref=np.asarray(X).tolist(), X_test=np.asarray(Y).tolist(), cfg=cfg, data_kind=data_kind)
    try:
        dist, obs, stats, p, draws = run_callback(name, spec, X, Y, cfg)
    except Exception as e:  # noqa: BLE001
        callback_failed(ck, name, spec, X, Y, e, detail)
        return
    pooled = np.concatenate([X, Y])
    requested = cfg["num_permutations"]
    max_num = math.factorial(n + m)
    enum = requested >= max_num
    ck.count("e2e_enum" if enum else "e2e_sampled")
    ck.count("e2e_" + name)
    # the observed statistic is compare's distance, and that of a detector without callbacks
    plain = fresh_distance(name, spec, X, Y)
    if not (eqf(obs, dist) and eqf(obs, plain)):
        ck.violation(dict(clause="observed-statistic", detector=name), dict(detail, logged=obs, compare=dist, without_callback=plain))
    # the permutations used
    if enum:
        perms = [pooled[idx] for idx in lex_perms(n + m)]
        if draws:
            ck.violation(dict(clause="resplit", what="rng-used-in-enumeration"), dict(detail, draws=len(draws)))
    else:
        perms = draws
        ok = len(draws) == requested and all(
            d.shape == pooled.shape and np.array_equal(np.sort(d.reshape(len(d), -1), axis=0), np.sort(pooled.reshape(len(pooled), -1), axis=0)) for d in draws
        )
        if not ok:
            ck.violation(dict(clause="resplit", what="draws-not-permutations"), dict(detail, draws=len(draws), requested=requested))
            return
    want_len = min(requested, max_num)
    if len(stats) != want_len:
        ck.violation(dict(clause="null-count", detector=name), dict(detail, logged=len(stats), expected=want_len))
        return
    # every logged null statistic = the detector's own path on the re-split
    bad = None
    recomputed = []
    for i, pm in enumerate(perms):
        r = fresh_distance(name, spec, pm[:n], pm[n:])
        recomputed.append(r)
        if bad is None and not eqf(r, float(stats[i])):
            bad = i
    ties = sum(1 for s in stats if s == obs)
    # a re-split whose distance (through fit + compare) EQUALS the observed one must be logged with that very value: the
    # p-value counts `null >= observed`, so a tie that differs in the last bit is silently dropped from b
    lost = None if name == "MMD" else next((i for i, r in enumerate(recomputed) if r == obs and float(stats[i]) != obs), None)  # MMD: compare uses the term cached at fit, the stand-alone statistic recomputes it (last-bit differences are legitimate)
    if lost is not None and bad is None:
        ck.violation(dict(clause="null-statistic", detector=name, cause="tie-with-observed-lost"),
                     dict(detail, what="a re-split with exactly the observed distance (same function, same parameters) is logged with another value: the tie is not counted in b",
                          index=lost, permutation=np.asarray(perms[lost]).tolist(), logged=float(stats[lost]), observed=obs, recomputed=recomputed[lost]))
    nontriv = len(set(np.round(stats[~np.isnan(stats)], 12))) > 1
    ck.case(dict(kind="e2e", detector=name, spec=spec, n=n, m=m, data=data_kind, cfg=cfg, null_head=[float(s) for s in stats[:3]]),
            nontrivial=nontriv, key=repr((name, spec, detail["X_ref"], detail["X_test"], cfg)))
    if bad is not None:
        cause = "other"
        if name in BINNED and spec.get("num_bins", 10) != 10:
            alt = fresh_distance(name, spec, perms[bad][:n], perms[bad][n:], override={"num_bins": 10})
            if eqf(alt, float(stats[bad])):
                cause = "base-default-num_bins"
        ck.violation(
            dict(clause="null-statistic", detector=name, cause=cause),
            dict(detail, what="logged null statistic differs from detector.fit(first n).compare(last m) on the recorded permutation",
                 index=bad, permutation=np.asarray(perms[bad]).tolist(), logged=float(stats[bad]), recomputed=recomputed[bad]),
        )
    # p-value from (b, m, m_t)
    b = int(np.sum(stats >= obs))
    mt = cfg.get("total") or min(max_num, MAX_NUM_PERM)
    ck.count("e2e_ties", ties)
    check_pvalue_formula(ck, cfg.get("method", "exact"), p, b, len(stats), mt, requested, "e2e", dict(detail, logged_p=p))
    if collect is not None:
        collect.append((obs, [float(s) for s in stats], b, detail))


def corr_e2e(ck, collected):
    """count_ge over binary64 (ties, nan) vs numpy's `>=`."""
    exprs = [f"count_ge (A:=FloatA) {fl(obs)} {fl_list(stats)}" for obs, stats, _, _ in collected]
    res = coq_eval("C13b", HDR.replace("Open Scope Z_scope.", "Open Scope float_scope.\nOpen Scope Z_scope."), exprs, shard=100)
    for (obs, stats, b, detail), r in zip(collected, res):
        ck.corr_cases += 1
        if int(r) != b:
            ck.mismatch("Model/Permutation.v count_ge vs (permuted >= observed).sum()", dict(observed=obs, null=stats, impl=b, model=int(r)))


def corr_enumeration(ck):
    """all_perms / resplit / perms_used vs itertools.permutations and the slicing in stats.py."""
    cases = []
    for k in range(0, 6):
        lit = "(@nil Z)" if k == 0 else "[" + "; ".join(str(i) for i in range(k)) + "]"
        cases.append((k, f"all_perms {lit}", [list(t) for t in itertools.permutations(range(k))]))
    for n, m, L in [(2, 3, 5), (0, 4, 4), (3, 0, 3), (1, 1, 2), (4, 2, 6), (2, 2, 3)]:
        data = list(range(L))
        cases.append(((n, m, L), f"resplit {n}%nat {m}%nat [{'; '.join(map(str, data))}]", (data[:n], data[-m:])))
    for L, req in [(3, 6), (3, 5), (3, 10), (2, 1)]:
        data = list(range(L))
        mx = math.factorial(L)
        used = [list(t) for t in itertools.permutations(data)] if req >= mx else [[(x + i) % L for x in data] for i in range(req)]
        cases.append(((L, req), f"perms_used [{'; '.join(map(str, data))}] {req} (fun i => map (fun x => (x + Z.of_nat i) mod {L}) [{'; '.join(map(str, data))}])", used))
    cases.append(("factZ", "map factZ [0; 1; 5; 10; 12]%nat", [math.factorial(i) for i in (0, 1, 5, 10, 12)]))
    for data, cs in [(list(range(7)), 3), (list(range(6)), 3), (list(range(5)), 5), (list(range(5)), 9), ([], 2), (list(range(4)), 1)]:
        from frouros.detectors.data_drift.batch import MMD

        impl = [list(map(int, c)) for c in MMD._get_chunks(np.array(data, dtype=int), cs)]
        lit = "(@nil Z)" if not data else "[" + "; ".join(map(str, data)) + "]"
        cases.append((("chunks", len(data), cs), f"chunks {cs}%nat {lit}", impl))
    res = coq_eval("C13e", HDR, [c[1] for c in cases])
    for (tag, expr, want), r in zip(cases, res):
        ck.corr_cases += 1
        def norm(v):
            return [norm(x) for x in v] if isinstance(v, (list, tuple)) else int(v)

        got, want = norm(r), norm(want)
        if got != want:
            ck.mismatch("Model/Permutation.v all_perms/resplit/perms_used/chunks vs itertools / slicing", dict(case=str(tag), expr=expr, impl=want, model=got))


# ------------------------------------------------------------------ C: (b, m, m_t) grid

COQ_METH = {"auto": "Auto", "conservative": "Conservative", "exact": "Exact", "approximate": "Approximate", "estimate": "Estimate"}


def impl_pvalue(method, requested, total, max_num, stats, observed):
    import frouros.callbacks.batch.permutation_test as pt

    orig = pt.permutation
    pt.permutation = lambda **kw: (list(stats), max_num)
    try:
        _, p = pt.PermutationTestDistanceBased._calculate_p_value(
            X_ref=None, X_test=None, statistic=None, statistic_args={}, observed_statistic=observed, num_permutations=requested,
            total_num_permutations=total, num_jobs=1, method=method, random_state=0, verbose=False,
        )
    finally:
        pt.permutation = orig
    return float(p)


def check_grid_point(ck, rng, method, b, m, mt, mode, collect=None):
    """mode: 'sampled' (requested = m, total given), 'enum' (requested > m = max_num, total None -> m_t = m)
    or 'default' (requested = m, total None, m_t = min(max_num, 10^6) with max_num = mt)."""
    # ties count as extreme; values a hair BELOW the observed one do not (1e-9 relative: far above rounding, inside
    # np.isclose's default tolerance); every third point uses statistics of magnitude 1e-9 (below isclose's atol)
    scale = 1e-9 if (b + m + mt) % 3 == 0 else 1.0
    observed = 0.5 * scale
    below = [0.25 * scale, observed * (1 - 1e-9), observed * (1 - 3e-7)]
    vals = [observed] * (b // 2) + [0.75 * scale] * (b - b // 2) + [below[i % 3] for i in range(m - b)]
    rng.shuffle(vals)
    if mode == "sampled":
        requested, total, max_num = m, mt, 10**9
    elif mode == "enum":
        requested, total, max_num = m + rng.choice([1, 3, 50]), None, m
        mt = m
    else:
        requested, total, max_num = m, None, mt
    detail = dict(replay_kind="pvalue", method=method, b=b, m=m, m_t=mt, mode=mode, requested=requested)
    p = impl_pvalue(method, requested, total, max_num, vals, observed)
    ck.case(dict(kind="grid", **detail), nontrivial=0 < b < m, key=repr((method, b, m, mt, mode)))
    ck.count("grid_" + method)
    ck.count("grid_mode_" + mode)
    check_pvalue_formula(ck, method, p, b, m, mt, requested, "grid", dict(detail, p=p))
    if collect is not None:
        tot = "None" if total is None else f"(Some {total})"
        expr = (f"(Qpair (p_value (A:=QA) {COQ_METH[method]} {requested} {tot} {max_num} {b}%nat {m}%nat), "
                f"Qpair (ps_approximate (A:=QA) {b}%nat {m}%nat {mt}%nat))")
        collect.append((expr, p, detail))


def code_formula_F(method, b, m, mt, requested):
    """what the model claims the code computes, recomputed independently with rationals"""
    if method == "conservative":
        return F(b + 1, m + 1)
    if method == "estimate":
        return F(b, m)
    if method in ("exact", "auto"):
        return exact_F(b, m, mt)
    return approx_code_F(b, m, mt)


def corr_grid(ck, collected):
    res = coq_eval("C13c", HDR, [c[0] for c in collected], shard=12)
    for (expr, p, d), r in zip(collected, res):
        ck.corr_cases += 1
        num, den, (pn, pd) = r  # Coq prints ((a, b), (c, d)) as (a, b, (c, d))
        mod = F(int(num), int(den))
        if not fclose(p, mod, rtol=1e-8):
            ck.mismatch("Model/Permutation.v p_value (over Q) vs _calculate_p_value", dict(d, impl=p, model=float(mod), expr=expr))
            continue
        want = code_formula_F(d["method"], d["b"], d["m"], d["m_t"], d["requested"])
        if mod != want:
            ck.mismatch("Model/Permutation.v p_value (over Q) vs the rational formula recomputed in the harness", dict(d, model=str(mod), harness=str(want), expr=expr))
        if F(int(pn), int(pd)) != approx_ps_F(d["b"], d["m"], d["m_t"]):
            ck.mismatch("Model/Permutation.v ps_approximate vs the harness's Phipson-Smyth integral form", dict(d, model=str(F(int(pn), int(pd))), harness=str(approx_ps_F(d["b"], d["m"], d["m_t"]))))


def grid_points(rng, thorough):
    pts = set()
    # boundaries: b in {0, 1, m-1, m}, m in {1, 2, 40}, m_t in {2, 3, 60}
    for m in [1, 2, 3, 5, 16, 40]:
        for b in sorted({0, 1, m // 2, m - 1, m} & set(range(m + 1))):
            for mt in [2, 3, 60]:
                pts.add((b, m, mt))
    pts.add((0, 16, 2))  # the F23 witness
    pts.add((3, 5, 1000))  # the unit tests' input
    want = 900 if thorough else 110
    while len(pts) < want:
        m = rng.choice([1, 2, 3, 4, 6, 9, 13, 20, 27, 33, 40])
        b = rng.choice([0, m, rng.randrange(m + 1), rng.randrange(m + 1)])
        mt = rng.choice([1, 2, 2, 4, 7, 10, 25, 60, rng.randrange(2, 61)])
        pts.add((b, m, mt))
    return sorted(pts)


# ------------------------------------------------------------------ D: num_jobs / repeatability


def check_jobs(ck, name, spec, X, Y, cfg, jobs_list):
    detail = dict(replay_kind="jobs", detector=name, spec=spec, X_ref=np.asarray(X).tolist(), X_test=np.asarray(Y).tolist(), cfg=cfg, jobs=jobs_list)
    runs = []
    for j in jobs_list:
        c = dict(cfg, num_jobs=j)
        np.random.seed(1000 + len(runs))  # leave the global generator in a different state before every run
        try:
            _, obs, stats, p, _ = run_callback(name, spec, X, Y, c, record=False)
        except Exception as e:  # noqa: BLE001
            callback_failed(ck, name, spec, X, Y, e, detail)
            return
        runs.append((j, obs, stats, p))
    ck.case(dict(kind="jobs", detector=name, spec=spec, cfg=cfg, jobs=jobs_list), nontrivial=len(set(np.round(runs[0][2], 12))) > 1,
            key=repr((name, spec, detail["X_ref"], cfg, jobs_list)))
    ck.count("jobs_runs", len(runs))
    j0, o0, s0, p0 = runs[0]
    for j, o, s, p in runs[1:]:
        same = eqf(o, o0) and len(s) == len(s0) and all(eqf(float(a), float(b_)) for a, b_ in zip(s, s0)) and eqf(p, p0)
        if not same:
            ck.violation(
                dict(clause="num-jobs-invariance" if j != j0 else "repeatable", detector=name),
                dict(detail, what="logs differ between two runs with the same random_state", jobs=(j0, j), p=(p0, p), null_a=[float(x) for x in s0[:8]], null_b=[float(x) for x in s[:8]]),
            )


# ------------------------------------------------------------------ driver


def pick_spec(rng, name, nontrivial_only=True):
    specs = [s for s in specs_for(name) if not any(k in s for k in ("foo", "chunk_float", "kernel")) and s.get("num_bins", 1) not in (None, 0, -3) and s.get("chunk_size", 1) != 0]
    return rng.choice(specs)


def run(ck: Check):
    import logging

    logging.getLogger("frouros").setLevel(logging.ERROR)
    rng = ck.rng
    thorough = ck.tier == "thorough"

    # ---- A
    ck.rule(
        "A: all nine distance detectors x constructor arguments (num_bins in {1,2,5,10,17} and invalid 0/None/-3, JS base, KL dtype, EMD/Energy weights, "
        "MMD chunk_size in {None,2,3,7} x RBF bandwidth, invalid chunk_size/kernel, unexpected keywords) and `det.num_bins = v` after construction; "
        "statistical_kwargs must equal the keyword arguments compare passes to the static statistic (spy); exception class and both dictionaries compared with the model"
    )
    collected = []
    for name in ALL:
        for spec in specs_for(name):
            check_params(ck, name, spec, collect=collected)
        if name in BINNED + PROB:
            for v in ([5, 17] if not thorough else [1, 2, 5, 17, 10]):
                check_params(ck, name, {}, setattr_value=v, collect=collected)
            check_params(ck, name, {"num_bins": 5}, setattr_value=0, collect=collected)
        if name == "MMD":
            check_params(ck, name, {}, setattr_value=3.0, setattr_name="kernel_sigma", collect=collected)
            check_params(ck, name, {"chunk_size": 2}, setattr_value=3, setattr_name="chunk_size", collect=collected)
            check_params(ck, name, {}, setattr_value=0, setattr_name="chunk_size", collect=collected)
    corr_params(ck, collected)

    # ---- B
    ck.rule(
        "B: end-to-end runs, samples of 2..30 points (normal/shifted/uniform/tied/2-d for MMD; tiny pools of 2..5 points to reach the enumeration branch "
        "num_permutations >= (n+m)! incl. equality), non-default parameters preferred, methods and total_num_permutations varied, random_state fixed; "
        "draws recorded by wrapping np.random.permutation; each null statistic recomputed with a fresh detector on (first n, last m); non-trivial = null statistics not all equal"
    )
    e2e = []
    per_det = 10 if not thorough else 60
    for name in ALL:
        for i in range(per_det):
            spec = pick_spec(rng, name) if i else {}
            if i in (1, 2, 3) and name in BINNED + PROB:
                spec = {"num_bins": [2, 5, 17][i - 1]}
            tiny = i % 5 == 4
            if tiny:
                n, m = rng.choice([(1, 1), (2, 1), (1, 2), (2, 2), (3, 2), (2, 3)])
                if name == "MMD":
                    n, m = max(n, 2), max(m, 2)
                kind = rng.choice(["shift", "ties"])
                mx = math.factorial(n + m)
                nperm = rng.choice([mx, mx + 1, mx * 2, max(1, mx - 1)])
                if "weights" in spec or (spec.get("chunk_size") or 1) > min(n, m):
                    spec = {}
            else:
                n, m = rng.choice([(8, 6), (12, 9), (20, 15), (30, 10), (5, 25)])
                kind = rng.choice(["shift", "same", "ties", "uniform"] + (["multi"] * 3 if name == "MMD" else []))
                nperm = rng.choice([1, 5, 12, 20])
            X, Y = gen_data(rng, name, kind, n, m)
            cfg = dict(num_permutations=nperm, total=rng.choice([None, None, 2, 7, 50, 1000]) if not tiny else rng.choice([None, None, 30]),
                       num_jobs=rng.choice([1, 1, 2]), method=rng.choice(["auto", "conservative", "exact", "approximate", "estimate"]), random_state=rng.randrange(1000))
            if tiny:
                cfg["method"] = rng.choice(["conservative", "conservative", "exact", "estimate", "approximate"])
            check_e2e(ck, name, spec, X, Y, cfg, kind, collect=e2e)
    # deterministic end-to-end cases (no draw from the generator):
    # (a) an INTEGER reference with a float test batch: the re-splits are re-splits of the pooled VALUES;
    # (b) test batch with the same histogram as the reference (frequencies adding up to 1 + 2.2e-16): the observed
    #     statistic logged by the callback is the distance compare returned, and re-splits with the same two histograms tie;
    # (c) num_permutations at the largest accepted value (10^6) on 2 + 2 samples (24 orderings are enumerated): 'auto' is
    #     'exact' unless the number of permutations EXCEEDS the maximum
    Xi, Yf = np.array([0, 3, 1, 4, 2]), np.array([2.5, 0.25, 3.75])
    for nm_ in ("EMD", "EnergyDistance"):
        check_e2e(ck, nm_, {}, Xi, Yf, dict(num_permutations=math.factorial(8), method="conservative", num_jobs=1, random_state=3), "int-reference-float-test")
        check_e2e(ck, nm_, {}, Xi, Yf, dict(num_permutations=9, method="exact", num_jobs=1, random_state=3), "int-reference-float-test")
    Xh = np.array([0.0, 0.0, 1.0, 1.0, 1.0, 2.0, 3.0, 4.0, 5.0])
    for nm_ in ("BhattacharyyaDistance", "HINormalizedComplement", "HellingerDistance"):
        check_e2e(ck, nm_, dict(num_bins=6), Xh, Xh[::-1].copy(), dict(num_permutations=200, method="conservative", num_jobs=2, random_state=31), "same-histogram")
    for npm in (999_999, 1_000_000):
        for meth in ("auto", "exact"):
            check_e2e(ck, "EMD", {}, np.array([0.0, 1.0]), np.array([2.0, 3.5]), dict(num_permutations=npm, method=meth, num_jobs=2, random_state=31), "max-num-permutations")
    corr_e2e(ck, e2e)
    corr_enumeration(ck)

    # ---- C
    ck.rule(
        "C: null statistics a relative 1e-9 below the observed one (not extreme) and statistics of magnitude 1e-9; m_t in {150000, 250001, 362880} for exact/auto; (b, m, m_t) grid up to m = 40, m_t = 60 (all of b in {0,1,m/2,m-1,m} x m in {1,2,3,5,16,40} x m_t in {2,3,60}, plus random points; ties with the observed "
        "statistic count as extreme) x 5 methods x modes sampled / enumeration (requested > m) / default m_t, through _calculate_p_value with `permutation` replaced; "
        "oracle = exact rational formulas; the model is evaluated over Q by vm_compute and must agree with the code (1e-8) and with the rational oracle (exactly)"
    )
    grid = []
    pts = grid_points(rng, thorough)
    for b, m, mt in pts:
        for method in ["auto", "conservative", "exact", "approximate", "estimate"]:
            heavy = m * mt > 600  # about a second of vm_compute each
            take = (not heavy) or (method in ("exact", "approximate") and rng.random() < (0.5 if thorough else 0.25))
            check_grid_point(ck, rng, method, b, m, mt, "sampled", collect=grid if take else None)
        if mt >= 2 and rng.random() < 0.5:
            check_grid_point(ck, rng, rng.choice(["conservative", "conservative", "exact", "approximate"]), b, m, mt, "enum", collect=grid if m <= 20 else None)
        if rng.random() < 0.2:
            check_grid_point(ck, rng, rng.choice(["auto", "exact", "approximate"]), b, m, mt, "default", collect=grid if m * mt <= 600 else None)
    # total numbers of permutations beyond any chunk / buffer size an implementation might use (9! = 362 880 is the
    # enumeration count of a pooled sample of 9; 10^6 is the default cap); formula in floating point, no Coq run
    for b, m, mt in ([(27, 30, 362880), (3, 10, 150000), (0, 5, 250001)] if not thorough else [(27, 30, 362880), (3, 10, 150000), (0, 5, 250001), (10, 20, 1000000), (5, 12, 100001), (2, 8, 199999)]):
        for method in ("exact", "auto"):
            check_grid_point(ck, rng, method, b, m, mt, "sampled")
        check_grid_point(ck, rng, "exact", b, m, mt, "default")
    corr_grid(ck, grid)

    # ---- B2: MMD with a kernel whose diagonal is not 1 (polynomial), with and without chunking: the null statistics must
    #      still be the detector's own compare() on the re-splits, and the observed one compare's distance
    ck.rule("B2: MMD with the polynomial kernel (x.y + c)^2 (k(x,x) != 1), chunk_size None / 3: observed = compare, every null statistic = a fresh detector's compare on the recorded re-split")
    for i in range(3 if not thorough else 12):
        n, m = rng.choice([(6, 6), (9, 5), (5, 11)])
        nprng = np.random.RandomState(rng.randrange(2**31))
        X, Y = nprng.normal(1.0, 1.0, (n, 2)), nprng.normal(1.5, 1.2, (m, 2))
        spec = {"kernel_poly": rng.choice([1.0, 0.5])}
        if i % 2:
            spec["chunk_size"] = 3
        check_e2e(ck, "MMD", spec, X, Y, dict(num_permutations=rng.choice([6, 15]), method=rng.choice(["exact", "conservative"]), random_state=rng.choice([0, 7, 31])), "poly-kernel")

    # ---- D2: the SAME detector object asked twice (and with other consumers of the global generator in between): repeatable
    ck.rule("D2: compare() called twice on one detector/callback with a fixed random_state, np.random used in between, and fit -> np.random -> compare: identical logs")
    for name in ALL:
        spec = pick_spec(rng, name)
        n, m = rng.choice([(8, 8), (12, 7)])
        nprng = np.random.RandomState(rng.randrange(2**31))
        X, Y = (nprng.normal(0, 1, (n, 2)), nprng.normal(0.5, 1, (m, 2))) if name == "MMD" else (nprng.normal(0, 1, n), nprng.normal(0.5, 1, m))
        from frouros.callbacks.batch import PermutationTestDistanceBased

        try:
            cb = PermutationTestDistanceBased(num_permutations=12, num_jobs=1, method="exact", random_state=rng.choice([0, 5, 123]), name="perm")
            det = det_class(name)(callbacks=[cb], **build_args(name, spec, n, m))
            det.fit(X=X)
            np.random.seed(99)
            np.random.rand(3)
            _, l1 = det.compare(X=Y)
            import copy as _copy

            l1 = _copy.deepcopy(l1)  # update() hands out the callback's own (mutable) log dictionary
            np.random.seed(12345)
            np.random.rand(7)
            _, l2 = det.compare(X=Y)
        except Exception as e:  # noqa: BLE001
            callback_failed(ck, name, spec, X, Y, e, dict(replay_kind="twice", detector=name, spec=spec))
            continue
        a, b_ = l1["perm"], l2["perm"]
        ck.case(dict(kind="same-detector-twice", detector=name, spec=spec), nontrivial=True, key=repr(("twice", name, spec, X.tolist())))
        ck.count("same_detector_twice")
        same = eqf(float(a["observed_statistic"]), float(b_["observed_statistic"])) and eqf(float(a["p_value"]), float(b_["p_value"])) and len(a["permuted_statistics"]) == len(b_["permuted_statistics"]) and all(eqf(float(x), float(y)) for x, y in zip(a["permuted_statistics"], b_["permuted_statistics"]))
        if not same:
            ck.violation(dict(clause="repeatable", detector=name, scenario="same-detector-twice"), dict(what="two compare() calls on one detector with the same random_state log different null statistics / p-values", detector=name, spec=spec, X_ref=X.tolist(), X_test=Y.tolist(), p=(float(a["p_value"]), float(b_["p_value"])), null_a=[float(x) for x in a["permuted_statistics"][:6]], null_b=[float(x) for x in b_["permuted_statistics"][:6]]))

    # ---- one callback OBJECT reused for a second detector (the first one is done with): the null distribution of the
    # second detector must be built with the second detector's statistic and parameters (own generator)
    import random as _random
    from frouros.callbacks.batch import PermutationTestDistanceBased as _PT

    prng = _random.Random(131313)
    pairs = [("PSI", dict(num_bins=8), "HellingerDistance", dict(num_bins=5)), ("EMD", dict(), "EnergyDistance", dict()), ("HellingerDistance", dict(num_bins=4), "PSI", dict(num_bins=9))]
    for na, kwa, nb_, kwb in (pairs if thorough else pairs[:2]):
        X = np.array([prng.gauss(0, 1) for _ in range(14)])
        Y = np.array([prng.gauss(0.7, 1.3) for _ in range(11)])
        rs = prng.randrange(1, 1000)
        try:
            cb = _PT(num_permutations=12, random_state=rs, name="perm")
            d1 = det_class(na)(callbacks=[cb], **kwa)
            d1.fit(X=X)
            d1.compare(X=Y)
            d2 = det_class(nb_)(callbacks=[cb], **kwb)
            d2.fit(X=X)
            res2, l2 = d2.compare(X=Y)
            import copy as _copy

            l2 = _copy.deepcopy(l2["perm"])
            cbf = _PT(num_permutations=12, random_state=rs, name="perm")
            d3 = det_class(nb_)(callbacks=[cbf], **kwb)
            d3.fit(X=X)
            res3, l3 = d3.compare(X=Y)
            l3 = l3["perm"]
        except Exception as e:  # noqa: BLE001
            ck.violation(dict(clause="raises", scenario="callback-reused", detector=nb_), dict(first=na, second=nb_, error=repr(e), X_ref=X.tolist(), X_test=Y.tolist()))
            continue
        ck.case(dict(kind="callback-reused", first=na, second=nb_), nontrivial=True, key=repr(("reused", na, nb_, X.tolist())))
        ck.count("callback_reused_cases")
        same = eqf(float(l2["observed_statistic"]), float(l3["observed_statistic"])) and eqf(float(l2["p_value"]), float(l3["p_value"])) and len(l2["permuted_statistics"]) == len(l3["permuted_statistics"]) and all(eqf(float(x), float(y)) for x, y in zip(l2["permuted_statistics"], l3["permuted_statistics"]))
        if not same:
            ck.violation(dict(clause="own-parameters", scenario="callback-reused", detector=nb_), dict(what="a permutation callback used with one detector and then attached to another builds the second detector's null distribution differently from a new callback", first=na, first_args=kwa, second=nb_, second_args=kwb, random_state=rs, X_ref=X.tolist(), X_test=Y.tolist(), p_reused=float(l2["p_value"]), p_new=float(l3["p_value"]), null_reused=[float(x) for x in l2["permuted_statistics"][:6]], null_new=[float(x) for x in l3["permuted_statistics"][:6]]))

    # ---- several callback OBJECTS alive at once (two on one detector with different methods, then another detector with its
    # own): each callback's logs are its own - the p-value of ITS method over ITS null statistics -, and are not rewritten
    # by a later compare elsewhere.  And a parameter assigned through the public setter BETWEEN fit() and compare(): the null
    # distribution is built with the parameters compare itself uses (own generator, continued)
    def _lg(l):
        return (float(l["observed_statistic"]), [float(x) for x in l["permuted_statistics"]], float(l["p_value"]))

    def _same_lg(a, b_):
        return eqf(a[0], b_[0]) and len(a[1]) == len(b_[1]) and all(eqf(x, y) for x, y in zip(a[1], b_[1])) and eqf(a[2], b_[2])

    for name_, kw_ in (("PSI", dict(num_bins=6)), ("EMD", dict())):
        X = np.array([prng.gauss(0, 1) for _ in range(13)])
        Y = np.array([prng.gauss(0.6, 1.2) for _ in range(10)])
        rs = prng.randrange(1, 1000)
        try:
            ca, cb2 = _PT(num_permutations=15, random_state=rs, method="conservative", name="A"), _PT(num_permutations=9, random_state=rs + 1, method="estimate", name="B")
            d = det_class(name_)(callbacks=[ca, cb2], **kw_)
            d.fit(X=X)
            _, lg = d.compare(X=Y)
            la, lb = _lg(lg["A"]), _lg(lg["B"])
            cc = _PT(num_permutations=7, random_state=rs + 2, method="conservative", name="C")
            other = det_class("EnergyDistance")(callbacks=[cc])
            other.fit(X=Y)
            other.compare(X=X)
            la_after, lb_after = _lg(ca.logs), _lg(cb2.logs)
            sa = det_class(name_)(callbacks=[_PT(num_permutations=15, random_state=rs, method="conservative", name="A")], **kw_)
            sa.fit(X=X)
            la_single = _lg(sa.compare(X=Y)[1]["A"])
            sb = det_class(name_)(callbacks=[_PT(num_permutations=9, random_state=rs + 1, method="estimate", name="B")], **kw_)
            sb.fit(X=X)
            lb_single = _lg(sb.compare(X=Y)[1]["B"])
        except Exception as e:  # noqa: BLE001
            ck.violation(dict(clause="raises", scenario="several-callbacks", detector=name_), dict(detector=name_, error=repr(e), X_ref=X.tolist(), X_test=Y.tolist()))
            continue
        ck.case(dict(kind="several-callbacks-alive", detector=name_), nontrivial=True, key=repr(("several", name_, X.tolist())))
        ck.count("several_callbacks_cases")
        for nm, got, want, why in (("A", la, la_single, "two callbacks on one detector"), ("B", lb, lb_single, "two callbacks on one detector"),
                                   ("A", la_after, la_single, "after another detector with its own callback ran"), ("B", lb_after, lb_single, "after another detector with its own callback ran")):
            if not _same_lg(got, want):
                ck.violation(dict(clause="p-value-formula", scenario="several-callbacks", callback=nm, detector=name_),
                             dict(what=f"with several permutation callbacks alive ({why}) the logs of callback {nm} are not those of that callback used alone (its own method, number of permutations and random_state)", detector=name_, args=kw_, random_state=rs, X_ref=X.tolist(), X_test=Y.tolist(),
                                  p=got[2], p_alone=want[2], num_null=len(got[1]), num_null_alone=len(want[1])))
                break
    for name_, nb0, nb1 in (("PSI", 9, 4), ("HellingerDistance", 3, 8)):
        X = np.array([prng.gauss(0, 1) for _ in range(16)])
        Y = np.array([prng.gauss(0.9, 1.0) for _ in range(12)])
        rs = prng.randrange(1, 1000)
        try:
            d = det_class(name_)(num_bins=nb0, callbacks=[_PT(num_permutations=12, random_state=rs, name="perm")])
            d.fit(X=X)
            d.num_bins = nb1
            got = _lg(d.compare(X=Y)[1]["perm"])
            f = det_class(name_)(num_bins=nb1, callbacks=[_PT(num_permutations=12, random_state=rs, name="perm")])
            f.fit(X=X)
            want = _lg(f.compare(X=Y)[1]["perm"])
        except Exception as e:  # noqa: BLE001
            ck.violation(dict(clause="raises", scenario="setter-between-fit-and-compare", detector=name_), dict(detector=name_, error=repr(e)))
            continue
        ck.case(dict(kind="setter-between-fit-and-compare", detector=name_, num_bins=[nb0, nb1]), nontrivial=True, key=repr(("setfc", name_, nb0, nb1)))
        ck.count("setter_between_fit_and_compare_cases")
        if not _same_lg(got, want):
            ck.violation(dict(clause="own-parameters", scenario="setter-between-fit-and-compare", detector=name_),
                         dict(what="num_bins assigned between fit() and compare(): the callback's null statistics / p-value are not those of a detector constructed with the new value", detector=name_, num_bins_at_fit=nb0, num_bins_at_compare=nb1, random_state=rs,
                              X_ref=X.tolist(), X_test=Y.tolist(), observed=got[0], observed_expected=want[0], null=got[1][:6], null_expected=want[1][:6], p=got[2], p_expected=want[2]))

    # ---- random_state given as a NumPy integer (np.int64 / np.int32 / np.uint8): a fixed seed is a fixed seed - two runs agree with
    # each other and with the run seeded by the Python int of the same value (deterministic)
    Xs = np.array([0.1 * ((7 * i) % 17) for i in range(15)])
    Ys = np.array([0.9 + 0.1 * ((5 * i) % 13) for i in range(12)])
    for dt in (np.int64, np.int32, np.uint8):
        try:
            outs = []
            for rsv in (dt(9), dt(9), 9):
                np.random.seed(12345 + len(outs))   # the global generator in a different state before every run
                dd = det_class("EMD")(callbacks=[_PT(num_permutations=14, random_state=rsv, name="perm")])
                dd.fit(X=Xs)
                outs.append(_lg(dd.compare(X=Ys)[1]["perm"]))
        except Exception as e:  # noqa: BLE001
            ck.violation(dict(clause="raises", scenario="numpy-integer-seed", dtype=dt.__name__), dict(error=repr(e), dtype=dt.__name__))
            continue
        ck.case(dict(kind="numpy-integer-seed", dtype=dt.__name__), nontrivial=True, key=repr(("npseed", dt.__name__)))
        ck.count("numpy_integer_seed_cases")
        if not (_same_lg(outs[0], outs[1]) and _same_lg(outs[0], outs[2])):
            ck.violation(dict(clause="repeatable", scenario="numpy-integer-seed", dtype=dt.__name__),
                         dict(what="random_state given as a NumPy integer: two runs with the same seed differ, or differ from the run seeded with the Python int of that value", dtype=dt.__name__, p_values=[o[2] for o in outs], null_heads=[o[1][:4] for o in outs]))

    # ---- D
    ck.rule("D: num_jobs in {1,2,3} (and -1 once per detector in thorough) and a repeated run, fixed random_state (0 over-represented: a legal seed), the global generator left in a different state before every run: observed, every null statistic and the p-value must be identical")
    for name in ALL:
        for i in range(1 if not thorough else 4):
            spec = pick_spec(rng, name)
            n, m = rng.choice([(8, 6), (12, 9)])
            X, Y = gen_data(rng, name, rng.choice(["shift", "uniform"]), n, m)
            cfg = dict(num_permutations=rng.choice([7, 16]), total=rng.choice([None, 40]), method=rng.choice(["exact", "conservative", "estimate"]), random_state=rng.choice([0, 0, rng.randrange(1, 1000)]))
            jobs = [1, 2, 3, 1] + ([-1] if thorough and i == 0 else [])
            check_jobs(ck, name, spec, X, Y, cfg, jobs)
    # unseeded runs are NOT required to repeat; nothing to check there.


def main(tier, seed):
    ck = Check("C13", tier, seed)
    ck.proof = check_props("C13")
    ck.assumptions = [
        "np.random.permutation returns a permutation of its argument and, after np.random.seed(s), a sequence determined by s (NumPy's generator is not modelled; the draws are recorded and checked to be permutations on every run)",
        "multiprocessing.Pool.starmap_async(...).get() returns results in input order (premise of C13_null_statistics / C13_pmap_schedule_independent; exercised with num_jobs 1,2,3,-1)",
        "scipy.stats.binom.cdf and scipy.integrate.quad are accurate to 1e-9 relative on these inputs (the model uses the exact sum and the exact polynomial integral over Q)",
        "range and formula theorems are over R (classical reals, Coquelicot's RInt) and transferred to the rational terms the check evaluates by C13_Q_denotes_R",
    ]
    run(ck)
    return ck.finish()


def replay(obj):
    """Re-run one recorded failing input against the current code; exit status 1 iff it still fails."""
    if obj.get("kind") == "correspondence-broken":
        obj = dict(obj["first"])
        if "expr" in obj:
            print("model now:", coq_eval("C13_replay", HDR, [obj["expr"]])[0])
        print("recorded disagreement:", {k: v for k, v in obj.items() if k != "expr"})
        return 1
    ck = Check("C13", "replay", 0)
    ck.known = []
    ck.proof = dict(ok=True, theorems=[], axioms=[], log="")
    rk = obj.get("replay_kind")
    if rk == "params":
        check_params(ck, obj["detector"], obj["spec"], setattr_value=obj.get("setattr_value"), setattr_name=obj.get("setattr_name", "num_bins"))
    elif rk == "e2e":
        check_e2e(ck, obj["detector"], obj["spec"], np.array(obj["X_ref"], dtype=float), np.array(obj["X_test"], dtype=float), obj["cfg"], obj.get("data_kind"))
    elif rk == "pvalue":
        import random

        check_grid_point(ck, random.Random(0), obj["method"], obj["b"], obj["m"], obj["m_t"], obj["mode"])
    elif rk == "jobs":
        check_jobs(ck, obj["detector"], obj["spec"], np.array(obj["X_ref"], dtype=float), np.array(obj["X_test"], dtype=float), obj["cfg"], obj["jobs"])
    else:
        print("replay: nothing to re-run in this file")
        return 2
    want = obj.get("signature", {}).get("clause")
    hit = [s for s, _ in ck.violations if want is None or s.get("clause") == want]
    for s, d in ck.violations:
        print("VIOLATION (replay)", s, {k: v for k, v in d.items() if k in ("p", "expected", "logged", "recomputed", "statistical_kwargs", "compare_kwargs", "phipson_smyth")})
    print("reproduced" if hit else "not reproduced")
    return 1 if hit else 0
