"""C14 — batch detectors: compare is pure, misuse is rejected, reset unfits.

17 batch + 2 streaming data-drift detectors x random fit/compare/update/reset histories over a fixed
pool of inputs (arrays of shape (n,), (n,1), (n,k), (n,k,j), 0-d; float/int; lists, tuples, None, Python
and NumPy scalars, and a non-ndarray object exposing .shape).

* correspondence: the Gallina model of the call protocol (Model/Batch.v) is evaluated on the same history;
  per call the outcome class (returns / which exception / "reached NumPy-SciPy") and the state afterwards
  (which input X_ref holds, which one the MMD kernel term belongs to, num_instances, window contents) must
  agree; every call the model sends to the library with the same (class, parameters, reference, sample) must
  give the same implementation result, whatever the history (the model's lib_cmp is a function).
* monitor: the property clauses checked directly on the implementation with oracles that do not use the
  model (deep snapshot of the detector before/after compare, repeat, fresh detector, shape arithmetic).
"""
from __future__ import annotations

import inspect
import json
import math

import numpy as np

from lib import Check, Ctor, check_props, coq_eval, same, z

HDR = """From Coq Require Import ZArith List Bool.
From FV Require Import Py Batch.
Import ListNotations.
Open Scope Z_scope.
Definition A (nd ha : bool) (sh : list Z) (i : Z) : arr Z :=
  {| a_nd := nd; a_attr := ha; a_shape := map Z.to_nat sh; a_id := i |}.
Definition C (k : cls) (prm w : Z) : cfg Z := {| c_cls := k; c_prm := prm; c_win := Z.to_nat w |}.
Definition oid (o : option (arr Z)) : Z := match o with Some a => a_id Z a | None => -1 end.
(* the library, as far as the protocol can see it: results are named by their arguments *)
Definition cmpZ (c : cfg Z) (r : arr Z) (a : option (arr Z)) (X : arr Z) : Z * Z * Z := (a_id Z r, oid a, a_id Z X).
(* assumed: MMD's kernel precomputation raises exactly for an empty sample with chunk_size None (range step 0);
   inputs with more than two axes no longer reach it *)
Definition failsZ (c : cfg Z) (X : arr Z) : bool :=
  match a_shape Z X with O :: _ => true | _ => false end && (c_prm Z c =? 0).
(* assumed: np.sort returns an ndarray of the same shape *)
Definition sortZ (X : arr Z) : arr Z := {| a_nd := true; a_attr := true; a_shape := a_shape Z X; a_id := a_id Z X + 100000 |}.
(* assumed: np.array(queue) succeeds exactly when all elements have one shape *)
Definition stackZ (l : list (arr Z)) : option (arr Z) :=
  match l with
  | [] => None
  | h :: t => if forallb (fun a => list_eqb (a_shape Z a) (a_shape Z h)) t
              then Some {| a_nd := true; a_attr := true; a_shape := length l :: a_shape Z h;
                           a_id := fold_left (fun acc a => acc * 1000 + a_id Z a + 1) l 7 |}
              else None
  end.
Definition obs (l : list (res (out (Z * Z * Z)) * st Z)) :=
  map (fun rs : res (out (Z * Z * Z)) * st Z => let (r, s) := rs in
         (r, oid (s_ref Z s), oid (s_aux Z s), oid (s_iref Z s), oid (s_iaux Z s), Z.of_nat (s_n Z s), map (a_id Z) (s_win Z s))) l.
Definition run (c : cfg Z) (ops : list (op Z)) := obs (trace Z Z (Z * Z * Z) cmpZ failsZ sortZ stackZ c init ops).
"""

BATCH = [
    "AndersonDarlingTest", "BWSTest", "ChiSquareTest", "CVMTest", "KSTest", "KuiperTest", "MannWhitneyUTest", "WelchTTest",
    "BhattacharyyaDistance", "EMD", "EnergyDistance", "HellingerDistance", "HINormalizedComplement", "JS", "KL", "MMD", "PSI",
]
STREAM = ["IncrementalKSTest", "MMDStreaming"]
BINNED = {"BhattacharyyaDistance", "HellingerDistance", "HINormalizedComplement", "JS", "KL", "PSI"}
MULTI = {"MMD", "MMDStreaming"}
DEDICATED = {"MissingFitError", "MismatchDimensionError", "DimensionError", "InsufficientSamplesError"}
POOL_SEED = 20261001


# ------------------------------------------------------------------------------------------------ inputs


class ArrayLike:
    """Not an ndarray, but exposes .shape / .ndim and converts through __array__ (what a pandas Series does)."""

    def __init__(self, a):
        self.a = a
        self.shape = a.shape
        self.ndim = a.ndim

    def __array__(self, dtype=None, copy=None):
        return self.a if dtype is None else self.a.astype(dtype)

    def __len__(self):
        return len(self.a)

    def __iter__(self):
        return iter(self.a)


class Item:
    """One pool entry: identity `i` stands for the content; `make()` hands out a fresh equal object."""

    def __init__(self, i, kind, base, desc):
        self.i, self.kind, self.base, self.desc = i, kind, base, desc
        # kind: nd | npscalar | arraylike | plain
        if kind == "nd":
            self.shape = tuple(base.shape)
        elif kind == "arraylike":
            self.shape = tuple(base.shape)
        elif kind == "npscalar":
            self.shape = ()
        else:
            self.shape = None

    def make(self):
        if self.kind == "nd":
            return np.array(self.base, copy=True)
        if self.kind == "arraylike":
            return ArrayLike(np.array(self.base, copy=True))
        if self.kind == "plain" and isinstance(self.base, list):
            return list(self.base)
        return self.base

    def coq(self):
        nd = "true" if self.kind == "nd" else "false"
        ha = "false" if self.kind == "plain" else "true"
        sh = "[" + "; ".join(str(k) for k in (self.shape or ())) + "]"
        return f"(A {nd} {ha} {sh} {self.i})"


def content_key(o):
    if isinstance(o, np.ndarray):
        return ("nd", o.shape, o.dtype.kind, o.tobytes())
    if isinstance(o, np.generic):
        return ("npscalar", repr(o.item()))
    if isinstance(o, ArrayLike):
        return ("arraylike",) + content_key(o.a)
    if isinstance(o, (list, tuple)):
        return (type(o).__name__, repr(o))
    return ("py", type(o).__name__, repr(o))


def build_pool():
    """Fixed pool (independent of the run's seed, so a replay needs only the ids)."""
    g = np.random.default_rng(POOL_SEED)
    shapes = (
        [(n,) for n in (0, 1, 2, 3, 5, 6)]
        + [(n, 1) for n in (1, 2, 5, 6)]
        + [(n, 2) for n in (0, 1, 3, 5, 6)]
        + [(n, 3) for n in (2, 5)]
        + [(5, 1, 2), (6, 1, 2), (5, 2, 2), (6, 2, 2), (5, 1, 1), (6, 2, 1), (5, 0), ()]
    )
    items, seen = [], set()

    def add(kind, base, desc):
        k = content_key(base if kind != "arraylike" else ArrayLike(base))
        if k in seen:
            return
        seen.add(k)
        items.append(Item(len(items) + 1, kind, base, desc))

    for sh in shapes:
        for v in range(2 if len(sh) <= 2 else 1):
            add("nd", np.asarray(np.round(g.normal(loc=v, size=sh), 3)), f"float{sh}")
        if len(sh) <= 2 and sh not in ((0,), (0, 2), (5, 0), ()):
            add("nd", g.integers(0, 4, size=sh), f"int{sh}")
    # heavy ties / constant samples
    add("nd", np.array([1.5] * 5), "float(5,) constant")
    add("nd", np.array([0.0, 0.0, 1.0, 1.0, 1.0, 2.0]), "float(6,) ties")
    # non-arrays
    add("plain", [0.5, 1.5, 2.5, 3.5, 4.5], "list")
    add("plain", (0.5, 1.5, 2.5), "tuple")
    add("plain", None, "None")
    for f in (0.25, 1.75, -0.5, 2.125, 3.5, 0.625):
        add("plain", f, "float")
    for k in (7, 9):
        add("plain", k, "int")
    add("npscalar", np.float64(2.5), "np.float64")
    add("arraylike", np.round(g.normal(size=(6,)), 3), "array-like(6,)")
    add("arraylike", np.round(g.normal(size=(5,)), 3), "array-like(5,)")
    add("arraylike", np.round(g.normal(size=(5, 2)), 3), "array-like(5,2)")
    return items


POOL = build_pool()
BY_ID = {it.i: it for it in POOL}
BY_CONTENT = {content_key(it.make()): it.i for it in POOL}
SORT_OFF = 100000
for _it in POOL:  # np.sort(X) of every array(-like) entry, for IncrementalKSTest.X_ref
    if _it.kind in ("nd", "arraylike") and _it.shape != ():
        BY_CONTENT.setdefault(("sorted",) + content_key(np.sort(np.asarray(_it.base))), _it.i + SORT_OFF)


def ident(o):
    """Pool id of an object held by a detector (by content), None for None, -2 if unknown."""
    if o is None:
        return -1
    k = content_key(o)
    if k in BY_CONTENT:
        return BY_CONTENT[k]
    return -2


def ident_sorted(o):
    if o is None:
        return -1
    if isinstance(o, np.ndarray):
        k = ("sorted",) + content_key(o)
        if k in BY_CONTENT:
            return BY_CONTENT[k]
    return -2


# ------------------------------------------------------------------------------------------------ detectors


def make_detector(name, prm, win):
    from frouros.detectors.data_drift import batch, streaming

    if name == "IncrementalKSTest":
        return streaming.IncrementalKSTest(window_size=win)
    if name == "MMDStreaming":
        return streaming.MMD(window_size=win, chunk_size=None if prm == 0 else 2)
    cls = getattr(batch, name)
    if name == "MMD":
        return cls(chunk_size=None if prm == 0 else 2)
    if name in BINNED:
        return cls(num_bins=10 if prm == 0 else 4)
    return cls()


def canon(r):
    if r is None:
        return None
    if hasattr(r, "_asdict"):
        return [canon(v) for v in r]
    if hasattr(r, "statistic") and hasattr(r, "p_value"):
        return [canon(r.statistic), canon(r.p_value)]
    if hasattr(r, "distance"):
        return [canon(r.distance)]
    a = np.asarray(r)
    if a.dtype == object:
        return repr(r)
    return a.astype(float).tolist()


def snap(o, depth=0):
    """Deep, comparable picture of everything a detector holds."""
    if depth > 8:
        return "..."
    if isinstance(o, np.ndarray):
        return ("nd", o.shape, str(o.dtype), o.tobytes())
    if isinstance(o, (bool, int, float, str, type(None), np.generic)):
        return ("v", type(o).__name__, repr(o))
    if isinstance(o, (list, tuple)):
        return (type(o).__name__, tuple(snap(x, depth + 1) for x in o))
    if isinstance(o, dict):
        return ("d", tuple(sorted((str(k), snap(v, depth + 1)) for k, v in o.items())))
    if inspect.isroutine(o) or isinstance(o, type):
        return ("fn", getattr(o, "__qualname__", repr(o)))
    if hasattr(o, "__dict__"):
        return ("obj", type(o).__name__, snap(vars(o), depth + 1))
    return ("repr", repr(o))


def queue_fifo(q):
    return [q.queue[(q.first + i) % q.max_len] for i in range(q.count)] if q.max_len else []


def kxx(a):
    from scipy.spatial.distance import cdist

    x = np.asarray(a, dtype=float)
    if x.ndim == 1:
        x = x[:, None]
    n = len(x)
    k = np.exp(-cdist(x, x, "sqeuclidean") / 2.0).sum() if n else 0.0
    with np.errstate(all="ignore"):
        return (np.float64(k) - n) / np.float64(n * (n - 1))


def state_of(name, d):
    """(ref id, inner ref id, n, window ids, kernel term, inner kernel term) of the implementation."""
    if name == "IncrementalKSTest":
        return dict(ref=ident_sorted(d.X_ref), iref=-1, n=d.num_instances, win=[ident(v) for v in queue_fifo(d.X_queue)], aux=None, iaux=None)
    if name == "MMDStreaming":
        return dict(ref=ident(d.X_ref), iref=ident(d.mmd.X_ref), n=d.num_instances, win=[ident(v) for v in queue_fifo(d.X_queue)], aux=None, iaux=d.mmd._expected_k_xx)
    return dict(ref=ident(d.X_ref), iref=-1, n=0, win=[], aux=getattr(d, "_expected_k_xx", None), iaux=None)


def call(d, op, item):
    """Apply one op; returns ('ok', canonical result) or ('exc', class name, message)."""
    try:
        if op == "Fit":
            d.fit(X=item.make())
            return ("ok", None)
        if op == "Cmp":
            r = d.compare(X=item.make())
            return ("ok", canon(r[0]))
        if op == "Upd":
            r = d.update(value=item.make())
            return ("ok", canon(r[0]))
        d.reset()
        return ("ok", None)
    except Exception as e:  # noqa: BLE001
        return ("exc", type(e).__name__, str(e)[:120])


def dedicated(out):
    return out[0] == "exc" and (out[1] in DEDICATED or (out[1] == "TypeError" and "X must be a numpy array" in out[2]))


def same_out(a, b):
    if a[0] != b[0]:
        return False
    if a[0] == "exc":
        return a[1] == b[1]
    return same(a[1], b[1], rtol=1e-12, atol=0.0)


def dims_differ(r, x):
    return len(r) != len(x) or tuple(r[1:]) != tuple(x[1:])


# ------------------------------------------------------------------------------------------------ cases


def gen_case(rng, name):
    """A history of <= 12 calls.  Boundary situations are over-represented: histories starting with
    compare/update (unfitted), reset directly followed by compare, the same sample compared repeatedly,
    refits, (n,1) vs (n,), (n,1,j), empty and single-row samples, non-arrays."""
    streaming = name in STREAM
    multi = name in MULTI
    prm = rng.choice([0, 0, 1]) if (name in BINNED or multi) else 0
    win = rng.choice([1, 2, 3]) if streaming else 0
    nd = [it for it in POOL if it.kind == "nd"]
    if multi and rng.random() < 0.6:
        base = rng.choice([(2,), (2,), (3,), (1,)])
    else:
        base = rng.choice([(), (), (), (1,)])
    compat = [it for it in nd if len(it.shape) >= 1 and it.shape[1:] == base]
    odd = [it for it in POOL if it not in compat]
    scalars = [it for it in POOL if it.kind == "plain" and isinstance(it.base, (int, float)) and not isinstance(it.base, bool)]
    vectors = [it for it in nd if len(it.shape) == 1 and base and it.shape[0] == base[0]]

    def pick():
        r = rng.random()
        if r < 0.62 and compat:
            return rng.choice(compat)
        if r < 0.85:
            return rng.choice(nd)
        return rng.choice(odd)

    def pick_val():
        if base and vectors and rng.random() < 0.8:
            return rng.choice(vectors)
        if rng.random() < 0.93:
            return rng.choice(scalars)
        return rng.choice(vectors or scalars)

    n_ops = rng.choice([1, 2, 3, 4, 6, 8, 10, 12, 12])
    ops = []
    start_unfitted = rng.random() < 0.3
    last_x = None
    fitted = False  # guess, only to steer the generator
    for k in range(n_ops):
        r = rng.random()
        if k == 0 and not start_unfitted:
            op = "Fit"
        elif not fitted and k > 0 and ops[-1][0] != "Rst" and rng.random() < 0.6:
            op = "Fit"
        elif streaming:
            if name == "MMDStreaming":
                op = "Fit" if r < 0.15 else "Upd" if r < 0.6 else "Cmp" if r < 0.9 else "Rst"
            else:
                op = "Fit" if r < 0.15 else "Upd" if r < 0.82 else "Cmp" if r < 0.87 else "Rst"
        else:
            op = "Fit" if r < 0.18 else "Cmp" if r < 0.86 else "Rst" if r < 0.96 else "Upd"
        if ops and ops[-1][0] == "Rst" and rng.random() < 0.5:
            op = "Upd" if name == "IncrementalKSTest" else "Cmp"
        if op == "Rst":
            ops.append(("Rst", None))
            fitted = False
        elif op == "Upd":
            ops.append(("Upd", pick_val().i))
        elif op == "Fit":
            it = rng.choice(compat) if (compat and rng.random() < 0.8) else pick()
            fitted = it in compat and (multi or not it.shape[1:] or it.shape[1:] == (1,))
            ops.append((op, it.i))
        else:
            it = last_x if (last_x is not None and rng.random() < 0.25) else pick()
            last_x = it
            ops.append((op, it.i))
    return dict(detector=name, prm=prm, win=win, ops=ops)


def coq_case(case):
    name = case["detector"]
    ops = []
    for op, i in case["ops"]:
        ops.append("Rst" if op == "Rst" else f"{op} {BY_ID[i].coq()}")
    return f"run (C {name} {z(case['prm'])} {z(case['win'])}) [" + "; ".join(ops) + "]"


def describe_case(case):
    return dict(
        detector=case["detector"], prm=case["prm"], window_size=case["win"], pool_seed=POOL_SEED,
        ops=[[op, i, (BY_ID[i].desc if i else None)] for op, i in case["ops"]],
    )


# ------------------------------------------------------------------------------------------------ one case on the implementation


class Funcs:
    """Every library-reaching call, keyed by what the property says the result may depend on."""

    def __init__(self):
        self.table = {}

    def check(self, key, out):
        if key in self.table:
            return same_out(self.table[key], out), self.table[key]
        self.table[key] = out
        return True, out


def run_impl(ck, case, funcs, rng, monitor=True):
    """Runs the history; returns per-step records [(outcome, state)] and reports monitor violations."""
    name, prm, win = case["detector"], case["prm"], case["win"]
    d = make_detector(name, prm, win)
    univ = name not in MULTI
    recs = []
    ref = None  # oracle's belief: pool id of the reference (None = unfitted)
    limbo = False  # a fit died inside the library: the property says nothing about the state
    lib_values = ded = 0
    for k, (op, i) in enumerate(case["ops"]):
        item = BY_ID.get(i)
        has = {"Fit": True, "Rst": True, "Cmp": hasattr(d, "compare"), "Upd": hasattr(d, "update")}[op]
        before = snap(d) if (monitor and op in ("Cmp", "Fit")) else None
        out = call(d, op, item)
        st = state_of(name, d)
        recs.append((out, st))
        ck.count("op_" + op)
        ck.count("out_" + ("value" if out[0] == "ok" and out[1] is not None else "none" if out[0] == "ok" else out[1] if dedicated(out) or out[1] in ("AttributeError",) else "library_exception"))
        if dedicated(out):
            ded += 1
        detail = dict(describe_case(case), step=k, op=op, input=(item.desc if item else None), outcome=list(out))

        def viol(sig, what):
            ck.violation(dict(sig, detector=name), dict(detail, what=what))

        if not monitor or not has:
            if op == "Rst":
                ref, limbo = None, False
            continue
        # ---- the clauses, on the implementation ------------------------------------------------
        if op == "Cmp":
            after = snap(d)
            if after != before:
                viol(dict(clause="pure", outcome="returns" if out[0] == "ok" else "raises"), "compare changed the detector (deep snapshot of all attributes differs)")
            if not limbo and ref is not None and st["ref"] != ref:
                viol(dict(clause="ref-untouched"), f"X_ref no longer holds the fitted reference (pool id {ref}) after compare")
            again = call(d, "Cmp", item)
            if not same_out(out, again):
                viol(dict(clause="repeatable"), f"the same compare call repeated gives {again!r}")
            if snap(d) != before:
                viol(dict(clause="pure", outcome="repeat"), "second compare changed the detector")
            if ref is None and not limbo:
                if not (out[0] == "exc" and out[1] == "MissingFitError"):
                    viol(dict(clause="needs-fit", op="compare"), "compare on an unfitted detector did not raise MissingFitError")
            elif not limbo:
                r_it = BY_ID[ref % SORT_OFF]
                if item.kind == "plain" or item.kind == "npscalar":
                    if out[0] != "exc":
                        viol(dict(clause="non-array", op="compare", input=item.desc), "non-array test sample was not rejected")
                elif item.kind == "nd":
                    if dims_differ(r_it.shape, item.shape):
                        if not (out[0] == "exc" and out[1] == "MismatchDimensionError"):
                            cause = "cvm-override" if name == "CVMTest" else (
                                "axis1-only" if len(r_it.shape) >= 2 and len(item.shape) >= 2 and r_it.shape[1] == item.shape[1] else "other")
                            viol(dict(clause="dim-mismatch", cause=cause),
                                 f"reference shape {r_it.shape}, test shape {item.shape}: MismatchDimensionError expected")
                    elif out[0] == "ok" or not dedicated(out):
                        lib_values += out[0] == "ok"
                        ok, first = funcs.check((name, prm, ref, item.i), out)
                        if not ok:
                            viol(dict(clause="functional"), f"same (parameters, reference {ref}, sample {item.i}) gave {first!r} in another history")
                        if out[0] == "ok" and rng.random() < 0.5:
                            f = make_detector("MMD" if name == "MMDStreaming" else name, prm, win)
                            o2 = call(f, "Fit", r_it)
                            o3 = call(f, "Cmp", item) if o2[0] == "ok" else o2
                            if not same_out(out, o3):
                                viol(dict(clause="functional", oracle="fresh-detector"), f"a new detector fitted on the same reference gives {o3!r}")
                else:
                    ck.count("arraylike_at_compare_" + ("accepted" if out[0] == "ok" or not dedicated(out) else "rejected"))
        elif op == "Upd":
            if ref is None and not limbo and not (out[0] == "exc" and out[1] == "MissingFitError"):
                viol(dict(clause="needs-fit", op="update"), "update on an unfitted detector did not raise MissingFitError")
            if out[0] == "ok" and out[1] is not None:
                lib_values += 1
        elif op == "Fit":
            if item.kind in ("plain", "npscalar"):
                if out[0] != "exc":
                    viol(dict(clause="non-array", op="fit", input=item.desc), "non-array reference was not rejected")
                elif snap(d) != before:
                    viol(dict(clause="non-array", op="fit", input=item.desc, effect="state-changed"), "rejected fit changed the detector")
            if out[0] == "ok":
                if not isinstance(d.X_ref, np.ndarray):
                    viol(dict(clause="non-array", op="fit", input="array-like"), f"fit stored a {type(d.X_ref).__name__} as X_ref (not an ndarray)")
                if univ and item.kind == "nd" and len(item.shape) >= 2 and math.prod(item.shape[1:]) > 1:
                    viol(dict(clause="univariate-multicolumn", cause="axis1-only" if item.shape[1] == 1 else "other"),
                         f"univariate detector accepted shape {item.shape}")
                ref, limbo = (i + SORT_OFF if name == "IncrementalKSTest" else i), False
                if st["ref"] != ref:
                    viol(dict(clause="fit-ref"), f"after fit X_ref does not hold the {'sorted ' if name == 'IncrementalKSTest' else ''}input")
            else:
                if univ and item.kind == "nd" and len(item.shape) >= 2 and math.prod(item.shape[1:]) > 1 and out[1] != "DimensionError":
                    viol(dict(clause="univariate-multicolumn", cause="wrong-exception"), f"shape {item.shape}: DimensionError expected")
                if not dedicated(out) and out[1] != "AttributeError" and name in MULTI:
                    limbo = True
        else:  # Rst
            ref, limbo = None, False
            bad = d.X_ref is not None or (name in STREAM and d.num_instances != 0) or (name == "MMDStreaming" and d.mmd.X_ref is not None)
            if bad or out[0] != "ok":
                viol(dict(clause="reset"), "after reset the detector is not unfitted")
    return recs, lib_values, ded


# ------------------------------------------------------------------------------------------------ model vs implementation


def model_outcome(r):
    """Ctor -> ('none',) | ('lib', key) | ('raise', name)."""
    if r.name == "Raise":
        return ("raise", r.args[0].name)
    a = r.args[0]
    if a.name == "ONone":
        return ("none",)
    return ("lib", tuple(a.args[0]))


def compare_case(ck, case, recs, mrecs, funcs_m):
    name = case["detector"]
    if len(recs) != len(mrecs):
        ck.mismatch("trace length", dict(describe_case(case)))
        return
    for k, ((out, st), m) in enumerate(zip(recs, mrecs)):
        mo = model_outcome(m[0])
        mref, maux, miref, miaux, mn, mwin = m[1], m[2], m[3], m[4], m[5], list(m[6])
        det = dict(describe_case(case), step=k, impl_outcome=list(out), model_outcome=list(mo))
        ok = True
        if mo[0] == "none":
            ok = out[0] == "ok" and out[1] is None
        elif mo[0] == "raise":
            if mo[1] == "OtherError":
                ok = out[0] == "exc" and not dedicated(out)
            elif mo[1] == "TypeError":
                ok = dedicated(out) and out[1] == "TypeError"
            else:
                ok = out[0] == "exc" and out[1] == mo[1]
        else:
            ok = (out[0] == "ok" and out[1] is not None) or (out[0] == "exc" and not dedicated(out))
            if ok:
                # the streaming MMD hands both compare and update to a batch MMD with the same parameters
                key = (("MMD", case["prm"], 0) if name in MULTI else (name, case["prm"], case["win"])) + mo[1]
                if key in funcs_m:
                    if not same_out(funcs_m[key][0], out):
                        ck.mismatch("library result is not a function of the model's arguments", dict(det, key=list(map(str, key)), other=list(funcs_m[key][0]), other_case=funcs_m[key][1]))
                else:
                    funcs_m[key] = (out, describe_case(case))
        if not ok:
            ck.mismatch("outcome class", det)
            return
        # state after the call
        if name in BATCH:
            sok = st["ref"] == mref
            aux_i, aux_m = st["aux"], maux
        elif name == "IncrementalKSTest":
            sok = st["ref"] == mref and st["n"] == mn and st["win"] == mwin
            aux_i, aux_m = None, -1
        else:
            sok = st["ref"] == mref and st["iref"] == miref and st["n"] == mn and st["win"] == mwin
            aux_i, aux_m = st["iaux"], miaux
        if sok and name in MULTI:
            if aux_m == -1:
                sok = aux_i is None
            else:
                sok = aux_i is not None and same(float(aux_i), float(kxx(BY_ID[aux_m].base)), rtol=1e-9, atol=1e-12)
        if not sok:
            ck.mismatch("state after call", dict(det, impl_state={k2: (v if not isinstance(v, np.generic) else float(v)) for k2, v in st.items()},
                                                 model_state=dict(ref=mref, aux=maux, iref=miref, iaux=miaux, n=mn, win=mwin)))
            return
    ck.corr_cases += 1


def run(ck: Check):
    rng = ck.rng
    per = 90 if ck.tier != "thorough" else 700
    ck.rule(
        "19 detectors x random histories (1..12 calls) over a fixed pool of "
        f"{len(POOL)} inputs: float/int arrays of shape (n,), (n,1), (n,2), (n,3), (n,k,j), (n,0), 0-d with n in 0,1,2,3,5,6 (BWS exact regime), "
        "lists, tuple, None, Python float/int, np.float64, array-like non-ndarrays; 62% of the samples share the per-row shape of the case, the rest is arbitrary; "
        "30% of the histories start unfitted, reset is followed by compare/update half of the time, a quarter of the compares repeat the previous sample; "
        "num_bins in {10,4}, chunk_size in {None,2}, window_size in {1,2,3}; "
        "non-trivial = a history with at least one library result and at least one dedicated exception"
    )
    cases = []
    for name in BATCH + STREAM:
        for _ in range(per):
            cases.append(gen_case(rng, name))
    # the inputs of the four repaired defects (F24 and companions), always exercised so that a regression is reported
    f6 = next(it.i for it in POOL if it.desc == "float(6,)")
    f62 = next(it.i for it in POOL if it.desc == "float(6, 2)")
    f61 = next(it.i for it in POOL if it.desc == "float(6, 1)")
    f512 = next(it.i for it in POOL if it.desc == "float(5, 1, 2)")
    f522 = next(it.i for it in POOL if it.desc == "float(5, 2, 2)")
    al6 = next(it.i for it in POOL if it.desc == "array-like(6,)")
    for name in BATCH:
        if name == "MMD":
            cases.append(dict(detector=name, prm=0, win=0, ops=[("Fit", f62), ("Cmp", f522), ("Fit", f522), ("Cmp", f62)]))
        else:
            cases.append(dict(detector=name, prm=0, win=0, ops=[("Fit", f6), ("Cmp", f62), ("Fit", f61), ("Cmp", f512), ("Fit", f512), ("Rst", None), ("Fit", al6)]))
    cases.append(dict(detector="IncrementalKSTest", prm=0, win=2, ops=[("Fit", f512), ("Rst", None), ("Fit", al6), ("Fit", f62)]))
    cases.append(dict(detector="MMDStreaming", prm=0, win=2, ops=[("Fit", f62), ("Cmp", f522), ("Fit", f522), ("Cmp", f62), ("Rst", None), ("Cmp", f62)]))
    funcs, funcs_m = Funcs(), {}
    impl = []
    for case in cases:
        recs, libv, ded = run_impl(ck, case, funcs, rng)
        impl.append(recs)
        ck.case(describe_case(case), nontrivial=libv > 0 and ded > 0, key=json.dumps(case, sort_keys=True))
        ck.count("det_" + case["detector"])
    models = coq_eval("C14", HDR, [coq_case(c) for c in cases], shard=400)
    for case, recs, m in zip(cases, impl, models):
        compare_case(ck, case, recs, m, funcs_m)
    run_compare_options(ck)
    run_bws_exact_regime(ck)
    run_unfitted_with_callbacks(ck)
    ck.notes.append(
        "array-like non-ndarrays (objects exposing .shape) are not type-checked by compare in any class; they are compared "
        "with the model (which predicts exactly that) but not flagged: the brief lists lists/None/scalars as the non-array inputs"
    )


# options a detector accepts at compare time: a compare that passes one must not change what later compares return
COMPARE_OPTIONS = {
    "EMD": [dict(v_weights="w"), dict(u_weights="u")],
    "EnergyDistance": [dict(v_weights="w")],
    "KSTest": [dict(alternative="less"), dict(method="asymp")],
    "MannWhitneyUTest": [dict(alternative="less"), dict(use_continuity=False)],
    "WelchTTest": [dict(alternative="greater")],
    "CVMTest": [dict(method="asymptotic")],
    "AndersonDarlingTest": [dict(midrank=False)],
    "BWSTest": [dict(alternative="less")],
    "ChiSquareTest": [dict(correction=False), dict(lambda_="log-likelihood")],
    "JS": [dict(base=2.0)],
}


def run_compare_options(ck):
    """compare(Y); compare(Y, option); compare(Y): the first and third results are equal and the option leaves no
    trace in the detector (deep snapshot)."""
    from frouros.detectors.data_drift import batch

    rng = ck.rng
    nprng = np.random.RandomState(rng.randrange(2**31))
    ck.rule("compare-time options (EMD/energy weights, alternative, method, correction, midrank, base): compare(Y), compare(Y, option), compare(Y) on one detector - results 1 and 3 equal, detector snapshot unchanged by the option call")
    for name, opts in COMPARE_OPTIONS.items():
        cls = getattr(batch, name, None)
        if cls is None:
            continue
        for opt in opts:
            if name == "ChiSquareTest":
                X, Y = nprng.choice(list("abc"), 12), nprng.choice(list("abc"), 9)
            elif name == "BWSTest":
                X, Y = nprng.normal(0, 1, 6), nprng.normal(0.5, 1, 6)
            else:
                X, Y = nprng.normal(0, 1, 12), nprng.normal(0.5, 1, 9)
            kw = {k: (np.linspace(1, 2, len(Y)) if v == "w" else (np.linspace(1, 2, len(X)) if v == "u" else v)) for k, v in opt.items()}
            d = cls()
            detail = dict(detector=name, option={k: (v if isinstance(v, (str, bool, float, int)) else "array") for k, v in kw.items()}, X_ref=[str(v) for v in X], X_test=[str(v) for v in Y])
            try:
                d.fit(X=X)
                r1 = canon(d.compare(X=Y)[0])
                s1 = snap(d)
                d.compare(X=Y, **kw)
                s2 = snap(d)
                r3 = canon(d.compare(X=Y)[0])
            except Exception as e:  # noqa: BLE001
                ck.count("compare_option_calls_raising")
                ck.notes.append(f"compare option {name} {list(opt)} raised {type(e).__name__} (not judged by C14)")
                continue
            ck.case(dict(kind="compare-option", **{k: v for k, v in detail.items() if k in ("detector", "option")}), nontrivial=True, key=repr((name, sorted(opt))))
            ck.count("compare_option_cases")
            if s1 != s2:
                ck.violation(dict(clause="pure", cause="compare-option", detector=name), dict(what="a compare call with an option changed the detector (deep snapshot differs)", **detail))
            elif not same_out(("ok", r1), ("ok", r3)):
                ck.violation(dict(clause="repeatable", cause="compare-option", detector=name), dict(what="compare(Y) before and after a compare(Y, option) differ", first=r1, third=r3, **detail))


def run_bws_exact_regime(ck):
    """BWSTest on sizes with 1000 .. 9999 distinct arrangements (C(14,7) = 3432, C(14,6) = 3003): SciPy's default enumerates
    them all, so the result is exact: repeating compare gives the identical p-value, equal to scipy.stats.bws_test's."""
    import random as _random
    from scipy.stats import bws_test as _bws
    from frouros.detectors.data_drift import BWSTest as _BWS

    prng = _random.Random(141414)
    for n, m in ((7, 7), (6, 8)):
        X = np.array([prng.gauss(0, 1) for _ in range(n)])
        Y = np.array([prng.gauss(0.9, 1) for _ in range(m)])
        try:
            d = _BWS()
            d.fit(X=X)
            np.random.seed(1)
            r1 = d.compare(X=Y)[0]
            np.random.seed(2)
            r2 = d.compare(X=Y)[0]
            e = _bws(X, Y)
        except Exception as ex:  # noqa: BLE001
            ck.violation(dict(clause="raises", detector="BWSTest", scenario="exact-regime"), dict(error=repr(ex), X_ref=X.tolist(), X_test=Y.tolist()))
            continue
        ck.case(dict(kind="bws-exact-regime", n=n, m=m), nontrivial=True, key=repr(("bws-exact", n, m)))
        ck.count("bws_exact_regime_cases")
        if not (float(r1.p_value) == float(r2.p_value) == float(e.pvalue) and float(r1.statistic) == float(r2.statistic) == float(e.statistic)):
            ck.violation(dict(clause="repeatable", detector="BWSTest", regime="exact"), dict(what="BWSTest in the exact regime (all arrangements enumerated) is not repeatable / differs from scipy.stats.bws_test", n=n, m=m, first=[float(r1.statistic), float(r1.p_value)], second=[float(r2.statistic), float(r2.p_value)], scipy=[float(e.statistic), float(e.pvalue)], X_ref=X.tolist(), X_test=Y.tolist()))


def run_unfitted_with_callbacks(ck):
    """needs-fit with callbacks attached: compare() on a detector that was never fitted, that was reset, or that its reset
    callback just un-fitted raises MissingFitError - the same error as without callbacks (deterministic)."""
    from frouros.callbacks import PermutationTestDistanceBased as _PTD, ResetStatisticalTest as _RST
    from frouros.detectors.data_drift import EMD as _EMD, KSTest as _KS, PSI as _PSI
    from frouros.detectors.data_drift.exceptions import MissingFitError as _MFE

    X, Y = np.arange(20, dtype=float), np.arange(20, dtype=float) + 30.0
    makers = [("KSTest+reset", lambda: _KS(callbacks=[_RST(alpha=0.5)])), ("EMD+permutation", lambda: _EMD(callbacks=[_PTD(num_permutations=5, random_state=1)])),
              ("PSI+permutation", lambda: _PSI(callbacks=[_PTD(num_permutations=5, random_state=1)]))]
    for nm, mk in makers:
        for how in ("never-fitted", "after-reset", "after-callback-reset"):
            if how == "after-callback-reset" and "reset" not in nm:
                continue
            try:
                d = mk()
                if how == "after-reset":
                    d.fit(X=X)
                    d.reset()
                elif how == "after-callback-reset":
                    d.fit(X=X)
                    d.compare(X=Y)   # p <= alpha: the callback un-fits the detector
                try:
                    d.compare(X=Y)
                    got = "no exception"
                except _MFE:
                    got = "MissingFitError"
                except Exception as e:  # noqa: BLE001
                    got = type(e).__name__
            except Exception as e:  # noqa: BLE001
                got = "setup raised " + repr(e)
            ck.case(dict(kind="unfitted-with-callbacks", detector=nm, how=how, outcome=got), nontrivial=True, key=repr(("unfit-cb", nm, how)))
            ck.count("unfitted_with_callbacks_cases")
            if got != "MissingFitError":
                ck.violation(dict(clause="needs-fit", scenario="with-callbacks", detector=nm, how=how), dict(what="compare() on an unfitted detector with a callback attached must raise MissingFitError", detector=nm, how=how, outcome=got))


def main(tier, seed):
    ck = Check("C14", tier, seed)
    ck.proof = check_props("C14")
    ck.assumptions = [
        "arrays are abstracted to (is ndarray, has .shape, shape, content identity); what NumPy/SciPy compute from them is universally quantified in the theorems "
        "(lib_cmp, lib_fit_fails, lib_sort, lib_stack) and instantiated in the correspondence check by symbolic names of the arguments",
        "in-place modification of the stored array by NumPy/SciPy cannot be expressed in the model; it is covered only by the content snapshot taken around every compare call of this run",
        "callbacks are not attached in the modelled histories (C17 covers them); the needs-fit clause is also exercised with a reset / permutation callback attached",
        "MMD.fit that dies inside the kernel computation leaves X_ref assigned with the previous kernel term; the functional theorem excludes such histories explicitly (fit_lib_clean) and the monitor skips the clauses about the fitted state after them",
    ]
    run(ck)
    return ck.finish()


def replay(obj):
    """Re-run one recorded history (violation or correspondence detail) and show what the implementation and the model do."""
    d = obj.get("first", obj)
    case = dict(detector=d["detector"], prm=d["prm"], win=d["window_size"], ops=[(o[0], o[1]) for o in d["ops"]])
    ck = Check("C14", "replay", 0)
    import random

    recs, _, _ = run_impl(ck, case, Funcs(), random.Random(0))
    models = coq_eval("C14_replay", HDR, [coq_case(case)])
    for k, ((out, st), m) in enumerate(zip(recs, models[0])):
        print(f"step {k}: {case['ops'][k][0]:3s} {BY_ID[case['ops'][k][1]].desc if case['ops'][k][1] else '':18s} impl={out!r} model={model_outcome(m[0])!r}")
    for sig, detail in ck.violations:
        print("VIOLATION", json.dumps(sig), detail.get("what"))
    compare_case(ck, case, recs, models[0], {})
    for what, _ in ck.corr_fail:
        print("MISMATCH", what)
    return 1 if (ck.violations or ck.corr_fail) else 0
