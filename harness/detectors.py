"""Registry of the 13 streaming concept-drift detectors: how to build the implementation,
how to write the model's configuration in Gallina, which observables are compared."""
from __future__ import annotations

import math
from fractions import Fraction

import numpy as np

from lib import HEADER, coq_eval, first_diff, fl, fl_list, z, z_list

HDR = HEADER + "From FV Require Import Queue Stats Detector Cusum SPC HDDM KS Window ADWIN BOCD Obs.\n"

INF = math.inf


def _f(x):
    return None if x is None else float(x)


class Det:
    name = ""
    domain = "01"  # '01' | 'unit' | 'real' | 'nonneg'
    has_warning = True
    status_warning = True
    uses_transcendentals = False

    def make(self, cfg, callbacks=None):
        raise NotImplementedError

    def coq_cfg(self, cfg):
        raise NotImplementedError

    coq_D = ""
    coq_obs = ""

    def stats(self, d):
        return []

    def gen_cfg(self, rng):
        raise NotImplementedError

    def warm(self, cfg):
        return cfg["min_num_instances"]

    # -- implementation run
    def observe(self, d):
        return (bool(d.drift), bool(getattr(d, "warning", False)), int(d.num_instances), [_f(x) for x in self.stats(d)])

    def coq_ops(self, ops, extra=None):
        if all(o == "R" or o in (0, 1) for o in ops) and not any(isinstance(o, float) for o in ops):
            return "ops_of_codes " + z_list([2 if o == "R" else int(o) for o in ops])
        xs = [o for o in ops if o != "R"]
        resets = []
        i = 0
        for o in ops:
            if o == "R":
                resets.append(i)
            else:
                i += 1
        # consecutive resets collapse in this encoding; callers avoid them
        return f"ops_of_floats {fl_list(xs)} 0 {z_list(resets)}"


def run_impl(det: Det, cfg, ops, callbacks=None, d=None, probe=None, probes=None):
    """Run the implementation; returns (list of observations after every op, exception or None, detector).
    `probe(d)` results are appended to the list `probes` after every op."""
    if isinstance(det, KSWINDet) and d is None:
        out, exc, samples = run_kswin(det, cfg, ops, callbacks, probe=probe, probes=probes)
        return out, exc, samples
    d = d or det.make(cfg, callbacks)
    out = []
    for o in ops:
        try:
            if o == "R":
                d.reset()
            else:
                d.update(value=o)
        except Exception as e:  # noqa: BLE001
            return out, e, d
        out.append(det.observe(d))
        if probe is not None:
            probes.append(probe(d))
    return out, None, d


# --------------------------------------------------------------------------- the detectors


class CusumBase(Det):
    domain = "real"
    has_warning = False
    status_warning = False
    coq_D = "(CusumD FloatA)"
    coq_cfg_ty = "cusum_cfg FloatA"
    coq_obs = "obs_cusum"
    kind = ""

    def stats(self, d):
        return [d.mean_error_rate.mean, d.sum_]

    def coq_cfg(self, c):
        return (
            f"{{| ck_kind := {self.kind}; ck_min := {z(c['min_num_instances'])}; ck_lambda := {fl(c['lambda_'])}; "
            f"ck_delta := {fl(c.get('delta', 0.0))}; ck_alpha := {fl(c.get('alpha', 0.0))} |}}"
        )


class CUSUMDet(CusumBase):
    name = "CUSUM"
    kind = "KCusum"

    def make(self, c, callbacks=None):
        from frouros.detectors.concept_drift import CUSUM, CUSUMConfig

        return CUSUM(config=CUSUMConfig(delta=c["delta"], lambda_=c["lambda_"], min_num_instances=c["min_num_instances"]), callbacks=callbacks)

    def gen_cfg(self, rng):
        return dict(delta=rng.choice([0.0, 1e-9, 0.005, 0.1, 1.0]), lambda_=rng.choice([0.0, 0.5, 2.0, 10.0, 50.0]), min_num_instances=rng.choice([1, 2, 3, 5, 10, 30]))


class PHDet(CusumBase):
    name = "PageHinkley"
    kind = "KPageHinkley"

    def make(self, c, callbacks=None):
        from frouros.detectors.concept_drift import PageHinkley, PageHinkleyConfig

        return PageHinkley(config=PageHinkleyConfig(delta=c["delta"], lambda_=c["lambda_"], alpha=c["alpha"], min_num_instances=c["min_num_instances"]), callbacks=callbacks)

    def gen_cfg(self, rng):
        return dict(
            delta=rng.choice([0.0, 1e-9, 0.005, 0.1, 1.0]),
            lambda_=rng.choice([0.0, 0.5, 2.0, 10.0, 50.0]),
            alpha=rng.choice([0.0, 0.5, 0.9, 0.9999, 1.0]),
            min_num_instances=rng.choice([1, 2, 3, 5, 10, 30]),
        )


class GMADet(CusumBase):
    name = "GeometricMovingAverage"
    kind = "KGMA"

    def make(self, c, callbacks=None):
        from frouros.detectors.concept_drift import GeometricMovingAverage, GeometricMovingAverageConfig

        return GeometricMovingAverage(config=GeometricMovingAverageConfig(alpha=c["alpha"], lambda_=c["lambda_"], min_num_instances=c["min_num_instances"]), callbacks=callbacks)

    def gen_cfg(self, rng):
        return dict(alpha=rng.choice([0.0, 0.5, 0.9, 0.99, 1.0]), lambda_=rng.choice([0.0, 0.1, 0.5, 1.0, 3.0]), min_num_instances=rng.choice([1, 2, 3, 5, 10, 30]))


class DDMDet(Det):
    name = "DDM"
    coq_D = "(DDMD FloatA)"
    coq_cfg_ty = "ddm_cfg FloatA"
    coq_obs = "obs_ddm"

    def make(self, c, callbacks=None):
        from frouros.detectors.concept_drift import DDM, DDMConfig

        return DDM(config=DDMConfig(warning_level=c["warning_level"], drift_level=c["drift_level"], min_num_instances=c["min_num_instances"]), callbacks=callbacks)

    def stats(self, d):
        return [d.error_rate.mean, d.min_error_rate, d.min_std]

    def coq_cfg(self, c):
        return f"{{| dd_warn := {fl(c['warning_level'])}; dd_drift := {fl(c['drift_level'])}; dd_min := {z(c['min_num_instances'])} |}}"

    def gen_cfg(self, rng):
        w = rng.choice([0.1, 0.5, 1.0, 1.773, 2.0])
        return dict(warning_level=w, drift_level=w + rng.choice([1e-6, 0.25, 0.5, 1.0, 2.0]), min_num_instances=rng.choice([1, 2, 3, 5, 10, 30]))


class RDDMDet(Det):
    name = "RDDM"
    coq_D = "(RDDMD FloatA)"
    coq_cfg_ty = "rddm_cfg FloatA"
    coq_obs = "obs_rddm"

    def make(self, c, callbacks=None):
        from frouros.detectors.concept_drift import RDDM, RDDMConfig

        return RDDM(
            config=RDDMConfig(
                warning_level=c["warning_level"],
                drift_level=c["drift_level"],
                max_concept_size=c["max_concept_size"],
                min_concept_size=c["min_concept_size"],
                max_num_instances_warning=c["max_num_instances_warning"],
                min_num_instances=c["min_num_instances"],
            ),
            callbacks=callbacks,
        )

    def stats(self, d):
        return [d.error_rate.mean, d.min_error_rate, d.min_std, d.num_warnings, float(d.rddm_drift), d.predictions.count]

    def coq_cfg(self, c):
        return (
            f"{{| rd_warn := {fl(c['warning_level'])}; rd_drift := {fl(c['drift_level'])}; rd_min := {z(c['min_num_instances'])}; "
            f"rd_max_concept := {z(c['max_concept_size'])}; rd_min_concept := {z(c['min_concept_size'])}; rd_max_warn := {z(c['max_num_instances_warning'])} |}}"
        )

    def gen_cfg(self, rng):
        w = rng.choice([0.1, 0.5, 1.0, 1.773])
        mn = rng.choice([1, 2, 3, 5, 10])
        minc = rng.choice([1, 2, 4, 8, 20])
        return dict(
            warning_level=w,
            drift_level=w + rng.choice([0.1, 0.485, 1.0, 4.0]),
            min_num_instances=mn,
            min_concept_size=minc,
            max_concept_size=minc + rng.choice([1, 5, 30, 1000]),
            max_num_instances_warning=rng.choice([0, 1, 2, 5, 1400]),
        )


class EDDMDet(Det):
    name = "EDDM"
    coq_D = "(EDDMD FloatA)"
    coq_cfg_ty = "eddm_cfg FloatA"
    coq_obs = "obs_eddm"

    def make(self, c, callbacks=None):
        from frouros.detectors.concept_drift import EDDM, EDDMConfig

        return EDDM(config=EDDMConfig(alpha=c["alpha"], beta=c["beta"], level=c["level"], min_num_misclassified_instances=c["min_num_misclassified_instances"]), callbacks=callbacks)

    def stats(self, d):
        return [d.mean_distance_error, d.std_distance_error, d.variance_distance_error, d.max_distance_threshold, d.num_misclassified_instances, d.last_distance_error]

    def coq_cfg(self, c):
        return f"{{| ed_alpha := {fl(c['alpha'])}; ed_beta := {fl(c['beta'])}; ed_level := {fl(c['level'])}; ed_min := {z(c['min_num_misclassified_instances'])} |}}"

    def gen_cfg(self, rng):
        a = rng.choice([0.5, 0.9, 0.95, 0.99, 1.0])
        return dict(alpha=a, beta=a * rng.choice([0.5, 0.9, 0.95, 0.999]), level=rng.choice([0.5, 1.0, 2.0, 3.0]), min_num_misclassified_instances=rng.choice([0, 1, 2, 3, 5, 10, 30]))

    def warm(self, cfg):
        return cfg["min_num_misclassified_instances"]


class ECDDDet(Det):
    name = "ECDDWT"
    coq_D = "(ECDDD FloatA)"
    coq_cfg_ty = "ecdd_cfg FloatA"
    coq_obs = "obs_ecdd"
    uses_transcendentals = True

    def make(self, c, callbacks=None):
        from frouros.detectors.concept_drift import ECDDWT, ECDDWTConfig

        return ECDDWT(
            config=ECDDWTConfig(lambda_=c["lambda_"], average_run_length=c["average_run_length"], warning_level=c["warning_level"], min_num_instances=c["min_num_instances"]),
            callbacks=callbacks,
        )

    def stats(self, d):
        return [d.p.mean, d.z.mean]

    def coq_cfg(self, c):
        return f"{{| ec_lambda := {fl(c['lambda_'])}; ec_arl := {z(c['average_run_length'])}; ec_warn := {fl(c['warning_level'])}; ec_min := {z(c['min_num_instances'])} |}}"

    def gen_cfg(self, rng):
        return dict(
            lambda_=rng.choice([0.0, 0.01, 0.05, 0.2, 0.5, 1.0]),
            average_run_length=rng.choice([100, 400, 1000]),
            warning_level=rng.choice([0.01, 0.5, 0.9, 0.99]),
            min_num_instances=rng.choice([1, 2, 3, 5, 10, 30]),
        )


class HDDMADet(Det):
    name = "HDDMA"
    domain = "unit"
    coq_D = "(HDDMAD FloatA)"
    coq_cfg_ty = "hddma_cfg FloatA"
    coq_obs = "obs_hddma"
    uses_transcendentals = True

    def make(self, c, callbacks=None):
        from frouros.detectors.concept_drift import HDDMA, HDDMAConfig

        return HDDMA(config=HDDMAConfig(alpha_d=c["alpha_d"], alpha_w=c["alpha_w"], two_sided_test=c["two_sided_test"], min_num_instances=c["min_num_instances"]), callbacks=callbacks)

    def stats(self, d):
        t = d.test_type
        y = getattr(t, "y", None)
        return [t.x.mean, t.x.num_values, t.z.mean, t.z.num_values, (y.mean if y is not None else 0.0), (y.num_values if y is not None else 0)]

    def coq_cfg(self, c):
        return f"{{| ha_alpha_d := {fl(c['alpha_d'])}; ha_alpha_w := {fl(c['alpha_w'])}; ha_two := {'true' if c['two_sided_test'] else 'false'}; ha_min := {z(c['min_num_instances'])} |}}"

    def gen_cfg(self, rng):
        ad = rng.choice([1e-6, 0.001, 0.01, 0.1, 0.3])
        return dict(alpha_d=ad, alpha_w=min(1.0, ad * rng.choice([1.5, 5.0, 10.0, 1e9])), two_sided_test=rng.random() < 0.5, min_num_instances=rng.choice([1, 2, 3, 5, 10, 30]))


class HDDMWDet(Det):
    name = "HDDMW"
    domain = "unit"
    coq_D = "(HDDMWD FloatA)"
    coq_cfg_ty = "hddmw_cfg FloatA"
    coq_obs = "obs_hddmw"
    uses_transcendentals = True

    def make(self, c, callbacks=None):
        from frouros.detectors.concept_drift import HDDMW, HDDMWConfig

        return HDDMW(
            config=HDDMWConfig(alpha_d=c["alpha_d"], alpha_w=c["alpha_w"], two_sided_test=c["two_sided_test"], lambda_=c["lambda_"], min_num_instances=c["min_num_instances"]),
            callbacks=callbacks,
        )

    def stats(self, d):
        t = d.test_type
        two = hasattr(t, "sample_decrease_1")
        return [
            t.total.ewma.mean,
            t.total.independent_bound_condition,
            t.sample_increase_1.ewma.mean,
            t.sample_increase_2.ewma.mean,
            t.increase_cut_point,
            t.sample_decrease_1.ewma.mean if two else 0.0,
            t.sample_decrease_2.ewma.mean if two else 0.0,
            t.decrease_cut_point if two else -INF,
        ]

    def coq_cfg(self, c):
        return (
            f"{{| hw_alpha_d := {fl(c['alpha_d'])}; hw_alpha_w := {fl(c['alpha_w'])}; hw_two := {'true' if c['two_sided_test'] else 'false'}; "
            f"hw_lambda := {fl(c['lambda_'])}; hw_min := {z(c['min_num_instances'])} |}}"
        )

    def gen_cfg(self, rng):
        ad = rng.choice([1e-6, 0.001, 0.01, 0.1])
        return dict(
            alpha_d=ad,
            alpha_w=min(1.0, ad * rng.choice([1.5, 5.0, 10.0, 1e9])),
            two_sided_test=rng.random() < 0.5,
            lambda_=rng.choice([0.01, 0.05, 0.2, 0.5, 1.0]),
            min_num_instances=rng.choice([1, 2, 3, 5, 10, 30]),
        )


class ADWINDet(Det):
    name = "ADWIN"
    domain = "nonneg"
    has_warning = False
    status_warning = False
    coq_D = "(ADWIND FloatA)"
    coq_cfg_ty = "adwin_cfg FloatA"
    coq_obs = "obs_adwin"
    uses_transcendentals = True

    def make(self, c, callbacks=None):
        from frouros.detectors.concept_drift import ADWIN, ADWINConfig

        return ADWIN(config=ADWINConfig(clock=c["clock"], delta=c["delta"], m=c["m"], min_window_size=c["min_window_size"], min_num_instances=c["min_num_instances"]), callbacks=callbacks)

    def stats(self, d):
        return [d.width, d.total, d.variance] + [b.idx for b in d.buckets]

    def coq_cfg(self, c):
        return f"{{| ad_clock := {z(c['clock'])}; ad_delta := {fl(c['delta'])}; ad_m := {z(c['m'])}; ad_mws := {z(c['min_window_size'])}; ad_min := {z(c['min_num_instances'])} |}}"

    def gen_cfg(self, rng):
        return dict(
            clock=rng.choice([1, 1, 2, 4, 32]),
            delta=rng.choice([0.002, 0.05, 0.5, 0.9]),
            m=rng.choice([2, 2, 3, 5]),
            min_window_size=rng.choice([1, 2, 5]),
            min_num_instances=rng.choice([1, 3, 5, 10]),
        )

    def warm(self, cfg):
        return cfg["min_num_instances"] + 1


class STEPDDet(Det):
    name = "STEPD"
    status_warning = False
    coq_D = "(STEPDD FloatA)"
    coq_cfg_ty = "stepd_cfg FloatA"
    coq_obs = "obs_stepd"
    uses_transcendentals = True

    def make(self, c, callbacks=None):
        from frouros.detectors.concept_drift import STEPD, STEPDConfig

        return STEPD(config=STEPDConfig(alpha_d=c["alpha_d"], alpha_w=c["alpha_w"], min_num_instances=c["min_num_instances"]), callbacks=callbacks)

    def stats(self, d):
        return [d.correct_total, d.window_accuracy.num_true, d.window_accuracy.size]

    def coq_cfg(self, c):
        from scipy.stats import norm

        return f"{{| sp_zd := {fl(norm.isf(c['alpha_d']))}; sp_zw := {fl(norm.isf(c['alpha_w']))}; sp_min := {z(c['min_num_instances'])} |}}"

    def gen_cfg(self, rng):
        ad = rng.choice([1e-4, 0.003, 0.05, 0.2])
        return dict(alpha_d=ad, alpha_w=min(0.99, ad * rng.choice([1.5, 4.0, 17.0])), min_num_instances=rng.choice([1, 2, 3, 5, 10, 30]))

    def warm(self, cfg):
        return 2 * cfg["min_num_instances"]


class BOCDDet(Det):
    name = "BOCD"
    domain = "real"
    has_warning = False
    status_warning = False
    coq_D = "(BOCDD FloatA)"
    coq_cfg_ty = "bocd_cfg FloatA"
    coq_obs = "obs_bocd"
    uses_transcendentals = True

    def make(self, c, callbacks=None):
        from frouros.detectors.concept_drift import BOCD, BOCDConfig
        from frouros.detectors.concept_drift.streaming.change_detection.bocd import GaussianUnknownMean

        return BOCD(
            config=BOCDConfig(model=GaussianUnknownMean(prior_mean=c["prior_mean"], prior_var=c["prior_var"], data_var=c["data_var"]), hazard=c["hazard"], min_num_instances=c["min_num_instances"]),
            callbacks=callbacks,
        )

    def stats(self, d):
        n = d.num_instances
        return [d.predicted_mean if d.predicted_mean is not None else math.nan, d.predicted_var if d.predicted_var is not None else math.nan] + [float(x) for x in d.log_r[n, : n + 1]]

    def coq_cfg(self, c):
        return (
            f"{{| bo_prior_mean := {fl(c['prior_mean'])}; bo_prior_var := {fl(c['prior_var'])}; bo_data_var := {fl(c['data_var'])}; "
            f"bo_hazard := {fl(c['hazard'])}; bo_min := {z(c['min_num_instances'])}; bo_ln_sqrt_2pi := {fl(math.log(math.sqrt(2 * math.pi)))} |}}"
        )

    def gen_cfg(self, rng):
        return dict(
            prior_mean=rng.choice([0.0, 1.0, -3.0, 100.0]),
            prior_var=rng.choice([0.01, 1.0, 10.0]),
            data_var=rng.choice([0.01, 0.5, 1.0, 4.0]),
            hazard=rng.choice([1e-6, 0.01, 0.1, 0.5, 0.999]),
            min_num_instances=rng.choice([1, 2, 5, 10, 30]),
        )


class KSWINDet(Det):
    """KSWIN consumes NumPy's global generator; the harness records every draw."""

    name = "KSWIN"
    domain = "real"
    has_warning = False
    status_warning = False
    coq_D = "(KSWIND FloatA)"
    coq_cfg_ty = "kswin_cfg"
    coq_obs = "obs_kswin"

    def make(self, c, callbacks=None):
        from frouros.detectors.concept_drift import KSWIN, KSWINConfig

        return KSWIN(config=KSWINConfig(alpha=c["alpha"], seed=c["seed"], min_num_instances=c["min_num_instances"], num_test_instances=c["num_test_instances"]), callbacks=callbacks)

    def stats(self, d):
        return [len(d.window)]

    def coq_cfg(self, c):
        fr = Fraction(float(c["alpha"]))
        return f"{{| kw_alpha_num := {z(fr.numerator)}; kw_alpha_den := {z(fr.denominator)}; kw_min := {z(c['min_num_instances'])}; kw_test := {z(c['num_test_instances'])} |}}"

    def gen_cfg(self, rng):
        mn = rng.choice([2, 4, 6, 10, 20, 40])
        return dict(alpha=rng.choice([1e-4, 0.01, 0.05, 0.3, 0.9]), seed=rng.randrange(1000), min_num_instances=mn, num_test_instances=rng.choice(sorted({1, max(1, mn // 4), mn // 2})))

    def coq_ops_samples(self, ops, samples):
        items = []
        it = iter(samples)
        for o in ops:
            if o == "R":
                items.append("Rst")
            else:
                s = next(it)
                items.append(f"Upd ({fl(o)}, {fl_list(s if s is not None else [])})")
        return "[" + "; ".join(items) + "]"


class ChoiceRecorder:
    """Wraps numpy.random.choice to record the sample KSWIN draws at each update."""

    def __init__(self):
        self.draws = []
        self._orig = None

    def __enter__(self):
        self._orig = np.random.choice

        def rec(*a, **k):
            r = self._orig(*a, **k)
            # integers stay integers (values beyond 2^53 are distinct as integers only)
            self.draws.append([(int(x) if isinstance(x, (int, np.integer)) and not isinstance(x, (bool, np.bool_)) else float(x)) for x in np.atleast_1d(r)])
            return r

        np.random.choice = rec
        return self

    def __exit__(self, *exc):
        np.random.choice = self._orig


def run_kswin(det: KSWINDet, cfg, ops, callbacks=None, probe=None, probes=None, reseed=None):
    """Returns (observations, exception, per-update recorded sample or None)."""
    with ChoiceRecorder() as rec:
        d = det.make(cfg, callbacks)
        if reseed is not None:
            np.random.seed(reseed)
        out, samples = [], []
        for o in ops:
            before = len(rec.draws)
            try:
                if o == "R":
                    d.reset()
                else:
                    d.update(value=o)
            except Exception as e:  # noqa: BLE001
                return out, e, samples
            if o != "R":
                samples.append(rec.draws[-1] if len(rec.draws) > before else None)
            out.append(det.observe(d))
            if probe is not None:
                probes.append(probe(d))
    return out, None, samples


ALL = [CUSUMDet(), PHDet(), GMADet(), DDMDet(), RDDMDet(), EDDMDet(), ECDDDet(), HDDMADet(), HDDMWDet(), ADWINDet(), KSWINDet(), STEPDDet(), BOCDDet()]
BY_NAME = {d.name: d for d in ALL}


# --------------------------------------------------------------------------- model runs + comparison


def coq_cfg_pos(det: Det, cfg, k="0"):
    """The configuration as an explicit constructor application over the number system FloatP k."""
    lit = det.coq_cfg(cfg).strip()
    assert lit.startswith("{|") and lit.endswith("|}")
    vals = [part.split(":=", 1)[1].strip() for part in lit[2:-2].split(";")]
    ty = det.coq_cfg_ty.split()[0]
    a = f"(FloatP {k})" if " " in det.coq_cfg_ty else ""
    return f"(@Build_{ty} {a} " + " ".join(f"({v})" for v in vals) + ")"


def obs_fn(det: Det, k="0"):
    return det.coq_obs if det.coq_obs == "obs_stepd" else f"({det.coq_obs} {k})"


def coq_D(det: Det, k="0"):
    return det.coq_D.replace("FloatA", f"(FloatP {k})")


def coq_case(det: Det, cfg, ops, samples=None, k="0"):
    if isinstance(det, KSWINDet):
        opsx = det.coq_ops_samples(ops, samples)
    else:
        opsx = det.coq_ops(ops)
    return f"run_obs {coq_D(det, k)} {obs_fn(det, k)} {coq_cfg_pos(det, cfg, k)} ({opsx})"


PERTURB = ["0x1p-40", "(-0x1p-40)"]  # relative perturbation of ln / exp used to recognise near-tied verdicts


def run_models(name, cases, shard=60, k="0"):
    """cases: list of (det, cfg, ops, samples|None) -> list of per-op observations (model)."""
    exprs = [coq_case(*c, k=k) for c in cases]
    res = coq_eval(name, HDR, exprs, shard=shard)
    out = []
    for r in res:
        out.append([(bool(o[0]), bool(o[1]), int(o[2]), [float(x) for x in o[3]]) for o in r])
    return out


def near_tie(name, case, impl, step):
    """A flag disagreement at `step`: is the verdict numerically tied?  True iff the model run with
    ln/exp perturbed by +-2^-40 (relative) reproduces the implementation's flags at that step."""
    det = case[0]
    if not det.uses_transcendentals:
        return False
    ops = case[2][: step + 1]
    samples = case[3]
    for k in PERTURB:
        mo = run_models(name + "_tie", [(det, case[1], ops, samples)], k=k)[0]
        if len(mo) > step and mo[step][0] == impl[step][0] and mo[step][1] == impl[step][1]:
            return True
    return False


def compare_traces(impl, model, rtol=1e-9, atol=1e-12):
    """First difference between implementation and model traces: (step, what) or None."""
    if len(impl) != len(model):
        return (min(len(impl), len(model)), f"trace length {len(impl)} != {len(model)}")
    for i, (a, b) in enumerate(zip(impl, model)):
        if a[0] != b[0] or a[1] != b[1]:
            return (i, f"flags impl={a[:2]} model={b[:2]}")
        if a[2] != b[2]:
            return (i, f"num_instances impl={a[2]} model={b[2]}")
        d = first_diff(a[3], b[3], rtol, atol)
        if d is not None:
            return (i, f"stats {d}")
    return None


def gen_ops(rng, det: Det, cfg, n, resets=True):
    """A structured stream in the detector's input domain with optional resets."""
    from lib import gen_stream01, gen_stream_real

    if det.domain == "01":
        xs = gen_stream01(rng, n)
    elif det.domain == "unit":
        if rng.random() < 0.6:
            xs = gen_stream01(rng, n)
        else:
            k = rng.randrange(1, max(2, n))
            a, b_ = rng.choice([(0.1, 0.8), (0.7, 0.2), (0.5, 0.5), (0.0, 1.0)])
            xs = [min(1.0, max(0.0, rng.gauss(a if i < k else b_, 0.1))) for i in range(n)]
    elif det.domain == "nonneg":
        xs = gen_stream_real(rng, n, nonneg=True)
    else:
        xs = gen_stream_real(rng, n)
    ops = list(xs)
    if resets and rng.random() < 0.5 and n > 2:
        for _ in range(rng.choice([1, 1, 2])):
            pos = rng.randrange(1, len(ops))
            if ops[pos] != "R" and ops[pos - 1] != "R":
                ops.insert(pos, "R")
    return ops


def corr_compare(ck, name, cases, impl, models, rtol=1e-9, atol=1e-12, max_tie_checks=6):
    """Compare implementation and model traces; flag disagreements that are numerically tied
    (model with ln/exp perturbed by +-2^-40 reproduces the implementation) are counted, not reported."""
    tie_checks = 0
    for case, im, mo in zip(cases, impl, models):
        det, cfg, ops = case[0], case[1], case[2]
        ck.corr_cases += 1
        d = compare_traces(im, mo, rtol, atol)
        if d is None:
            continue
        if "flags" in d[1] and det.uses_transcendentals and tie_checks < max_tie_checks:
            tie_checks += 1
            if near_tie(name, case, im, d[0]):
                ck.near_ties += 1
                continue
        ck.mismatch(f"model {det.coq_D} vs {det.name}", dict(detector=det.name, config=cfg, ops=ops[: d[0] + 1], step=d[0], diff=d[1]))
