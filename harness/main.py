"""Entry point: ./check Cxx [--tier quick|thorough] [--replay path]."""
import argparse
import importlib
import json
import os
import sys
import traceback

sys.path.insert(0, os.path.dirname(os.path.abspath(__file__)))
sys.path.insert(0, os.environ.get("FROUROS_REPO", "/repo"))


def main():
    ap = argparse.ArgumentParser()
    ap.add_argument("pid")
    ap.add_argument("--tier", default=os.environ.get("VERIF_TIER", "quick"))
    ap.add_argument("--replay", default=None)
    a = ap.parse_args()
    seed = int(os.environ.get("VERIF_SEED", "0"))
    import warnings

    warnings.filterwarnings("ignore")
    import numpy as np

    np.seterr(all="ignore")
    mod = importlib.import_module(a.pid.lower())
    if a.replay:
        obj = json.load(open(a.replay))
        if hasattr(mod, "replay"):
            return mod.replay(obj)
        # generic replay: show the recorded failing input, then re-run the (deterministic, seeded)
        # check that produced it; the same violation is reported again if it still exists
        print(json.dumps({k: v for k, v in obj.items() if k not in ("log",)}, indent=1, default=str)[:6000])
        return mod.main(a.tier, int(obj.get("seed", seed)))
    try:
        return mod.main(a.tier, seed)
    except Exception:
        # a crashing check is a broken check, not a finding; make it loud
        traceback.print_exc()
        print(f"[{a.pid}] INTERNAL ERROR in the check itself (not a property verdict)")
        return 2


if __name__ == "__main__":
    sys.exit(main())
