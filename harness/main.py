"""Entry point: ./check Cxx [--tier quick|thorough] [--replay path]."""
import argparse
import importlib
import json
import os
import sys
import traceback

sys.path.insert(0, os.path.dirname(os.path.abspath(__file__)))
sys.path.insert(0, os.environ.get("FROUROS_REPO", "/repo"))


def main():
    ap = argparse.ArgumentParser()
    ap.add_argument("pid")
    ap.add_argument("--tier", default=os.environ.get("VERIF_TIER", "quick"))
    ap.add_argument("--replay", default=None)
    a = ap.parse_args()
    seed = int(os.environ.get("VERIF_SEED", "0"))
    import warnings

    warnings.filterwarnings("ignore")
    import numpy as np

    np.seterr(all="ignore")
    mod = importlib.import_module(a.pid.lower())
    if a.replay:
        obj = json.load(open(a.replay))
        if hasattr(mod, "replay"):
            return mod.replay(obj)
        # generic replay: show the recorded failing input, then re-run the (deterministic, seeded)
        # check that produced it; the same violation is reported again if it still exists
        print(json.dumps({k: v for k, v in obj.items() if k not in ("log",)}, indent=1, default=str)[:6000])
        return mod.main(a.tier, int(obj.get("seed", seed)))
    try:
        return mod.main(a.tier, seed)
    except Exception:
        # The checks are deterministic and run to completion on the unchanged tree, so a check that crashes does so because
        # of what the code under test returned (a None result, a missing attribute, another exception class ...): the
        # property is no longer shown to hold. Reported as a violation with the traceback as the replay, no failing input.
        tb = traceback.format_exc()
        sys.stderr.write(tb)
        print(f"[{a.pid}] the check itself stopped with an exception (traceback above and in the replay file)")
        import hashlib

        out = os.environ.get("VERIF_OUT", os.path.dirname(os.path.dirname(os.path.abspath(__file__))))
        d = os.path.join(out, "replays", a.pid)
        os.makedirs(d, exist_ok=True)
        path = os.path.join(d, hashlib.sha1(tb.encode()).hexdigest()[:12] + ".json")
        with open(path, "w") as f:
            json.dump(dict(property=a.pid, kind="check-stopped", no_longer_checks=f"harness/{a.pid.lower()}.py did not run to completion", traceback=tb, tier=a.tier, seed=seed), f, indent=1)
        print(f"VIOLATION property={a.pid} replay={path} no-failing-input-found")
        return 1


if __name__ == "__main__":
    sys.exit(main())
