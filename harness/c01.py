"""C01 — no alarm without evidence: warm-up, constant streams, exclusive flags, status."""
from __future__ import annotations

from detectors import ALL, BY_NAME, HDR, KSWINDet, compare_traces, gen_ops, run_impl, run_models
from lib import Check, check_props, coq_eval, z

ERR_BASED = ["DDM", "RDDM", "EDDM", "ECDDWT", "HDDMA", "HDDMW", "STEPD"]


def sig(det, cfg, clause):
    s = dict(clause=clause, detector=det.name)
    if "two_sided_test" in cfg:
        s["two_sided"] = bool(cfg["two_sided_test"])
    return s


def monitor(ck: Check, det, cfg, ops, out, statuses, constant=None):
    """The property stated over an implementation trace. Returns True if a violation was seen."""
    upd = 0
    errs = 0
    seen = False
    for i, (o, ob) in enumerate(zip(ops, out)):
        if o == "R":
            upd = 0
            errs = 0
        else:
            upd += 1
            errs += 1 if o == 1 else 0
        drift, warning = ob[0], ob[1]
        detail = dict(detector=det.name, config=cfg, ops=ops[: i + 1], step=i, drift=drift, warning=warning)
        if det.name == "EDDM":
            warm = errs < det.warm(cfg)
        else:
            warm = upd < det.warm(cfg)
        if warm and (drift or warning):
            seen |= ck.violation(sig(det, cfg, "warmup"), dict(what="alarm during warm-up", updates_since_reset=upd, **detail))
        if drift and warning:
            seen |= ck.violation(sig(det, cfg, "exclusive"), dict(what="drift and warning reported together", **detail))
        st = statuses[i]
        exp = {"drift": drift}
        if "warning" in st:
            exp["warning"] = warning
        if {k: bool(v) for k, v in st.items()} != exp or (det.status_warning and "warning" not in st):
            seen |= ck.violation(sig(det, cfg, "status"), dict(what="status differs from attributes", status=st, **detail))
        if constant is not None and det.name != "BOCD" and (drift or warning):
            s = sig(det, cfg, "constant")
            s["value_positive"] = bool(constant > 0)
            seen |= ck.violation(s, dict(what="alarm on a constant stream", value=constant, **detail))
        if seen:
            break
    return seen


def in_domain_constants(det):
    return {"01": [0, 1], "unit": [0, 1, 0.0, 0.5, 1.0, 0.25], "nonneg": [0.0, 1.0, 0.5, 7.25, 1e6], "real": [0.0, 1.0, -2.5, 3.75, 1e6, -1e-3]}[det.domain]


def run(ck: Check):
    rng = ck.rng
    thorough = ck.tier == "thorough"
    cases = []  # (det, cfg, ops, samples) for the correspondence
    impl_out = []

    def do_case(det, cfg, ops, constant=None, kind="random"):
        statuses = []
        out, exc, extra = run_impl(det, cfg, ops, probe=lambda d: dict(d.status), probes=statuses)
        samples = extra if isinstance(det, KSWINDet) else None
        ntriv = any(o[0] or o[1] for o in out) or "R" in ops
        ck.case(dict(detector=det.name, config=cfg, kind=kind, n_ops=len(ops), ops_head=ops[:10]), nontrivial=ntriv, key=repr((det.name, cfg, ops)))
        ck.count(f"cases_{det.name}")
        ck.count("steps", len(out))
        ck.count("alarm_steps", sum(1 for o in out if o[0] or o[1]))
        if exc is not None:
            ck.violation(dict(clause="raises", detector=det.name, error=type(exc).__name__), dict(what="update raised on an in-domain stream", detector=det.name, config=cfg, ops=ops[: len(out) + 1], error=repr(exc)))
            return
        bad = monitor(ck, det, cfg, ops, out, statuses, constant)
        if not bad:
            cases.append((det, cfg, ops, samples))
            impl_out.append(out)

    # 1. constant streams x config grid
    ck.rule("constant streams: every in-domain constant x 6-12 generated configurations per detector (boundary values over-represented), length 3*warm+20, with and without a reset")
    for det in ALL:
        for _ in range(6 if not thorough else 30):
            cfg = det.gen_cfg(rng)
            for c in in_domain_constants(det):
                n = min(3 * det.warm(cfg) + 20, 140)
                if det.name == "BOCD":
                    n = min(n, 40)
                ops = [c] * n
                if rng.random() < 0.3:
                    ops.insert(rng.randrange(1, n), "R")
                do_case(det, cfg, ops, constant=c, kind="constant")
    # 1b. long constant streams handed over as narrow NumPy scalars (internal counts pass 127 and 255) and as
    #     np.float64: a constant stream is constant whatever numeric type carries it
    import numpy as _np

    ck.rule("constant 0/1 streams of 300 values as np.uint8 / np.int8 / np.int64 / np.float64 scalars (default and one generated configuration per detector): silent")
    for det in ALL:
        if det.name == "BOCD":
            continue
        for cfg in (det.gen_cfg(rng), det.gen_cfg(rng)):
            for c in (0, 1):
                for tname, ty in (("np.uint8", _np.uint8), ("np.int8", _np.int8), ("np.int64", _np.int64), ("np.float64", _np.float64)):
                    try:
                        d = det.make(cfg)
                        bad = None
                        for t in range(300):
                            d.update(value=ty(c))
                            if bool(d.drift) or bool(getattr(d, "warning", False)):
                                bad = t
                                break
                    except Exception as e:  # noqa: BLE001
                        ck.violation(dict(clause="raises", detector=det.name, error=type(e).__name__, input_type=tname), dict(what="update raised on a constant 0/1 stream of NumPy scalars", detector=det.name, config=cfg, value=c, input_type=tname, error=repr(e)))
                        continue
                    ck.case(dict(detector=det.name, config=cfg, kind="constant-typed", value=c, input_type=tname), nontrivial=False, key=repr((det.name, cfg, c, tname)))
                    ck.count("typed_constant_runs")
                    if bad is not None:
                        s_ = sig(det, cfg, "constant")
                        s_["value_positive"] = bool(c > 0)
                        s_["input_type"] = tname
                        ck.violation(s_, dict(what="alarm on a constant stream handed over as NumPy scalars", detector=det.name, config=cfg, value=c, input_type=tname, step=bad))
    # 2. random structured streams with resets
    ck.rule("random structured streams (regime shifts, bursts, ramps, ties) with resets, per detector; non-trivial = an alarm or a reset occurs")
    for det in ALL:
        for _ in range(25 if not thorough else 200):
            cfg = det.gen_cfg(rng)
            n = rng.choice([8, 20, 50, 120])
            if det.name == "BOCD":
                n = min(n, 40)
            do_case(det, cfg, gen_ops(rng, det, cfg, n), kind="random")
    # 2b. a level change placed INSIDE the warm-up (the only evidence a warm-up violation can feed on)
    ck.rule("warm-up shock: per detector 6-10 configurations with a long warm-up (ADWIN also with clock < min_num_instances); the stream switches level after 1, warm/3 or warm/2 values and stops a few steps after the warm-up ends; any alarm before the bound is a violation")
    for det in ALL:
        lo, hi = {"01": (0, 1), "unit": (0.0, 1.0), "nonneg": (0.0, 25.0), "real": (-3.0, 12.0)}[det.domain]
        for _ in range(6 if not thorough else 30):
            cfg = det.gen_cfg(rng)
            for key in ("min_num_instances", "min_num_misclassified_instances"):
                if key in cfg:
                    cfg[key] = rng.choice([8, 12, 20, 40])
            if det.name == "ADWIN":
                cfg["clock"] = rng.choice([1, 2, 4])
                cfg["min_window_size"] = rng.choice([1, 2])
            if det.name == "KSWIN":
                cfg["num_test_instances"] = max(1, cfg["min_num_instances"] // rng.choice([2, 4]))
            if det.name == "RDDM":
                cfg["min_concept_size"] = rng.choice([2, 4, 30])
                cfg["max_concept_size"] = cfg["min_concept_size"] + rng.choice([1, 5, 100])
            w = det.warm(cfg)
            if det.name == "BOCD":
                w = min(w, 30)
                cfg["min_num_instances"] = w
            for k in sorted({1, max(1, w // 3), max(1, w // 2)}):
                for a_, b2 in ((lo, hi), (hi, lo)):
                    ops = [a_] * k + [b2] * (w + 4 - k)
                    do_case(det, cfg, ops, kind="warmup-shock")
    # 2c. two-sided HDDM: burst / long quiet stretch / burst again, so that one side reaches the drift bound
    #     while the other side sits in the warning band (the exclusivity clause of the merged verdict)
    ck.rule("two-sided HDDM-A/W: hi^a lo^b hi^c and its mirror for a in 1..6, b in {20,50,97,150}, c = 40, default and lenient levels: flags never both set")
    for nm in ("HDDMA", "HDDMW"):
        det = BY_NAME[nm]
        for base in (dict(alpha_d=0.001, alpha_w=0.005, min_num_instances=30), dict(alpha_d=0.01, alpha_w=0.3, min_num_instances=10), dict(alpha_d=0.05, alpha_w=0.9, min_num_instances=5)):
            cfg = dict(base, two_sided_test=True)
            if nm == "HDDMW":
                cfg["lambda_"] = 0.05
            for a_ in range(1, 7):
                for b2 in (20, 50, 97, 150):
                    for hi in (0, 1):
                        do_case(det, cfg, [hi] * a_ + [1 - hi] * b2 + [hi] * 40, kind="three-phase")
    # 3. exhaustive 0/1 streams for the error-based detectors
    L = 10 if not thorough else 13
    ck.rule(f"exhaustive: all 2^{L} 0/1 streams of length {L} (hence all shorter prefixes) for the 7 detectors on error streams, 2 small-warm-up configurations each (HDDM in both modes); model flags computed by an enumeration inside Coq")
    exh = []
    for nm in ERR_BASED:
        det = BY_NAME[nm]
        cfgs = []
        tries = 0
        while len(cfgs) < 2 and tries < 200:
            tries += 1
            cfg = det.gen_cfg(rng)
            if det.warm(cfg) <= 4 and cfg not in cfgs and (nm != "RDDM" or cfg["min_concept_size"] <= 4):
                if "two_sided_test" in cfg:
                    cfg["two_sided_test"] = len(cfgs) == 1
                cfgs.append(cfg)
        for cfg in cfgs:
            flags = []
            bad = False
            for i in range(2**L):
                ops = [(i >> (L - 1 - k)) & 1 for k in range(L)]
                statuses = []
                out, exc, _ = run_impl(det, cfg, ops, probe=lambda d: dict(d.status), probes=statuses)
                ck.evals += 1
                if exc is not None:
                    ck.violation(dict(clause="raises", detector=det.name, error=type(exc).__name__), dict(detector=det.name, config=cfg, ops=ops, error=repr(exc)))
                    bad = True
                    break
                if any(o[0] or o[1] for o in out):
                    ck.nontrivial.add(f"exh-{nm}-{len(cfgs)}-{i}-{cfg}")
                if monitor(ck, det, cfg, ops, out, statuses):
                    bad = True
                    break
                flags.append([2 * int(o[0]) + int(o[1]) for o in out])
            ck.count(f"exhaustive_{nm}", 2**L)
            if not bad:
                exh.append((det, cfg, flags))
    if exh:
        from detectors import coq_cfg_pos, coq_D, obs_fn

        exprs = [f"all01_flags {coq_D(det)} (fun b => zf b) {obs_fn(det)} {coq_cfg_pos(det, cfg)} {L}%nat" for det, cfg, _ in exh]
        res = coq_eval("C01x", HDR, exprs, shard=1)
        for (det, cfg, flags), r in zip(exh, res):
            ck.corr_cases += len(flags)
            if r != flags:
                k = next(i for i, (a, b_) in enumerate(zip(r, flags)) if a != b_)
                ck.mismatch(f"model {det.coq_D} vs {det.name} on exhaustive 0/1 streams", dict(detector=det.name, config=cfg, stream=[(k >> (L - 1 - j)) & 1 for j in range(L)], impl_flags=flags[k], model_flags=r[k]))
    # the error-stream detectors driven into a genuine drift that was preceded by warnings, reset() right at the drift,
    # then a burst of errors: through the whole restarted warm-up both flags stay False and num_instances counts the updates
    # since the reset (own generator: independent of the draws above)
    import random as _random
    from frouros.detectors import concept_drift as _cd

    prng = _random.Random(10101)
    for cname, cfgname in (("RDDM", "RDDMConfig"), ("DDM", "DDMConfig"), ("ECDDWT", "ECDDWTConfig"), ("HDDMA", "HDDMAConfig"), ("HDDMW", "HDDMWConfig")):
        for rep in range(1 if not thorough else 4):
            d = getattr(_cd, cname)(config=getattr(_cd, cfgname)())
            mn = int(d.config.min_num_instances)
            saw_warning, t, hist = False, 0, []
            while t < 4000 and not d.drift:
                rate = 0.05 if t < 300 else min(0.9, 0.05 + (t - 300) * 0.004)
                v = int(prng.random() < rate)
                d.update(value=v)
                hist.append(v)
                saw_warning = saw_warning or bool(getattr(d, "warning", False))
                t += 1
            if not d.drift:
                ck.count("drift_then_reset_no_drift_reached")
                continue
            d.reset()
            bad = None
            for j in range(1, mn):
                d.update(value=1)
                if d.drift or getattr(d, "warning", False) or int(d.num_instances) != j:
                    bad = dict(step_after_reset=j, drift=bool(d.drift), warning=bool(getattr(d, "warning", False)), num_instances=int(d.num_instances))
                    break
            ck.case(dict(detector=cname, kind="drift-then-reset-then-errors", updates_before_reset=t, saw_warning=saw_warning), nontrivial=saw_warning, key=repr(("dtr", cname, rep, t)))
            ck.count("drift_then_reset_cases")
            if bad:
                ck.violation(dict(clause="warmup-after-reset", detector=cname, scenario="drift-then-reset"), dict(what="after a drift (preceded by warnings) and reset(), a flag is raised or the counter is off inside the restarted warm-up", detector=cname, min_num_instances=mn, history_len=t, history_tail=hist[-20:], then="reset(); update(1) repeatedly", **bad))
    # correspondence on the random / constant cases
    models = run_models("C01", cases)
    from detectors import corr_compare

    corr_compare(ck, "C01", cases, impl_out, models)

def main(tier, seed):
    ck = Check("C01", tier, seed)
    ck.proof = check_props("C01")
    ck.assumptions = [
        "warm-up / exclusivity / status theorems hold for every number system (hence for the binary64 run)",
        "constant-stream theorems are over R; constant streams are compared exactly in the correspondence (their binary64 arithmetic is exact)",
        "KSWIN: the sample drawn by NumPy's generator is an oracle input of the model, recorded from the implementation run",
        "STEPD: the normal quantile norm.isf(alpha) is an oracle constant",
    ]
    run(ck)
    return ck.finish()
