"""C03 — DDM, EDDM, ECDD-WT and RDDM follow their published error-rate decision rules."""
from __future__ import annotations

import math

from detectors import BY_NAME, HDR, compare_traces, run_impl, run_models
from lib import Check, check_props, coq_eval, gen_stream01

TIE = 1e-9


class Tie(Exception):
    pass


def gt(lhs, rhs):
    """lhs > rhs, refusing to guess when the comparison is numerically tied."""
    if lhs == rhs:
        # equality of small dyadic numbers (0, 1, 1.25, ...: constant streams, s = 0, equal gaps) is exact in the
        # incremental computation as well, so `>` is false there too; equality of anything else (say two equal
        # mean + level * std values) is exact only in THIS batch computation - the code's incremental
        # statistics round differently, and the comparison is numerically tied
        if math.isinf(lhs) or float(lhs * 1048576.0).is_integer():
            return False
        raise Tie()
    if abs(lhs - rhs) <= TIE * max(1.0, abs(lhs), abs(rhs)):
        raise Tie()
    return lhs > rhs


# ------------------------------------------------------------------ non-incremental specifications


def ddm_spec(cfg, xs):
    """Verdict codes (2 drift, 1 warning, 0 normal) per step; None from the first tied comparison on."""
    out = []
    mn = cfg["min_num_instances"]
    best = None  # (p, s) minimising p+s since mn, earliest on ties
    try:
        for t in range(1, len(xs) + 1):
            if t < mn:
                out.append(0)
                continue
            p = sum(xs[:t]) / t
            s = math.sqrt(p * (1 - p) / t)
            if best is None or gt(best[0] + best[1], p + s):
                best = (p, s)
            if gt(p + s, best[0] + cfg["drift_level"] * best[1]):
                out.append(2)
            elif gt(p + s, best[0] + cfg["warning_level"] * best[1]):
                out.append(1)
            else:
                out.append(0)
    except Tie:
        pass
    return out + [None] * (len(xs) - len(out))


ROSS = {  # Ross et al. (2012), table of control-limit polynomials; typed from the paper
    100: (2.76, -6.23, 18.12, -312.45, 1002.18),
    400: (3.97, -6.56, 48.73, -330.13, 848.18),
    1000: (1.17, 7.56, -21.24, 112.12, -987.23),
}


def ecdd_spec(cfg, xs):
    out = []
    lam = cfg["lambda_"]
    try:
        for t in range(1, len(xs) + 1):
            if t < cfg["min_num_instances"]:
                out.append(0)
                continue
            p = sum(xs[:t]) / t
            z = math.fsum(lam * (1 - lam) ** (t - 1 - i) * xs[i] for i in range(t))
            sig = math.sqrt(lam / (2 - lam) * (1 - (1 - lam) ** (2 * t)) * p * (1 - p))
            c0, c1, c3, c5, c7 = ROSS[cfg["average_run_length"]]
            L = c0 + c1 * p + c3 * p**3 + c5 * p**5 + c7 * p**7
            if gt(z, p + L * sig):
                out.append(2)
            elif gt(z, p + cfg["warning_level"] * L * sig):
                out.append(1)
            else:
                out.append(0)
    except Tie:
        pass
    return out + [None] * (len(xs) - len(out))


def eddm_spec(cfg, xs):
    out = []
    mn = cfg["min_num_misclassified_instances"]
    gaps = []
    last = 0
    mx = -math.inf
    flags = 0
    try:
        for t in range(1, len(xs) + 1):
            if xs[t - 1] != 1:
                flags = 0
                out.append(0)
                continue
            gaps.append(t - last)
            last = t
            k = len(gaps)
            mu = sum(gaps) / k
            sd = math.sqrt(sum((g - mu) ** 2 for g in gaps) / k)
            thr = mu + cfg["level"] * sd
            if t >= mn:
                if mx == -math.inf or gt(thr, mx):
                    mx = thr
                    flags = 0
                elif k >= mn:
                    r = thr / mx
                    if gt(cfg["beta"], r):
                        flags = 2
                    elif gt(cfg["alpha"], r):
                        flags = 1
                    else:
                        flags = 0
            out.append(flags)
    except Tie:
        pass
    return out + [None] * (len(xs) - len(out))


SPECS = {"DDM": ddm_spec, "ECDDWT": ecdd_spec, "EDDM": eddm_spec}


def code(o):
    return 2 if o[0] else (1 if o[1] else 0)


def check_rules(ck, det, cfg, xs, out):
    spec = SPECS[det.name](cfg, xs)
    for t, (o, sp) in enumerate(zip(out, spec)):
        if sp is None:
            ck.near_ties += 1
            return True
        if code(o) != sp:
            ck.violation(
                dict(clause="decision-rule", detector=det.name),
                dict(what="verdict differs from the published non-incremental rule", detector=det.name, config=cfg, stream=xs[: t + 1], step=t, impl=code(o), spec=sp),
            )
            return False
    return True


def check_rules_ops(ck, det, cfg, ops, out):
    """as check_rules, for a history with resets: the published rule restarts at every reset"""
    seg, start = [], 0
    for i, o in enumerate(list(ops) + ["R"]):
        if o != "R":
            seg.append(o)
            continue
        spec = SPECS[det.name](cfg, seg)
        for t, sp in enumerate(spec):
            if sp is None:
                ck.near_ties += 1
                return True
            if code(out[start + t]) != sp:
                ck.violation(
                    dict(clause="decision-rule", detector=det.name, after_reset=start > 0),
                    dict(what="verdict differs from the published non-incremental rule (history with resets; the rule restarts at each reset)", detector=det.name, config=cfg, ops=ops[: start + t + 1], step=start + t, impl=code(out[start + t]), spec=sp),
                )
                return False
        if i < len(ops) and (out[i][0] or out[i][1]):
            ck.violation(dict(clause="decision-rule", detector=det.name, after_reset=True), dict(what="flags set right after reset()", detector=det.name, config=cfg, ops=ops[: i + 1]))
            return False
        seg, start = [], i + 1
    return True


def concept_segment(rng):
    k = rng.choice(["quiet-degrade", "quiet-degrade", "bern", "gen"])
    if k == "quiet-degrade":
        return [0] * rng.randrange(5, 160) + [1 if rng.random() < rng.choice([0.5, 0.8, 1.0]) else 0 for _ in range(rng.randrange(10, 60))]
    if k == "bern":
        p = rng.choice([0.02, 0.1, 0.3])
        return [int(rng.random() < p) for _ in range(rng.randrange(20, 200))]
    return gen_stream01(rng, rng.choice([30, 100]))


# ------------------------------------------------------------------ RDDM clauses


def check_rddm(ck, cfg, xs):
    rd, dd = BY_NAME["RDDM"], BY_NAME["DDM"]
    ks = []
    out, exc, d = run_impl(rd, cfg, xs, probe=lambda d: int(d.error_rate.num_values), probes=ks)
    if exc is not None:
        ck.violation(dict(clause="raises", detector="RDDM"), dict(detector="RDDM", config=cfg, stream=xs[: len(out) + 1], error=repr(exc)))
        return out, False
    dcfg = dict(warning_level=cfg["warning_level"], drift_level=cfg["drift_level"], min_num_instances=cfg["min_num_instances"])
    dout, _, _ = run_impl(dd, dcfg, xs)
    # (1) DDM's verdicts until the first event
    event_seen = False
    for t, (a, b_) in enumerate(zip(out, dout)):
        warning_limit = a[0] and b_[1] and not b_[0] and a[3][3] >= cfg["max_num_instances_warning"]
        if code(a) != code(b_) and not warning_limit:
            ck.violation(dict(clause="rddm-simulates-ddm"), dict(what="RDDM verdict differs from DDM's before its first event", config=cfg, stream=xs[: t + 1], step=t, rddm=code(a), ddm=code(b_)))
            return out, False
        if a[3][4] == 1.0 or a[0]:  # rddm_drift set: drift, warning-limit or max-concept-size event
            event_seen = True
            break
    # (2) error-rate estimate = mean of a suffix growing by one, cut only right after an event
    prev_k = 0
    prev_event = False
    for t, (a, k) in enumerate(zip(out, ks)):
        detail = dict(config=cfg, stream=xs[: t + 1], step=t, k=k, prev_k=prev_k)
        if not (1 <= k <= t + 1):
            ck.violation(dict(clause="rddm-suffix"), dict(what="suffix length out of range", **detail))
            return out, False
        mean = sum(xs[t + 1 - k : t + 1]) / k
        if not (abs(a[3][0] - mean) <= 1e-9):
            ck.violation(dict(clause="rddm-suffix"), dict(what="error rate is not the mean of the last k values", error_rate=a[3][0], suffix_mean=mean, **detail))
            return out, False
        if k != prev_k + 1:
            if not prev_event:
                ck.violation(dict(clause="rddm-suffix"), dict(what="suffix cut back without a preceding event", **detail))
                return out, False
            if k > cfg["min_concept_size"] + 1:
                ck.violation(dict(clause="rddm-suffix"), dict(what="suffix after an event longer than min_concept_size+1", **detail))
                return out, False
        prev_k = k
        prev_event = a[3][4] == 1.0
    ck.count("rddm_events", int(event_seen))
    return out, True


def run(ck: Check):
    rng = ck.rng
    thorough = ck.tier == "thorough"
    L = 11 if not thorough else 14
    ck.rule(
        f"exhaustive: all 2^{L} 0/1 streams of length {L} for DDM / ECDD-WT / EDDM (2 small-warm-up configurations each) compared step by step with a Python transcription "
        "of the non-incremental published rule (batch mean, batch std of error distances, Ross polynomial typed from the paper); random two-regime streams to length 600 "
        "with configurations over a grid of levels; numerically tied comparisons (relative margin <= 1e-9) end the comparison of that stream and are counted; "
        "histories of 2-4 concepts (quiet-then-degrading, Bernoulli, regime shifts) separated by reset(), the rule restarting at each reset, small ECDD lambda_ over-represented; RDDM: verdicts vs DDM until the first event, suffix-mean invariant at every step; non-trivial = the stream produces a warning or drift"
    )
    cases, impl = [], []
    for nm in ("DDM", "ECDDWT", "EDDM"):
        det = BY_NAME[nm]
        # exhaustive
        cfgs = []
        while len(cfgs) < 2:
            cfg = det.gen_cfg(rng)
            if det.warm(cfg) <= 4 and cfg not in cfgs:
                cfgs.append(cfg)
        for cfg in cfgs:
            for i in range(2**L):
                xs = [(i >> (L - 1 - k)) & 1 for k in range(L)]
                out, exc, _ = run_impl(det, cfg, xs)
                ck.evals += 1
                if any(o[0] or o[1] for o in out):
                    ck.nontrivial.add(f"x{nm}{cfg}{i}")
                if not check_rules(ck, det, cfg, xs, out):
                    break
            ck.count(f"exhaustive_{nm}", 2**L)
        # random, long
        for _ in range(40 if not thorough else 300):
            cfg = det.gen_cfg(rng)
            n = rng.choice([30, 100, 300, 600])
            xs = gen_stream01(rng, n)
            out, exc, _ = run_impl(det, cfg, xs)
            ck.case(dict(detector=nm, config=cfg, n=n, head=xs[:12]), nontrivial=any(o[0] or o[1] for o in out), key=repr((nm, cfg, xs)))
            if check_rules(ck, det, cfg, xs, out) and n <= 300:
                cases.append((det, cfg, xs, None))
                impl.append(out)
        # the error stream handed over as narrow NumPy integers, long enough for more than 255 errors: the rule is
        # about the VALUES (an accumulator in the stream's own dtype would wrap at 128 / 256)
        import numpy as _np

        for ty in (_np.uint8, _np.int8):
            for _ in range(2 if not thorough else 6):
                cfg = det.gen_cfg(rng)
                n = rng.choice([600, 800])
                k = rng.randrange(n // 3, 2 * n // 3)
                xs = [int(rng.random() < (0.45 if i < k else 0.6)) for i in range(n)]
                out, exc, _ = run_impl(det, cfg, [ty(v) for v in xs])
                if exc is not None:
                    ck.violation(dict(clause="raises", detector=nm, input_type=ty.__name__), dict(detector=nm, config=cfg, n=n, input_type=ty.__name__, error=repr(exc), head=xs[:12]))
                    continue
                ck.case(dict(detector=nm, config=cfg, n=n, input_type=ty.__name__, errors=sum(xs)), nontrivial=any(o[0] or o[1] for o in out), key=repr((nm, cfg, xs, ty.__name__)))
                ck.count("typed_streams")
                check_rules(ck, det, cfg, xs, out)
        # several concepts separated by reset() (what a user does on drift): the rule restarts at each reset
        for _ in range(40 if not thorough else 300):
            cfg = det.gen_cfg(rng)
            if nm == "ECDDWT" and rng.random() < 0.6:
                cfg["lambda_"] = rng.choice([0.01, 0.02, 0.05])
                cfg["min_num_instances"] = rng.choice([1, 5, 30])
            if nm == "EDDM":
                cfg["min_num_misclassified_instances"] = rng.choice([1, 3, 10, 30])
            ops = []
            for j in range(rng.choice([2, 3, 4])):
                if j:
                    ops.append("R")
                ops += concept_segment(rng)
            out, exc, _ = run_impl(det, cfg, ops)
            if exc is not None:
                ck.violation(dict(clause="raises", detector=nm), dict(detector=nm, config=cfg, ops=ops[: len(out) + 1], error=repr(exc)))
                continue
            ck.case(dict(detector=nm, config=cfg, n=len(ops), kind="concepts-with-resets", head=ops[:12]), nontrivial=any(o[0] or o[1] for o in out), key=repr((nm, cfg, ops)))
            ck.count("reset_histories")
            if check_rules_ops(ck, det, cfg, ops, out) and len(ops) <= 300:
                cases.append((det, cfg, ops, None))
                impl.append(out)
    rd = BY_NAME["RDDM"]
    for _ in range(150 if not thorough else 1500):
        cfg = rd.gen_cfg(rng)
        n = rng.choice([20, 60, 150, 400])
        xs = gen_stream01(rng, n)
        out, ok = check_rddm(ck, cfg, xs)
        ck.case(dict(detector="RDDM", config=cfg, n=n, head=xs[:12]), nontrivial=any(o[0] or o[1] or o[3][4] == 1.0 for o in out), key=repr(("RDDM", cfg, xs)))
        if ok and n <= 150:
            cases.append((rd, cfg, xs, None))
            impl.append(out)
    models = run_models("C03", cases, shard=40)
    from detectors import corr_compare

    corr_compare(ck, "C03", cases, impl, models)

def main(tier, seed):
    ck = Check("C03", tier, seed)
    ck.proof = check_props("C03")
    ck.assumptions = ["refinement theorems are over R (ties are exact there); binary64 ties are excluded from the run-time comparison as the property allows"]
    run(ck)
    return ck.finish()
