"""C16 — outputs are a pure function of config and stream; instances are isolated.

The Coq side (Model/Heap.v, Proofs/HeapR.v, Props/C16.v) proves frame / read-only / isolation
theorems about an explicit object heap.  This check
  (1) runs 2-3 real detector instances (same / different classes, one SHARED configuration object
      where the classes agree, history callbacks attached to some) under ALL interleavings of their
      calls when there are <= 6 calls in total, and under sampled interleavings of longer streams;
      every instance's per-call outputs (and its callback's history) must equal its solo run
      bit for bit, and the solo run must agree with the Coq detector model;
  (2) validates the model's FOOTPRINT claims on the real objects: around every constructor / update /
      reset every other object (configurations incl. BOCD's model arrays, class attributes, other
      instances and their callbacks, NumPy's global generator) is snapshotted by value and must be
      unchanged;
  (3) compares the aliasing the model's constructors declare (configuration shared by reference,
      everything else private, config=None builds a fresh configuration) with `is` on the objects;
  (4) repeats runs and demands exact agreement;
  (5) KSWIN: equal outputs from equal generator states; interleaving with another consumer may
      differ (counted, expected) but must equal an independent oracle in which the generator is the
      ONLY shared object; a second KSWINConfig re-seeds.
The heap model itself (run_system over the family of the 13 detector models) is evaluated in Coq on
the same schedules and compared with the implementation.
"""
from __future__ import annotations

import collections
import hashlib
import inspect
import io
import itertools
import math
import pickle
import struct
import sys
import types

import numpy as np

from detectors import ALL, BY_NAME, HDR, ChoiceRecorder, KSWINDet, compare_traces, coq_cfg_pos, coq_D, corr_compare, gen_ops, obs_fn, run_models
from lib import Check, check_props, coq_eval, fl, fl_list

IDX = {d.name: i for i, d in enumerate(ALL)}
KSWIN_IDX = IDX["KSWIN"]


def cls_of(name):
    import frouros.detectors.concept_drift as cd

    return getattr(cd, name)


def cfgcls_of(name):
    import frouros.detectors.concept_drift as cd

    return getattr(cd, name + "Config")


# --------------------------------------------------------------------------- snapshots by value

_ATOMS = (type(None), bool, int, str, bytes)
_REFS = (types.FunctionType, types.BuiltinFunctionType, types.MethodType, types.ModuleType, type, property, staticmethod, classmethod, types.MappingProxyType)


def fhex(x):
    x = float(x)
    return "nan" if math.isnan(x) else x.hex()


def snap(o, stack=(), memo=None):
    """Deep snapshot BY VALUE (floats bit for bit, arrays by dtype/shape/bytes, objects through __dict__)."""
    t = type(o)
    if t is float:
        return ("f", o.hex() if o == o else "nan")
    if t in _ATOM_SET:
        return o
    if isinstance(o, np.floating):
        return ("f", fhex(o))
    if isinstance(o, np.bool_):
        return bool(o)
    if isinstance(o, np.integer):
        return int(o)
    if t is np.ndarray:
        if o.dtype == object:
            return ("ndo", o.shape, [snap(e, stack, memo) for e in o.ravel().tolist()])
        return ("nd", str(o.dtype), o.shape, hashlib.sha1(np.ascontiguousarray(o).tobytes()).hexdigest())
    if isinstance(o, _REFS) or (callable(o) and not hasattr(o, "__dict__")):
        return ("ref", getattr(o, "__qualname__", t.__name__), id(o))
    if id(o) in stack:
        return ("cycle", stack.index(id(o)))
    if memo is None:
        memo = {}
    st = stack + (id(o),)
    if t is dict:
        return ("dict", [(repr(k), snap(v, st, memo)) for k, v in o.items()])
    if isinstance(o, (list, tuple, collections.deque)):
        if len(o) > 4:
            ts = set(map(type, o))
            if ts <= _FLOATS:  # long float lists (histories, windows): the bytes of the doubles
                return ("seqf", t.__name__, getattr(o, "maxlen", None), len(o), hashlib.sha1(struct.pack(f"{len(o)}d", *o)).hexdigest())
            if ts <= _ATOM_SET:
                return ("seqa", t.__name__, getattr(o, "maxlen", None), tuple(o))
        return ("seq", t.__name__, getattr(o, "maxlen", None), [snap(e, st, memo) for e in o])
    if isinstance(o, dict):
        return ("dict", [(repr(k), snap(v, st, memo)) for k, v in o.items()])
    if isinstance(o, (set, frozenset)):
        return ("set", sorted(repr(e) for e in o))
    if hasattr(o, "__dict__"):
        return ("obj", t.__qualname__, snap(vars(o), st))
    return ("repr", repr(o))


_ATOM_SET = {type(None), bool, int, str, bytes}
_FLOATS = {float, np.float64}
_CONTAINERS = {dict, list, set, np.ndarray, collections.deque}


def _ref(x):
    return x


class _ByValue(pickle.Pickler):
    """pickle as the by-value serialiser (C speed): every reachable object through its state, floats and
    array buffers bit for bit, shared references and cycles kept; functions / classes / modules / the
    global generator object are written as identities."""

    def reducer_override(self, o):
        if o is _ref:
            return NotImplemented
        if isinstance(o, _REFS):
            return (_ref, (f"ref:{getattr(o, '__qualname__', '?')}:{id(o)}",))
        if o is np.random.mtrand._rand:
            return (_ref, ("numpy-global-generator",))
        return NotImplemented


def vsnap(o):
    """By-value fingerprint of an object graph (falls back to the pure-Python walker)."""
    try:
        f = io.BytesIO()
        _ByValue(f, protocol=5).dump(o)
        return hashlib.sha1(f.getvalue()).digest()
    except Exception:  # noqa: BLE001  (an object pickle cannot serialise)
        return snap(o)

_SKIP_CLASS_KEYS = ("__dict__", "__weakref__", "__doc__", "_abc_impl", "__slotnames__")  # __slotnames__: copyreg's per-class memo, written by copy.deepcopy


def snap_class(c):
    """Class attributes by value (deep)."""
    return [(k, snap(v)) for k, v in vars(c).items() if k not in _SKIP_CLASS_KEYS]


def snap_class_fast(c):
    """Class attributes: binding identity for everything, contents for containers (the per-call version)."""
    d = {k: v for k, v in vars(c).items() if k not in _SKIP_CLASS_KEYS}
    return (tuple(d), tuple(map(id, d.values())), [snap(v) for v in d.values() if type(v) in _CONTAINERS])


def rng_fingerprint():
    s = np.random.get_state()
    return (hashlib.sha1(s[1].tobytes()).hexdigest(), int(s[2]), int(s[3]), fhex(s[4]))


def frouros_classes(mods_prefix=("frouros.",)):
    out = {}
    for name, m in list(sys.modules.items()):
        if m is None or not name.startswith(mods_prefix):
            continue
        for v in vars(m).values():
            if isinstance(v, type) and getattr(v, "__module__", "").startswith("frouros"):
                out[id(v)] = v
    return list(out.values())


def module_data():
    """Module-level data (not classes / functions / modules) of every loaded frouros module."""
    out = []
    for name, m in sorted(sys.modules.items()):
        if m is None or not name.startswith("frouros"):
            continue
        for k, v in vars(m).items():
            if k.startswith("__") or not isinstance(v, (int, float, str, bool, list, dict, tuple, set, np.ndarray, collections.deque)):
                continue
            out.append((name, k, snap(v)))
    return out


# --------------------------------------------------------------------------- reachability / aliasing

_IMMUT = (type(None), bool, int, float, complex, str, bytes, np.generic, frozenset) + _REFS


def reach(root, stop=()):
    """ids -> objects of every MUTABLE object reachable from root (not entering objects in `stop`)."""
    seen = {}
    stop_ids = {id(s) for s in stop}
    stop_ids.add(id(np.random.mtrand._rand))  # the global generator is an object of its own (STEPD's frozen scipy norm refers to it, never draws)
    todo = [root]
    while todo:
        o = todo.pop()
        if isinstance(o, _IMMUT) or (callable(o) and not hasattr(o, "__dict__")) or isinstance(o, types.FunctionType):
            continue
        if id(o) in seen or id(o) in stop_ids:
            continue
        if isinstance(o, tuple):
            todo.extend(o)
            continue
        seen[id(o)] = o
        if isinstance(o, dict):
            todo.extend(o.values())
            todo.extend(o.keys())
        elif isinstance(o, (list, collections.deque, set)):
            todo.extend(o)
        elif isinstance(o, np.ndarray):
            if o.dtype == object:
                todo.extend(o.ravel().tolist())
        elif hasattr(o, "__dict__"):
            todo.extend(vars(o).values())
    return seen


def shared_objects(ra, rb):
    """Mutable objects common to two reachability sets (identity, or overlapping array memory)."""
    out = [type(ra[i]).__name__ for i in ra if i in rb]
    aa = [o for o in ra.values() if isinstance(o, np.ndarray)]
    bb = [o for o in rb.values() if isinstance(o, np.ndarray)]
    for x in aa:
        for y in bb:
            if x is not y and np.shares_memory(x, y):
                out.append("ndarray-memory")
    return out


# --------------------------------------------------------------------------- the world of real objects


class Stop(Exception):
    pass


class World:
    """Configurations and instances built in a fixed order; every constructor / call is bracketed by
    by-value snapshots of everything the model says it does not write."""

    def __init__(self, ck, spec, footprint=True, recorder=None):
        self.ck = ck
        self.spec = spec
        self.footprint = footprint
        self.cfgs = []  # configuration objects, in creation order
        self.insts = []
        self.cbs = []
        self.dets = []
        self.pos = []
        self.locs = []  # heap locations in the model: 0 = generator, then objects in creation order
        self.nloc = 1
        self.cfg_loc = []
        self.inst_cfg = []  # index in self.cfgs of each instance's configuration
        self.rel_classes = []
        self.rec = recorder
        self.tape = []  # KSWIN draws in global order ([] when an update drew nothing)
        self.cache = {}  # snapshots taken after the previous call: nothing but harness reads happens in between
        self.build()

    # -- what must not change
    def parts(self, skip_inst=None, reuse=False):
        old = self.cache if reuse else {}
        p = {}
        p["class"] = old.get("class") or [(c.__qualname__, snap_class_fast(c)) for c in self.rel_classes]
        for i, c in enumerate(self.cfgs):
            p[f"cfg{i}"] = old.get(f"cfg{i}") or vsnap(c)
        for j, d in enumerate(self.insts):
            if j != skip_inst:
                p[f"inst{j}"] = old.get(f"inst{j}") or vsnap(d)
        p["rng"] = rng_fingerprint()
        return p

    def bracket(self, what, writer, fn, skip_inst=None, rng_allowed=False):
        if not self.footprint:
            return fn()
        before = self.parts(skip_inst, reuse=True)
        r = fn()
        after = self.parts(skip_inst)
        self.cache = after
        for k in before:
            if k == "rng" and rng_allowed:
                continue
            if before[k] != after.get(k):
                kind = "class-attribute" if k == "class" else "generator" if k == "rng" else "configuration" if k.startswith("cfg") else "other-instance"
                victim = None
                if k.startswith("cfg"):
                    victim = self.spec["cfgs"][int(k[3:])][0] if int(k[3:]) < len(self.spec["cfgs"]) else "default-config"
                elif k.startswith("inst"):
                    victim = self.spec["insts"][int(k[4:])]["det"]
                self.ck.violation(
                    dict(clause="footprint", op=what, writer=writer, written=kind),
                    dict(what=f"{what} of {writer} changed {kind} {k} ({victim}); the model's frame says it writes only its own object" + ("" if rng_allowed else " (and not the generator)"), world=self.spec, victim=victim, step=sum(self.pos)),
                )
                raise Stop()
        return r

    def build(self):
        from frouros.callbacks import HistoryConceptDrift

        for name, c in self.spec["cfgs"]:
            det = BY_NAME[name]
            # detectors.make builds config + detector; the configuration object is what we keep
            holder = []

            def mk(det=det, c=c):
                d0 = det.make(c)
                return d0.config

            cfgobj = self.bracket("construct-config", name + "Config", mk, rng_allowed=(name == "KSWIN"))
            self.cfgs.append(cfgobj)
            self.cfg_loc.append(self.nloc)
            self.nloc += 1
            self._relevant(cfgobj)
        for j, ins in enumerate(self.spec["insts"]):
            name = ins["det"]
            cb = HistoryConceptDrift(name=f"h{j}") if ins.get("cb") else None
            cls = cls_of(name)
            if ins["cfg"] is None:  # config=None
                d = self.bracket("construct", name, lambda: cls(config=None, callbacks=cb), rng_allowed=(name == "KSWIN"))
                if any(d.config is c for c in self.cfgs):
                    self.ck.violation(dict(clause="aliasing", what="default-config-shared", detector=name), dict(what="config=None reuses an existing configuration object; the model (NewD) allocates a fresh one", world=self.spec))
                    raise Stop()
                self.cfgs.append(d.config)
                self.cfg_loc.append(self.nloc)
                self.nloc += 1
                self.inst_cfg.append(len(self.cfgs) - 1)
            else:
                cfgobj = self.cfgs[ins["cfg"]]
                d = self.bracket("construct", name, lambda: cls(config=cfgobj, callbacks=cb))
                self.inst_cfg.append(ins["cfg"])
            self.insts.append(d)
            self.cbs.append(cb)
            self.dets.append(BY_NAME[name])
            self.pos.append(0)
            self.locs.append(self.nloc)
            self.nloc += 1
            self._relevant(d)

    def _relevant(self, root):
        for o in reach(root).values():
            for c in type(o).__mro__:
                if c.__module__.startswith("frouros") and c not in self.rel_classes:
                    self.rel_classes.append(c)
                    self.cache.pop("class", None)

    def call(self, j):
        """Next call of instance j; returns (observation, history snapshot)."""
        ins = self.spec["insts"][j]
        o = ins["ops"][self.pos[j]]
        d = self.insts[j]
        name = ins["det"]
        nd = len(self.rec.draws) if self.rec is not None else 0
        hist_before = None
        if o == "R":
            hist_before = self.hist_full(j)
            self.bracket("reset", name, d.reset, skip_inst=j)
        else:
            self.bracket("update", name, lambda: d.update(value=o), skip_inst=j, rng_allowed=(name == "KSWIN"))
            if name == "KSWIN" and self.rec is not None:
                self.tape.append(self.rec.draws[-1] if len(self.rec.draws) > nd else [])
        self.pos[j] += 1
        ob = self.dets[j].observe(d)
        st = {k: bool(v) for k, v in d.status.items()}
        return canon(ob), st, (hist_before, self.hist_tail(j)), ob

    def hist_tail(self, j):
        """Per call: length and newest entry of every history list (the full history is compared before
        every reset and at the end of the run)."""
        cb = self.cbs[j]
        return None if cb is None else [(k, len(v), snap(v[-1]) if v else None) for k, v in cb.history.items()]

    def hist_full(self, j):
        cb = self.cbs[j]
        return None if cb is None else snap(cb.history)


def canon(ob):
    return (ob[0], ob[1], ob[2], tuple(fhex(x) if x is not None else None for x in ob[3]))


def run_world(ck, spec, schedule, footprint=True):
    """Returns (per-instance list of (canon obs, status, history), per-call raw observations in schedule
    order, error or None, world)."""
    outs = [[] for _ in spec["insts"]]
    raw = []
    with ChoiceRecorder() as rec:
        w = World(ck, spec, footprint, rec)
        for j in schedule:
            try:
                c, st, h, ob = w.call(j)
            except Stop:
                raise
            except Exception as e:  # noqa: BLE001
                return outs, raw, (j, w.pos[j], e), w
            outs[j].append((c, st, h))
            raw.append((j, ob))
        for j in range(len(outs)):
            outs[j].append(("final-history", None, w.hist_full(j)))
    return outs, raw, None, w


def solo_spec(spec, j):
    ins = spec["insts"][j]
    if ins["cfg"] is None:
        return dict(cfgs=[], insts=[dict(ins, cfg=None)])
    return dict(cfgs=[spec["cfgs"][ins["cfg"]]], insts=[dict(ins, cfg=0)])


def rng_writers(spec):
    """How many writers of the generator the world contains besides one KSWIN's own config+updates."""
    kcfg = sum(1 for n, _ in spec["cfgs"] if n == "KSWIN") + sum(1 for i in spec["insts"] if i["det"] == "KSWIN" and i["cfg"] is None)
    kinst = sum(1 for i in spec["insts"] if i["det"] == "KSWIN")
    return kcfg, kinst


# --------------------------------------------------------------------------- KSWIN oracle (generator = the only shared object)


def kswin_oracle(spec, schedule):
    """Independent re-statement of KSWIN for a whole world: each instance owns a deque; ONE private
    RandomState plays the global generator: seeded by every KSWINConfig in construction order, consumed
    by updates in schedule order.  Returns per-instance list of (drift, num_instances, window length)."""
    from scipy.stats import ks_2samp

    rs = np.random.RandomState()
    for n, c in spec["cfgs"]:
        if n == "KSWIN":
            rs.seed(c["seed"])
    st = []
    for ins in spec["insts"]:
        c = spec["cfgs"][ins["cfg"]][1] if ins["det"] == "KSWIN" else None
        st.append(dict(c=c, win=collections.deque(maxlen=c["min_num_instances"]) if c else None, n=0, pos=0, out=[]))
    for j in schedule:
        s = st[j]
        ins = spec["insts"][j]
        o = ins["ops"][s["pos"]]
        s["pos"] += 1
        if s["c"] is None:
            continue
        c = s["c"]
        if o == "R":
            s["win"].clear()
            s["n"] = 0
            drift = False
        else:
            s["n"] += 1
            s["win"].append(o)
            drift = False
            if len(s["win"]) >= c["min_num_instances"]:
                k = len(s["win"]) - c["num_test_instances"]
                lst = list(s["win"])
                smp = rs.choice(a=lst[:k], size=c["num_test_instances"], replace=False)
                drift = bool(ks_2samp(smp, lst[k:], alternative="two-sided", method="auto")[1] <= c["alpha"])
        s["out"].append((drift, s["n"], len(s["win"])))
    return [s["out"] for s in st]


# --------------------------------------------------------------------------- the Coq heap model on the same schedules


def default_cfg(det):
    """Keyword defaults of the configuration class (what config=None builds), as the registry's dict."""
    keys = list(det.gen_cfg(__import__("random").Random(0)).keys())
    sig = inspect.signature(cfgcls_of(det.name).__init__).parameters
    out = {}
    for k in keys:
        if k in sig:
            out[k] = sig[k].default
    if det.name == "BOCD":
        from frouros.detectors.concept_drift.streaming.change_detection.bocd import GaussianUnknownMean

        ms = inspect.signature(GaussianUnknownMean.__init__).parameters
        for k in ("prior_mean", "prior_var", "data_var"):
            out[k] = ms[k].default
    if det.name == "KSWIN":
        out["seed"] = 0
    return out


def heap_header():
    def cases(f, dflt):
        return "\n".join(f"  | {i}%nat => {f(d)}" for i, d in enumerate(ALL)) + f"\n  | _ => {dflt}\n  end"

    fam = "Definition fam (k : nat) : Detector :=\n  match k with\n" + cases(lambda d: coq_D(d), coq_D(ALL[0])) + ".\n"
    inp = "Definition inp : forall k, float -> d_in (fam k) := fun k =>\n  match k with\n" + cases(lambda d: "fun v => (v, [])" if d.name == "KSWIN" else "fun v => v", "fun v => v") + ".\n"
    draw = (
        "Definition draw : forall k, d_cfg (fam k) -> d_st (fam k) -> float -> tape -> d_in (fam k) * tape := fun k =>\n  match k with\n"
        + cases(lambda d: "fun _ _ v r => match r with x :: t => ((v, x), t) | [] => ((v, []), []) end" if d.name == "KSWIN" else "fun _ _ v r => (v, r)", "fun _ _ v r => (v, r)")
        + ".\n"
    )
    ob = "Definition ob : forall k, d_st (fam k) -> obs := fun k =>\n  match k with\n" + cases(lambda d: obs_fn(d), obs_fn(ALL[0])) + ".\n"
    dfl = "Definition dflt : forall k, d_cfg (fam k) := fun k =>\n  match k with\n" + cases(lambda d: coq_cfg_pos(d, default_cfg(d)), coq_cfg_pos(ALL[0], default_cfg(ALL[0]))) + ".\n"
    return (
        HDR
        + "From FV Require Import Callbacks Heap.\n"
        + fam
        + "Definition tape := list (list float).\n"
        + inp
        + draw
        + ob
        + dfl
        + f"Definition isk (k : nat) : bool := Nat.eqb k {KSWIN_IDX}.\n"
        + "Definition vars : forall k, d_st (fam k) -> string -> float := fun _ _ _ => 0%float.\n"
        + "Definition rsd : forall k, d_cfg (fam k) -> tape -> tape := fun _ _ r => r.\n"
        + "Definition NC := NewCfg fam float. Definition NW := New fam float. Definition ND := NewD fam float.\n"
        + "Definition UP := Update fam float. Definition RS := Reset fam float.\n"
        + "Definition cb0 : cbspec := Some []. Definition nocb : cbspec := None.\n"
        + "Definition h0 (t : tape) : heap fam float tape := [ORng fam float tape t].\n"
        + "Definition sys (s : list (sysop fam float)) (t : tape) :=\n"
        + "  let h := run_system fam float float vars tape isk inp draw isk rsd dflt s (h0 t) in\n"
        + "  (sys_trace fam float float vars tape isk inp draw isk rsd dflt obs ob s (h0 t), map (refs fam float tape isk) h).\n"
    )


def coq_schedule(w: World, spec, schedule):
    """The world's constructor calls followed by the schedule, as a list of sysops of the heap model."""
    items = []
    ci = 0
    # replay the construction order of World.build: explicit configurations first, then instances
    for name, c in spec["cfgs"]:
        items.append(f"NC {IDX[name]}%nat {coq_cfg_pos(BY_NAME[name], c)}")
    for j, ins in enumerate(spec["insts"]):
        cbx = "cb0" if ins.get("cb") else "nocb"
        if ins["cfg"] is None:
            items.append(f"ND {IDX[ins['det']]}%nat {cbx}")
        else:
            items.append(f"NW {IDX[ins['det']]}%nat {w.cfg_loc[ins['cfg']]}%nat {cbx}")
    pos = [0] * len(spec["insts"])
    for j in schedule:
        o = spec["insts"][j]["ops"][pos[j]]
        pos[j] += 1
        items.append(f"RS {w.locs[j]}%nat" if o == "R" else f"UP {w.locs[j]}%nat {fl(o)}")
    tape = "[" + "; ".join(fl_list(t) for t in w.tape) + "]"
    return "sys [" + "; ".join(items) + "] " + tape


def expected_refs(w: World, spec):
    """The reference graph of the real objects in the model's terms: location -> referenced locations."""
    refs = {0: []}
    for l in w.cfg_loc:
        refs[l] = []
    for j, d in enumerate(w.insts):
        cl = [w.cfg_loc[i] for i, c in enumerate(w.cfgs) if d.config is c]
        refs[w.locs[j]] = cl + ([0] if spec["insts"][j]["det"] == "KSWIN" else [])
    return [refs[l] for l in sorted(refs)]


# --------------------------------------------------------------------------- generation


def small_cfg(rng, det):
    """A generated configuration with a warm-up short enough for <= 6 calls to reach a verdict."""
    c = det.gen_cfg(rng)
    if det.name == "EDDM":
        c["min_num_misclassified_instances"] = rng.choice([0, 1, 2])
    elif det.name == "KSWIN":
        c["min_num_instances"] = rng.choice([2, 3, 4])
        c["num_test_instances"] = rng.choice(sorted({1, c["min_num_instances"] // 2}))
        c["alpha"] = rng.choice([0.3, 0.9, 0.7])
    elif det.name == "RDDM":
        c["min_num_instances"] = rng.choice([1, 2, 3])
        c["min_concept_size"] = rng.choice([1, 2])
        c["max_concept_size"] = c["min_concept_size"] + rng.choice([1, 2])
        c["max_num_instances_warning"] = rng.choice([0, 1, 2])
    elif det.name == "STEPD":
        c["min_num_instances"] = rng.choice([1, 2])
    else:
        c["min_num_instances"] = rng.choice([1, 2, 3])
    if det.name == "ADWIN":
        c["clock"] = 1
        c["min_window_size"] = 1
    return c


def gen_world(rng, small, force=None):
    """2-3 instances: same class sharing ONE configuration object / same class with separate objects /
    different classes; callbacks on some; config=None occasionally."""
    ninst = rng.choice([2, 2, 3])
    mode = force or rng.choice(["shared", "shared", "separate", "different", "mixed"])
    pool = [d for d in ALL]
    a = rng.choice(pool)
    names = {
        "shared": [a] * ninst,
        "separate": [a] * ninst,
        "different": rng.sample(pool, ninst),
        "mixed": [a, a, rng.choice(pool)][:ninst] if ninst == 3 else [a, rng.choice(pool)],
    }[mode]
    cfgs, insts = [], []
    shared_idx = {}
    if small:
        total = rng.choice([4, 5, 6, 6, 6])
        cuts = sorted(rng.sample(range(1, total), ninst - 1))
        lens = [b - a_ for a_, b in zip([0] + cuts, cuts + [total])]
    else:
        lens = [rng.choice([10, 25, 60]) for _ in range(ninst)]
    for j, det in enumerate(names):
        share = mode in ("shared", "mixed") and det.name in shared_idx
        if share:
            ci = shared_idx[det.name]
        elif not small and rng.random() < 0.08 and det.name != "KSWIN":
            ci = None  # config=None
        else:
            cfgs.append((det.name, small_cfg(rng, det) if small else det.gen_cfg(rng)))
            ci = len(cfgs) - 1
            shared_idx.setdefault(det.name, ci)
        c = default_cfg(det) if ci is None else cfgs[ci][1]
        n = lens[j] if det.name != "BOCD" else min(lens[j], 40)
        for _ in range(8):
            ops = gen_ops(rng, det, c, n, resets=False)
            if n >= 2 and rng.random() < (0.35 if small else 0.5):
                ops[rng.randrange(1, n)] = "R"
            if not any(i["det"] == det.name and i["ops"] == ops for i in insts):
                break
        insts.append(dict(det=det.name, cfg=ci, cb=rng.random() < 0.5, ops=ops))
    # KSWIN configurations first: the seed is set before any consumer runs (as in a solo run)
    return dict(cfgs=cfgs, insts=insts), mode


def interleavings(lens):
    """All orders of the multiset {0^l0, 1^l1, ...}."""
    out = []

    def go(rem, acc):
        if not any(rem):
            out.append(list(acc))
            return
        for j, r in enumerate(rem):
            if r:
                rem[j] -= 1
                acc.append(j)
                go(rem, acc)
                acc.pop()
                rem[j] += 1

    go(list(lens), [])
    return out


def sampled_orders(rng, lens, k):
    base = [j for j, n in enumerate(lens) for _ in range(n)]
    outs = []
    rr = [j for t in itertools.zip_longest(*[[j] * n for j, n in enumerate(lens)]) for j in t if j is not None]
    outs.append(rr)  # round robin
    outs.append(list(reversed(base)))  # blocks, last instance first
    while len(outs) < k:
        s = base[:]
        rng.shuffle(s)
        outs.append(s)
    return outs[:k]


# --------------------------------------------------------------------------- one world under several schedules


def sig_classes(spec):
    return "+".join(sorted({i["det"] for i in spec["insts"]}))


def check_world(ck, spec, mode, schedules, heap_exprs, heap_meta, solo_cases, solo_impl, coq_pick):
    lens = [len(i["ops"]) for i in spec["insts"]]
    kcfg, kinst = rng_writers(spec)
    contended = kcfg > 1 or kinst > 1  # another writer of the generator besides one KSWIN's own seed + draws
    base = dict(world=spec, mode=mode)
    # solo runs (twice: repeated runs must agree exactly)
    solos = []
    solo_key = []
    for j in range(len(lens)):
        s1 = run_world(ck, solo_spec(spec, j), [0] * lens[j], footprint=False)
        s2 = run_world(ck, solo_spec(spec, j), [0] * lens[j], footprint=False)
        det = BY_NAME[spec["insts"][j]["det"]]
        if s1[2] is not None:
            ck.violation(dict(clause="raises", detector=det.name, error=type(s1[2][2]).__name__), dict(what="solo run raised on an in-domain stream", instance=j, error=repr(s1[2][2]), **base))
            return False
        if s1[0] != s2[0]:
            ck.violation(dict(clause="repeatable", detector=det.name), dict(what="two solo runs from the same configuration and stream differ", instance=j, **base))
            return False
        solos.append(s1[0][0])
        # the same solo run with the callback toggled: verdicts and statistics must not depend on it
        sp = solo_spec(spec, j)
        sp["insts"][0] = dict(sp["insts"][0], cb=not sp["insts"][0].get("cb"))
        s3 = run_world(ck, sp, [0] * lens[j], footprint=False)
        if s3[2] is not None or [(c, st) for (c, st, _) in s3[0][0][:-1]] != [(c, st) for (c, st, _) in s1[0][0][:-1]]:
            ck.violation(dict(clause="callbacks-transparent", detector=det.name), dict(what="the solo run with and without a history callback differ in outputs or status", instance=j, **base))
            return False
        if spec["insts"][j]["cfg"] is not None:
            cfg = spec["cfgs"][spec["insts"][j]["cfg"]][1]
            key = (det.name, repr(cfg), repr(spec["insts"][j]["ops"]))
            if key not in solo_key and not (det.name == "KSWIN"):
                solo_cases.append((det, cfg, spec["insts"][j]["ops"], None))
                solo_impl.append([ob for _, ob in s1[1]])
            elif det.name == "KSWIN" and key not in solo_key:
                solo_cases.append((det, cfg, spec["insts"][j]["ops"], [t if t else None for t in s1[3].tape]))
                solo_impl.append([ob for _, ob in s1[1]])
            solo_key.append(key)
    distinct = len({repr(s) for s in solos}) == len(solos)
    flagged = any(c[0] or c[1] for s in solos for (c, _, _) in s[:-1])
    ck.count("worlds")
    ck.count(f"mode_{mode}")
    for i in spec["insts"]:
        ck.count(f"inst_{i['det']}")
    ck.count("worlds_with_callbacks", 1 if any(i.get("cb") for i in spec["insts"]) else 0)
    ck.count("worlds_contended_generator", 1 if contended else 0)
    first = True
    for si, sched in enumerate(schedules):
        ck.case(dict(classes=[i["det"] for i in spec["insts"]], mode=mode, lens=lens, schedule="".join(map(str, sched))[:40]), nontrivial=distinct and (flagged or any("R" in i["ops"] for i in spec["insts"])), key=repr((spec, sched)))
        ck.count("interleavings")
        ck.count("calls", len(sched))
        detail = dict(schedule=sched, **base)
        try:
            outs, raw, err, w = run_world(ck, spec, sched, footprint=True)
        except Stop:
            return False
        if err is not None:
            j, p, e = err
            ck.violation(dict(clause="isolation", effect="raises", classes=sig_classes(spec), mode=mode), dict(what="a call raised when interleaved but not in the solo run", instance=j, call=p, error=repr(e), **detail))
            return False
        for j in range(len(lens)):
            isk = spec["insts"][j]["det"] == "KSWIN"
            if outs[j] == solos[j]:
                continue
            if isk and contended:
                ck.count("kswin_interleaved_differs_from_solo(expected)")
                continue
            t = next(t for t, (a, b) in enumerate(zip(outs[j], solos[j])) if a != b)
            part = "outputs" if outs[j][t][0] != solos[j][t][0] else "status" if outs[j][t][1] != solos[j][t][1] else "callback-history"
            ck.violation(
                dict(clause="isolation", effect=part, classes=sig_classes(spec), mode=mode, detector=spec["insts"][j]["det"]),
                dict(what=f"instance {j} ({spec['insts'][j]['det']}) differs from its solo run at its call {t} ({part})", interleaved=outs[j][t], solo=solos[j][t], instance=j, **detail),
            )
            return False
        if kinst:
            orc = kswin_oracle(spec, sched)
            for j in range(len(lens)):
                if spec["insts"][j]["det"] == "KSWIN" and spec["insts"][j]["cfg"] is not None:
                    got = [(c[0], c[2], int(float.fromhex(c[3][0]))) for (c, _, _) in outs[j][:-1]]
                    if got != orc[j]:
                        ck.violation(dict(clause="generator-only-channel", classes=sig_classes(spec)), dict(what="KSWIN outputs differ from the oracle in which one generator, seeded by each KSWINConfig and consumed in schedule order, is the only shared object", instance=j, got=got, oracle=orc[j], **detail))
                        return False
            ck.count("kswin_oracle_checked")
        # aliasing map of the real objects vs the model's constructors
        if first:
            first = False
            if not aliasing(ck, w, spec, detail):
                return False
        # the heap model on the same schedule
        if si in coq_pick:
            heap_exprs.append(coq_schedule(w, spec, sched))
            heap_meta.append((spec, sched, raw, expected_refs(w, spec), [w.locs[j] for j in range(len(lens))]))
        # repeated run of the whole world
        if sched is schedules[0]:
            try:
                outs2, _, err2, _ = run_world(ck, spec, sched, footprint=False)
            except Stop:
                return False
            if err2 is not None or outs2 != outs:
                ck.violation(dict(clause="repeatable", classes=sig_classes(spec), mode=mode), dict(what="running the same world under the same schedule twice gives different outputs", **detail))
                return False
    return True


def aliasing(ck, w: World, spec, detail):
    """(3) which objects two instances have in common, against the model's New / NewD."""
    for j, d in enumerate(w.insts):
        cfgobj = w.cfgs[w.inst_cfg[j]]
        name = spec["insts"][j]["det"]
        if d.config is not cfgobj:
            ck.violation(dict(clause="aliasing", what="config-not-referenced", detector=name), dict(what="the instance does not hold a reference to the configuration object it was given (model: New keeps the reference)", instance=j, **detail))
            return False
        rc = reach(cfgobj)
        rd = reach(d, stop=[cfgobj])
        sh = shared_objects(rd, rc)
        if sh:
            ck.violation(dict(clause="aliasing", what="instance-aliases-config-internals", detector=name), dict(what="the instance refers directly to mutable objects inside its configuration (model: everything but the configuration reference is private; BOCD copies config.model)", shared=sh, instance=j, **detail))
            return False
        for i in range(j):
            ri = reach(w.insts[i], stop=[w.cfgs[w.inst_cfg[i]]])
            sh = shared_objects(rd, ri)
            if sh:
                ck.violation(dict(clause="aliasing", what="instances-share-state", detector=name), dict(what="two instances have mutable objects in common besides the configuration", shared=sh, instances=[i, j], **detail))
                return False
            if w.inst_cfg[i] != w.inst_cfg[j] and shared_objects(reach(w.cfgs[w.inst_cfg[i]]), rc):
                ck.violation(dict(clause="aliasing", what="configs-share-state", detector=name), dict(what="two separately constructed configuration objects have mutable objects in common", instances=[i, j], **detail))
                return False
    ck.count("aliasing_maps_checked")
    return True


def per_class_aliasing(ck, only=None, fixed=None):
    """(3) for each of the 13 classes: config=None twice (fresh configuration each time, nothing in
    common), and two instances from ONE configuration object before / after updates and a reset
    (configuration shared by reference, nothing else; BOCD's model is a copy also after reset)."""
    from frouros.callbacks import HistoryConceptDrift

    rng = ck.rng
    for det in ALL:
        if only is not None and det.name != only:
            continue
        cls = cls_of(det.name)
        ck.case(dict(kind="aliasing-map", detector=det.name), nontrivial=True, key="alias-" + det.name)
        a, b = cls(), cls()
        if a.config is b.config:
            ck.violation(dict(clause="aliasing", what="default-config-shared", detector=det.name), dict(what="two detectors built with config=None hold the SAME configuration object (model NewD: a fresh one per call)", detector=det.name))
            continue
        sh = shared_objects(reach(a), reach(b))
        if sh:
            ck.violation(dict(clause="aliasing", what="instances-share-state", detector=det.name, via="config=None"), dict(what="two detectors built with config=None have mutable objects in common", shared=sh, detector=det.name))
            continue
        c = small_cfg(rng, det) if fixed is None or fixed[0] is None else fixed[0]
        cfgobj = det.make(c).config
        d1 = cls(config=cfgobj, callbacks=HistoryConceptDrift(name="a"))
        d2 = cls(config=cfgobj, callbacks=[HistoryConceptDrift(name="b")])
        ops = gen_ops(rng, det, c, 12, resets=False) if fixed is None or fixed[1] is None else fixed[1]
        for stage in ("constructed", "updated", "reset", "updated-after-reset"):
            if stage.startswith("updated"):
                for o in ops:
                    d1.update(value=o)
                    d2.update(value=o)
            elif stage == "reset":
                d1.reset()
            bad = None
            if d1.config is not cfgobj or d2.config is not cfgobj:
                bad = ("config-not-referenced", "an instance does not refer to the configuration object it was given")
            else:
                r1, r2, rc = reach(d1, stop=[cfgobj]), reach(d2, stop=[cfgobj]), reach(cfgobj)
                if shared_objects(r1, r2):
                    bad = ("instances-share-state", f"two instances from one configuration share mutable objects besides it: {shared_objects(r1, r2)}")
                elif shared_objects(r1, rc) or shared_objects(r2, rc):
                    bad = ("instance-aliases-config-internals", f"an instance refers directly to mutable objects inside its configuration: {shared_objects(r1, rc) + shared_objects(r2, rc)}")
            if bad:
                ck.violation(dict(clause="aliasing", what=bad[0], detector=det.name), dict(what=bad[1] + f" (stage: {stage})", detector=det.name, config=c, ops=ops, stage=stage))
                break
        ck.count("per_class_aliasing_maps")


# --------------------------------------------------------------------------- KSWIN and the generator


def kswin_checks(ck, n):
    from frouros.detectors.concept_drift import KSWIN, KSWINConfig

    rng = ck.rng
    det = BY_NAME["KSWIN"]
    for _ in range(n):
        c = det.gen_cfg(rng)
        c["min_num_instances"] = rng.choice([4, 6, 10, 20])
        c["num_test_instances"] = rng.choice(sorted({1, c["min_num_instances"] // 4 or 1, c["min_num_instances"] // 2}))
        ops = gen_ops(rng, det, c, rng.choice([15, 40, 80]))
        base = dict(config=c, ops=ops)
        ck.case(dict(kind="kswin-generator", config=c, n=len(ops)), nontrivial=True, key=repr(("k", c, ops)))
        ck.count("kswin_generator_cases")
        # (a) construction seeds: the generator is in the state np.random.seed(seed) leaves, whatever it was
        np.random.seed(rng.randrange(2**31))
        np.random.random(rng.randrange(5))
        cfg = KSWINConfig(alpha=c["alpha"], seed=c["seed"], min_num_instances=c["min_num_instances"], num_test_instances=c["num_test_instances"])
        ref = np.random.RandomState(c["seed"]).get_state()
        st0 = np.random.get_state()
        if not (np.array_equal(ref[1], st0[1]) and ref[2:] == st0[2:]):
            ck.violation(dict(clause="kswin-seed", what="config-does-not-seed"), dict(what="after KSWINConfig(seed=s) the global generator is not in the state RandomState(s) (model: NewCfg writes the generator with reseed)", **base))
            continue

        def run(d):
            out = []
            for o in ops:
                d.reset() if o == "R" else d.update(value=o)
                out.append(canon(det.observe(d)))
            return out

        # (b) same generator state => same outputs; the configuration object is shared by both runs
        o1 = run(KSWIN(config=cfg))
        np.random.set_state(st0)
        o2 = run(KSWIN(config=cfg))
        if o1 != o2:
            ck.violation(dict(clause="kswin-same-state", detector="KSWIN"), dict(what="two KSWIN runs from the same generator state, configuration and stream differ", **base))
            continue
        # (c) against the oracle with a private RandomState(seed)
        spec = dict(cfgs=[("KSWIN", c)], insts=[dict(det="KSWIN", cfg=0, cb=False, ops=ops)])
        orc = kswin_oracle(spec, [0] * len(ops))[0]
        got = [(x[0], x[2], int(float.fromhex(x[3][0]))) for x in o1]
        if got != orc:
            ck.violation(dict(clause="generator-only-channel", classes="KSWIN"), dict(what="solo KSWIN differs from the oracle with a private RandomState(seed)", got=got, oracle=orc, **base))
            continue
        # (d) a second KSWINConfig between updates re-seeds (the model's NewCfg says so)
        k = rng.randrange(1, len(ops))
        np.random.set_state(st0)
        d = KSWIN(config=cfg)
        for o in ops[:k]:
            d.reset() if o == "R" else d.update(value=o)
        s2 = rng.randrange(1000)
        KSWINConfig(seed=s2)
        st = np.random.get_state()
        ref2 = np.random.RandomState(s2).get_state()
        if not (np.array_equal(ref2[1], st[1]) and ref2[2:] == st[2:]):
            ck.violation(dict(clause="kswin-seed", what="second-config-does-not-reseed"), dict(what="constructing a second KSWINConfig did not re-seed the global generator (the model says it does)", at=k, seed2=s2, **base))
            continue
        ck.count("kswin_reseed_confirmed")
        rest = []
        for o in ops[k:]:
            d.reset() if o == "R" else d.update(value=o)
            rest.append(canon(det.observe(d)))
        if rest != o1[k:]:
            ck.count("kswin_reseeded_run_differs(expected)")
        # config=None draws OS entropy: KSWINConfig() calls np.random.seed(None)
        np.random.seed(12345)
        a = rng_fingerprint()
        KSWIN()
        if rng_fingerprint() != a:
            ck.count("kswin_config_None_reseeds_from_entropy(expected)")


def observations(ck):
    """Measured facts about sharing that are outside the property's wording (recorded, not judged)."""
    from frouros.callbacks import HistoryConceptDrift
    from frouros.detectors.concept_drift import DDM, STEPD

    lst = [HistoryConceptDrift(name="h")]
    d = DDM(callbacks=lst)
    ck.notes.append(f"observation: a callbacks LIST passed to a constructor is stored by reference (detector.callbacks is the caller's list: {d.callbacks is lst}); two detectors given the same list/callback object would share it - outside the model (one callback object per detector)")
    logs1 = d.update(value=1)
    n1 = len(logs1["h"]["value"])
    d.update(value=0)
    ck.notes.append(f"observation: the logs returned by update() alias the live history lists (length of the dict returned at step 1, read after step 2: {len(logs1['h']['value'])}, was {n1}); C17's subject")
    s = STEPD()
    ck.notes.append(f"observation: STEPD keeps a frozen scipy.stats.norm whose random_state is NumPy's global generator object ({s._distribution.random_state is np.random.mtrand._rand}); it never draws from it (footprint check: generator unchanged by every STEPD call)")


# --------------------------------------------------------------------------- class-level state across a whole run


def global_state():
    return dict(classes=[(c.__module__ + "." + c.__qualname__, snap_class(c)) for c in sorted(frouros_classes(), key=lambda c: (c.__module__, c.__qualname__))], modules=module_data())


def run(ck: Check):
    rng = ck.rng
    thorough = ck.tier == "thorough"
    import frouros.detectors.concept_drift  # noqa: F401
    import frouros.callbacks  # noqa: F401

    g0 = global_state()
    ck.rule(
        "worlds of 2-3 instances over the 13 streaming detectors: same class sharing ONE configuration object (40%), same class with separate objects, different classes, mixed; "
        "history callback on half of the instances; config=None on a few; streams from the detectors' domains (0/1, [0,1], non-negative, real; shifts, bursts, ties) with a reset in a third of them, "
        "distinct streams for instances of one class; small worlds: 4-6 calls in total with warm-ups of 1-3 and ALL interleavings (exhaustive for that bound); "
        "large worlds: 10-60 calls per instance under round-robin, block and random interleavings; non-trivial = solo traces pairwise distinct and a flag or a reset occurs"
    )
    heap_exprs, heap_meta, solo_cases, solo_impl = [], [], [], []
    n_small = 60 if not thorough else 400
    n_large = 80 if not thorough else 600
    modes = ["shared", "separate", "different", "mixed"]
    for t in range(n_small):
        spec, mode = gen_world(rng, True, force=modes[t % 4] if t < 16 else None)
        lens = [len(i["ops"]) for i in spec["insts"]]
        scheds = interleavings(lens)
        ck.count("small_worlds")
        ck.count("small_world_interleavings", len(scheds))
        check_world(ck, spec, mode, scheds, heap_exprs, heap_meta, solo_cases, solo_impl, {0, len(scheds) // 2, len(scheds) - 1})
    for t in range(n_large):
        spec, mode = gen_world(rng, False, force=modes[t % 4] if t < 16 else None)
        lens = [len(i["ops"]) for i in spec["insts"]]
        ck.count("large_worlds")
        check_world(ck, spec, mode, sampled_orders(rng, lens, 3), heap_exprs, heap_meta, solo_cases, solo_impl, {t % 3})
    # worlds built to contend for the generator: two KSWINs / KSWIN + non-consumers
    for t in range(12 if not thorough else 80):
        det = BY_NAME["KSWIN"]
        c1, c2 = small_cfg(rng, det), small_cfg(rng, det)
        other = rng.choice([d for d in ALL if d.name != "KSWIN"])
        kind = t % 3
        if kind == 0:  # two KSWINs, one configuration object
            spec = dict(cfgs=[("KSWIN", c1)], insts=[dict(det="KSWIN", cfg=0, cb=False, ops=gen_ops(rng, det, c1, 3, resets=False)), dict(det="KSWIN", cfg=0, cb=True, ops=gen_ops(rng, det, c1, 3, resets=False))])
        elif kind == 1:  # two KSWINs, two configurations (the second constructor re-seeds)
            spec = dict(cfgs=[("KSWIN", c1), ("KSWIN", c2)], insts=[dict(det="KSWIN", cfg=0, cb=False, ops=gen_ops(rng, det, c1, 3, resets=False)), dict(det="KSWIN", cfg=1, cb=False, ops=gen_ops(rng, det, c2, 3, resets=False))])
        else:  # KSWIN with a non-consumer: must equal the solo run exactly
            co = small_cfg(rng, other)
            spec = dict(cfgs=[("KSWIN", c1), (other.name, co)], insts=[dict(det="KSWIN", cfg=0, cb=True, ops=gen_ops(rng, det, c1, 4, resets=False)), dict(det=other.name, cfg=1, cb=False, ops=gen_ops(rng, other, co, 2, resets=False))])
        lens = [len(i["ops"]) for i in spec["insts"]]
        ck.count("generator_worlds")
        check_world(ck, spec, ["kswin-shared", "kswin-two-configs", "kswin-with-nonconsumer"][kind], interleavings(lens), heap_exprs, heap_meta, solo_cases, solo_impl, {1, 7})
    ck.rule("KSWIN and the generator: construction seeds (state compared with RandomState(seed)), equal states give equal runs, solo run equals an oracle with a private RandomState, a second KSWINConfig re-seeds; interleaved consumers are compared with the one-generator oracle, not with their solo runs")
    kswin_checks(ck, 12 if not thorough else 80)
    ck.rule("aliasing map per class: config=None twice, and two instances from one configuration object at four stages (constructed, updated, one reset, updated again), by identity and by array memory")
    per_class_aliasing(ck)
    observations(ck)

    # class attributes / module data of the whole package after everything above
    g1 = global_state()
    if g0 != g1:
        what = "class attributes" if g0["classes"] != g1["classes"] else "module-level data"
        names = [a[0] for a, b in zip(g0["classes"], g1["classes"]) if a != b][:5]
        ck.violation(dict(clause="footprint", op="any", written="class-or-module-state"), dict(what=f"{what} of the frouros package changed while detectors were running", classes=names))
    ck.count("package_classes_snapshotted", len(g0["classes"]))

    # ----------------------------------------------------------------- the Coq side
    # (a) solo runs vs the detector models (the right-hand side of the isolation theorem)
    models = run_models("C16solo", solo_cases, shard=40)
    corr_compare(ck, "C16solo", solo_cases, solo_impl, models)
    model_of = {(c[0].name, repr(c[1]), repr(c[2])): m for c, m in zip(solo_cases, models)}
    # (b) the heap model on the interleaved schedules
    res = coq_eval("C16heap", heap_header(), heap_exprs, shard=25)
    for (spec, sched, raw, erefs, locs), r in zip(heap_meta, res):
        ck.corr_cases += 1
        trace, refs = r[0], r[1]
        detail = dict(world=spec, schedule=sched)
        if [list(map(int, x)) for x in refs] != erefs:
            ck.mismatch("heap model reference graph (refs) vs `is` on the objects", dict(model=refs, impl=erefs, **detail))
            continue
        if len(trace) != len(raw) or any(t is None for t in trace):
            ck.mismatch("heap model trace length", dict(model_len=len(trace), impl_len=len(raw), **detail))
            continue
        pos = [0] * len(spec["insts"])
        per_inst = [[] for _ in spec["insts"]]
        for (j, ob), t in zip(raw, trace):
            o = t[1]
            per_inst[j].append((bool(o[0]), bool(o[1]), int(o[2]), [float(x) for x in o[3]]))
        kcfg, kinst = rng_writers(spec)
        for j, ins in enumerate(spec["insts"]):
            impl_j = [ob for (jj, ob) in raw if jj == j]
            key = (ins["det"], repr(spec["cfgs"][ins["cfg"]][1]), repr(ins["ops"])) if ins["cfg"] is not None else None
            m = model_of.get(key)
            if m is not None and not (ins["det"] == "KSWIN" and (kcfg > 1 or kinst > 1)):
                # theorem C16_isolation, instantiated: heap model = solo model, EXACTLY
                if not traces_identical(per_inst[j], m):
                    ck.mismatch("heap model vs solo model (must be identical: C16_isolation)", dict(instance=j, heap=per_inst[j][:3], solo=m[:3], **detail))
                    break
            else:
                d = compare_traces(impl_j, per_inst[j])
                if d is not None:
                    if BY_NAME[ins["det"]].uses_transcendentals and "flags" in d[1]:
                        ck.near_ties += 1
                    else:
                        ck.mismatch(f"heap model vs {ins['det']} (interleaved)", dict(instance=j, step=d[0], diff=d[1], **detail))
                        break
    ck.count("heap_model_schedules", len(heap_exprs))


def traces_identical(a, b):
    if len(a) != len(b):
        return False
    for x, y in zip(a, b):
        if x[:3] != y[:3] or len(x[3]) != len(y[3]):
            return False
        for u, v in zip(x[3], y[3]):
            if not ((math.isnan(u) and math.isnan(v)) or u == v):
                return False
    return True


ASSUMPTIONS = [
    "the heap model puts a callback's history inside the instance object it is attached to: one callback object is attached to one detector (sharing one callback object between detectors is outside the property's quantifier)",
    "numpy.random's generator is abstract in the theorems (draw / reseed are Section variables); the Coq evaluation replays the draws recorded from the implementation in global order",
    "KSWINConfig(seed=None) (also built by KSWIN(config=None)) seeds from OS entropy: runs are then not reproducible by design of the seed argument; the property's parenthesis restricts KSWIN to runs from equal generator states",
    "a configuration class is accepted only by its own detector class (checked on the implementation for all 13 x 13 pairs); user-defined configuration subclasses are not modelled",
    "snapshots are by value through __dict__, lists, dicts, deques and array bytes; C-level state other than NumPy's legacy global generator is not visible to them",
]


def run_function_of_values_since_reset(ck):
    """With a history callback attached, everything reported after reset() - detector outputs AND the callback's
    scalar logs - is a function of the configuration and the values seen since the reset: it equals what a new
    detector with a new callback reports on those values alone."""
    from frouros.callbacks import HistoryConceptDrift
    from frouros.utils.stats import BaseStat

    rng = ck.rng
    ck.rule("callback + reset: pre-stream, reset(), post-stream on a detector with HistoryConceptDrift vs a new detector/callback on the post-stream alone: flags, counters and every scalar history list must be identical (non-KSWIN detectors)")

    def scal(v):
        v = v.get() if isinstance(v, BaseStat) else v
        if v is None:
            return "nan"
        if isinstance(v, (bool, int, float, np.integer, np.floating, np.bool_)):
            return float(v).hex() if not (isinstance(v, float) and math.isnan(v)) else "nan"
        return "obj"

    for det in ALL:
        if det.name == "KSWIN":
            continue
        for _ in range(3 if ck.tier != "thorough" else 15):
            c = det.gen_cfg(rng)
            pre = gen_ops(rng, det, c, rng.choice([7, 25, 60]) if det.name != "BOCD" else 12, resets=False)
            post = gen_ops(rng, det, c, rng.choice([10, 40]) if det.name != "BOCD" else 12, resets=False)
            cb1, cb2 = HistoryConceptDrift(name="h"), HistoryConceptDrift(name="h")
            d1, d2 = det.make(c, callbacks=[cb1]), det.make(c, callbacks=[cb2])
            try:
                for v in pre:
                    d1.update(value=v)
                d1.reset()
                o1 = []
                for v in post:
                    d1.update(value=v)
                    o1.append(canon(det.observe(d1)))
                o2 = []
                for v in post:
                    d2.update(value=v)
                    o2.append(canon(det.observe(d2)))
            except Exception as e:  # noqa: BLE001
                ck.violation(dict(clause="raises", detector=det.name, error=type(e).__name__), dict(detector=det.name, config=c, pre=pre, post=post, error=repr(e)))
                continue
            h1 = {k: [scal(x) for x in v] for k, v in cb1.history.items()}
            h2 = {k: [scal(x) for x in v] for k, v in cb2.history.items()}
            ck.case(dict(kind="callback-reset", detector=det.name, config=c, pre=len(pre), post=len(post)), nontrivial=True, key=repr((det.name, c, pre, post)))
            ck.count("callback_reset_cases")
            if o1 != o2 or h1 != h2:
                bad = next((k for k in h1 if h1[k] != h2.get(k)), "outputs")
                ck.violation(dict(clause="function-of-values-since-reset", detector=det.name, var=bad), dict(what="after reset() the detector / its history callback reports something a new detector with a new callback does not report on the same values", detector=det.name, config=c, pre=pre, post=post, var=bad, after_reset=h1.get(bad), fresh=h2.get(bad)))


NUMERIC_TYPES = [("int", int), ("float", float), ("bool", bool), ("np.uint8", np.uint8), ("np.int8", np.int8), ("np.int64", np.int64),
                 ("np.float64", np.float64), ("np.bool_", np.bool_)]


def run_input_representation(ck):
    """The outputs are a function of the VALUES: a 0/1 stream handed over as Python ints, floats, bools or NumPy
    scalars of any integer / float64 / bool type must give identical flags, counters and statistics.  Streams are long
    and mostly ones, so that every internal count passes 127 and 255 (the wrap-around points of 8-bit scalars)."""
    rng = ck.rng
    ck.rule("input representation: one 0/1 stream of 300-420 values (about 85% ones, with a level change) fed as int / float / bool / np.uint8 / np.int8 / np.int64 / np.float64 / np.bool_ to all 13 detectors: identical traces required")
    for det in ALL:
        for rep in range(1 if ck.tier != "thorough" else 4):
            c = det.gen_cfg(rng) if rep else default_cfg(det)
            if det.name == "KSWIN":
                c = dict(c, seed=rng.randrange(1, 1000))
            n = rng.choice([300, 420]) if det.name != "BOCD" else 60
            k = rng.randrange(n // 3, 2 * n // 3)
            xs = [int(rng.random() < (0.9 if i < k else 0.8)) for i in range(n)]
            base = None
            for tname, ty in NUMERIC_TYPES:
                try:
                    d = det.make(c)
                    tr = []
                    for v in xs:
                        d.update(value=ty(v))
                        tr.append(canon(det.observe(d)))
                except Exception as e:  # noqa: BLE001
                    if base is None:
                        break
                    if isinstance(e, TypeError) and not tr:
                        ck.count(f"representation_rejected_by_type_check:{tname}")  # a documented TypeError at the first update: the type is outside the accepted domain
                        continue
                    ck.violation(dict(clause="input-representation", detector=det.name, type=tname, error=type(e).__name__),
                                 dict(what="a 0/1 stream raises when its values are handed over in another numeric representation", detector=det.name, config=c, type=tname, error=repr(e), stream_head=xs[:10], n=n))
                    continue
                if base is None:
                    base = tr
                    continue
                ck.count("representation_runs")
                if tr != base:
                    step = next(i for i, (a, b_) in enumerate(zip(tr, base)) if a != b_)
                    ck.violation(dict(clause="input-representation", detector=det.name, type=tname),
                                 dict(what="the same 0/1 values give different outputs when handed over as another numeric type", detector=det.name, config=c, type=tname, first_differing_step=step, got=tr[step], as_python_int=base[step], ones_before=sum(xs[:step + 1]), stream_head=xs[:10], n=n))
            ck.case(dict(kind="input-representation", detector=det.name, config=c, n=n), nontrivial=True, key=repr(("repr", det.name, c, xs[:20])))


def run_callback_transparency_typed(ck):
    """With a history callback attached a detector reports what it reports alone -- also when the values arrive as
    narrow NumPy floats / ints (a conversion applied on one path only would show); and a deep copy taken in
    mid-stream continues exactly like the original (the outputs are a function of configuration and values)."""
    import copy as _copy

    from frouros.callbacks import HistoryConceptDrift

    rng = ck.rng
    ck.rule("callback transparency for np.float32 / np.float16 / np.uint8 / np.int64 streams (0/1 and dyadic values): alone == with HistoryConceptDrift; deepcopy in mid-stream (after queues have wrapped) continues like the original")
    for det in ALL:
        if det.name == "KSWIN":
            continue
        c = default_cfg(det)
        n = 260 if det.name != "BOCD" else 50
        k = rng.randrange(n // 3, 2 * n // 3)
        xs = [int(rng.random() < (0.3 if i < k else 0.7)) for i in range(n)]
        for tname, ty in (("np.float32", np.float32), ("np.float16", np.float16), ("np.uint8", np.uint8), ("np.int64", np.int64)):
            try:
                d1, d2 = det.make(c), det.make(c, callbacks=[HistoryConceptDrift(name="h")])
                t1, t2 = [], []
                for v in xs:
                    d1.update(value=ty(v))
                    t1.append(canon(det.observe(d1)))
                    d2.update(value=ty(v))
                    t2.append(canon(det.observe(d2)))
            except Exception as e:  # noqa: BLE001
                ck.violation(dict(clause="raises", detector=det.name, error=type(e).__name__, scenario="typed-callback"), dict(detector=det.name, config=c, type=tname, error=repr(e)))
                continue
            ck.count("typed_callback_runs")
            if t1 != t2:
                step = next(i for i, (a, b_) in enumerate(zip(t1, t2)) if a != b_)
                ck.violation(dict(clause="callback-transparency", detector=det.name, type=tname), dict(what="with a history callback attached the detector reports something else than alone on the same stream of NumPy scalars", detector=det.name, config=c, type=tname, step=step, alone=t1[step], with_callback=t2[step], stream_head=xs[:10], n=n))
        # deep copy in mid-stream
        try:
            d0, d3 = det.make(c), det.make(c)
            cut = rng.choice([100, 137])
            if det.name == "BOCD":
                cut = 20
            t0, t3 = [], []
            for i, v in enumerate(xs):
                if i == cut:
                    d3 = _copy.deepcopy(d3)
                d0.update(value=v)
                t0.append(canon(det.observe(d0)))
                d3.update(value=v)
                t3.append(canon(det.observe(d3)))
        except Exception as e:  # noqa: BLE001
            ck.violation(dict(clause="raises", detector=det.name, error=type(e).__name__, scenario="deepcopy"), dict(detector=det.name, config=c, error=repr(e)))
            continue
        ck.case(dict(kind="typed-callback+deepcopy", detector=det.name, config=c, n=n), nontrivial=True, key=repr(("tcb", det.name, c, xs[:20])))
        if t0 != t3:
            step = next(i for i, (a, b_) in enumerate(zip(t0, t3)) if a != b_)
            ck.violation(dict(clause="function-of-values", detector=det.name, scenario="deepcopy"), dict(what="a deep copy of the detector taken in mid-stream continues differently from the original on the same values", detector=det.name, config=c, copied_at=cut, step=step, original=t0[step], copy=t3[step], n=n))


def run_kswin_large_window(ck):
    """KSWIN with a window of more than a thousand values: two runs with the same configuration, stream and NumPy generator
    state give the same flags (NumPy's global generator is the ONLY source of randomness), and each draw is taken from the
    older part of the window (checked through the recorded np.random.choice calls)."""
    import random as _random
    from frouros.detectors.concept_drift import KSWIN as _KSWIN, KSWINConfig as _KSWINConfig

    prng = _random.Random(161616)
    n, test = 1100, 40
    stream = [prng.gauss(0, 1) for _ in range(n)] + [prng.gauss(0.15, 1) for _ in range(60 if ck.tier != "thorough" else 300)]
    runs = []
    draws = []
    try:
        for rep in range(2):
            with ChoiceRecorder() as rec:
                d = _KSWIN(config=_KSWINConfig(alpha=0.2, seed=77, min_num_instances=n, num_test_instances=test))
                np.random.seed(4321)
                out = []
                for v in stream:
                    d.update(value=v)
                    out.append(bool(d.drift))
                draws.append(len(rec.draws))
            runs.append(out)
    except Exception as e:  # noqa: BLE001
        ck.violation(dict(clause="raises", detector="KSWIN", scenario="large-window"), dict(error=repr(e), min_num_instances=n, num_test_instances=test))
        return
    due = len(stream) - n + 1  # one draw per update once the window is full
    flips = sum(1 for a, b_ in zip(runs[0][:-1], runs[0][1:]) if a != b_)
    ck.case(dict(kind="kswin-large-window", min_num_instances=n, num_test_instances=test, updates=len(stream), drift_flag_changes=flips), nontrivial=flips > 0, key=repr(("kswin-large", n, test)))
    ck.count("kswin_large_window_runs", 2)
    if runs[0] != runs[1]:
        step = next(i for i, (a, b_) in enumerate(zip(*runs)) if a != b_)
        ck.violation(dict(clause="kswin-determinism", scenario="large-window"), dict(what="two KSWIN runs with the same configuration, stream and NumPy generator state report different flags", min_num_instances=n, num_test_instances=test, seed=77, reseed=4321, first_difference=step))
    elif draws != [due, due]:
        ck.violation(dict(clause="kswin-determinism", scenario="large-window", cause="draws-not-from-numpy"), dict(what="once the window is full every update must draw its sample through np.random.choice (NumPy's global generator)", draws_seen=draws, updates_with_full_window=due, min_num_instances=n))


def main(tier, seed):
    ck = Check("C16", tier, seed)
    ck.proof = check_props("C16")
    ck.assumptions = ASSUMPTIONS
    run(ck)
    run_function_of_values_since_reset(ck)
    run_input_representation(ck)
    run_callback_transparency_typed(ck)
    run_kswin_large_window(ck)
    return ck.finish()


def replay(obj):
    """Re-run the recorded world under the recorded schedule with every monitor on."""
    import json

    print(json.dumps({k: v for k, v in obj.items() if k != "log"}, indent=1, default=str)[:4000])
    spec = obj.get("world")
    sig = obj.get("signature", {})
    if spec is None and sig.get("clause") == "aliasing" and sig.get("detector") in BY_NAME:
        ck = Check("C16", "replay", 0)
        per_class_aliasing(ck, only=sig["detector"], fixed=(obj.get("config"), obj.get("ops")))
        print("replay:", "violation reproduced" if ck.violations else "no violation on this tree")
        for s_, d in ck.violations[:1]:
            print(json.dumps(dict(signature=s_, what=d.get("what")), indent=1, default=str))
        return 1 if ck.violations else 0
    if spec is None:
        return main("quick", int(obj.get("seed", 0)))
    spec = dict(cfgs=[tuple(c) for c in spec["cfgs"]], insts=spec["insts"])
    lens = [len(i["ops"]) for i in spec["insts"]]
    sched = obj.get("schedule") or sampled_orders(__import__("random").Random(0), lens, 1)[0]
    ck = Check("C16", "replay", 0)
    ck.proof = dict(ok=True, theorems=[], axioms=[], log="replay: proofs not re-checked")
    ok = check_world(ck, spec, obj.get("mode", "replay"), [sched], [], [], [], [], set())
    print("replay:", "violation reproduced" if ck.violations else "no violation on this tree")
    for s, d in ck.violations[:1]:
        print(json.dumps(dict(signature=s, what=d.get("what")), indent=1, default=str))
    return 1 if ck.violations else 0
