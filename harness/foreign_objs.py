"""Objects that are NOT frouros detectors / callbacks although their classes carry the same names as frouros'
base classes (importable, hence picklable): save() must reject them like any other foreign object."""


class BaseCallback:  # unrelated to frouros.callbacks.base.BaseCallback
    def __init__(self):
        self.name = "foreign"
        self.logs = {}


class BaseDetector:  # unrelated to frouros.detectors.base.BaseDetector
    def __init__(self):
        self.callbacks = []


class MyCallback(BaseCallback):
    pass


class MyDetector(BaseDetector):
    pass
