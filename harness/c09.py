"""C09 — MMD is the unbiased estimator for any chunking; streaming MMD = batch on window."""
from __future__ import annotations

import functools
import math

import numpy as np

from lib import HEADER, Check, check_props, close, coq_eval, fl, fl_list, z

HDR = (
    HEADER
    + "From FV Require Import Queue MMD.\n"
    + """
Definition exn_tag (e : exn) : Z :=
  match e with
  | ValueError => 1 | TypeError => 2 | MissingFitError => 3 | DimensionError => 4
  | MismatchDimensionError => 5 | EmptyQueueError => 6 | ZeroDivisionError => 7 | _ => 99
  end.
Definition pr (r : res float) : Z * float := match r with Ok x => (0, x) | Raise e => (exn_tag e, 0%float) end.
Definition K := rbf (A:=FloatA).
(* new detector; fit X; compare Y  — and the stand-alone statistic *)
Definition fitcmp (s : float) (c : option Z) (X Y : arr FloatA) : res float :=
  match valid_chunk c with Raise e => Raise e | Ok _ =>
  let '(st, r) := mb_fit (K s) c mb_new X in
  match r with Raise e => Raise e | Ok _ => mb_compare (K s) c st Y end end.
Definition static (s : float) (c : option Z) (X Y : arr FloatA) : res float := mb_statistic (K s) c X Y.
Definition both (s : float) (X Y : arr FloatA) (cs : list (option Z)) : list ((Z * float) * (Z * float)) :=
  map (fun c => (pr (fitcmp s c X Y), pr (static s c X Y))) cs.
(* fit X1; [reset;] fit X2; compare Y *)
Definition refit (s : float) (c : option Z) (rs : bool) (X1 X2 Y : arr FloatA) : Z * float :=
  let '(st1, _) := mb_fit (K s) c mb_new X1 in
  let st1' := if rs then mb_reset st1 else st1 in
  let '(st2, r) := mb_fit (K s) c st1' X2 in
  match r with Raise e => (exn_tag e, 0%float) | Ok _ => pr (mb_compare (K s) c st2 Y) end.
Definition sout_pr (o : sout FloatA) : Z * Z * float :=
  match o with
  | OFit (Ok _) => (0, 0, 0%float) | OFit (Raise e) => (0, exn_tag e, 0%float)
  | OReset => (1, 0, 0%float)
  | OUpd (Ok None) => (2, 0, 0%float) | OUpd (Ok (Some d)) => (3, 0, d) | OUpd (Raise e) => (2, exn_tag e, 0%float)
  end.
Definition srun (s : float) (c : option Z) (w : Z) (h : list (sev FloatA)) : list (Z * Z * float) :=
  match ms_new w c with
  | Ok s0 => map sout_pr (snd (ms_run (K s) c s0 h))
  | Raise e => [(9, exn_tag e, 0%float)]
  end.
"""
)

EXN_TAG = {
    "ValueError": 1,
    "TypeError": 2,
    "MissingFitError": 3,
    "DimensionError": 4,
    "MismatchDimensionError": 5,
    "EmptyQueueError": 6,
    "ZeroDivisionError": 7,
}
RTOL, ATOL = 1e-9, 1e-12

# ------------------------------------------------------------------ the property's formula (oracle)


def as_points(a):
    a = np.asarray(a, dtype=float)
    return [[float(v)] for v in a] if a.ndim == 1 else [[float(v) for v in r] for r in a]


def k_rbf(x, y, sigma):
    d2 = math.fsum((a - b) * (a - b) for a, b in zip(x, y))
    return math.exp(-d2 / (2.0 * sigma * sigma))


def mmd_direct(X, Y, sigma):
    """sum_{i!=j}k(x_i,x_j)/(n(n-1)) + sum_{i!=j}k(y_i,y_j)/(m(m-1)) - 2 sum_{i,j}k(x_i,y_j)/(nm):
    plain O(nm) double sums over index pairs, no chunking, no diagonal trick, no NumPy."""
    X, Y = as_points(X), as_points(Y)
    n, m = len(X), len(Y)
    sxx = math.fsum(k_rbf(X[i], X[j], sigma) for i in range(n) for j in range(n) if i != j)
    syy = math.fsum(k_rbf(Y[i], Y[j], sigma) for i in range(m) for j in range(m) if i != j)
    sxy = math.fsum(k_rbf(X[i], Y[j], sigma) for i in range(n) for j in range(m))
    return sxx / (n * (n - 1)) + syy / (m * (m - 1)) - 2.0 * sxy / (n * m)


# ------------------------------------------------------------------ implementation side


def kernel_of(sigma):
    from frouros.utils.kernels import rbf_kernel

    return rbf_kernel if sigma is None else functools.partial(rbf_kernel, sigma=sigma)


def sig_val(sigma):
    return 1.0 if sigma is None else float(sigma)


def call(f):
    """run f; float result, None, or the exception class name"""
    try:
        r = f()
    except Exception as e:  # noqa: BLE001 - exception classes are observables here
        return type(e).__name__
    return r


def impl_fitted(X, Y, sigma, chunk):
    from frouros.detectors.data_drift.batch import MMD

    def go():
        det = MMD(kernel=kernel_of(sigma), chunk_size=chunk)
        det.fit(X=X)
        return float(det.compare(X=Y)[0].distance)

    return call(go)


def impl_static(X, Y, sigma, chunk):
    from frouros.detectors.data_drift.batch import MMD

    def go():
        det = MMD(kernel=kernel_of(sigma), chunk_size=chunk)
        return float(det.statistical_method(X, Y, **det.statistical_kwargs))

    return call(go)


def impl_static_fitted_elsewhere(X, Y, Xother, sigma, chunk):
    """the stand-alone statistic (what the permutation test evaluates on re-split samples) called through a detector that
    was FITTED on another reference: it must be the statistic of the samples it is given"""
    from frouros.detectors.data_drift.batch import MMD

    def go():
        det = MMD(kernel=kernel_of(sigma), chunk_size=chunk)
        det.fit(X=Xother)
        return float(det.statistical_method(X, Y, **det.statistical_kwargs))

    return call(go)


def impl_setters(X, Y, sigma, chunk):
    """kernel and chunk_size assigned through the public setters AFTER construction: compare and the stand-alone
    statistic (what the permutation test evaluates) must both use them; returns (fitted, static)"""
    from frouros.detectors.data_drift.batch import MMD

    def go():
        det = MMD()
        det.kernel = kernel_of(sigma)
        det.chunk_size = chunk
        det.fit(X=X)
        a = float(det.compare(X=Y)[0].distance)
        b_ = float(det.statistical_method(X, Y, **det.statistical_kwargs))
        return a, b_

    return call(go)


def impl_refit(X1, X2, Y, sigma, chunk, with_reset):
    from frouros.detectors.data_drift.batch import MMD

    def go():
        det = MMD(kernel=kernel_of(sigma), chunk_size=chunk)
        det.fit(X=X1)
        det.compare(X=Y)
        if with_reset:
            det.reset()
        det.fit(X=X2)
        return float(det.compare(X=Y)[0].distance)

    return call(go)


def impl_stream(w, chunk, sigma, events):
    """events: ("fit", array) | ("reset",) | ("upd", scalar-or-vector). Returns outcomes."""
    from frouros.detectors.data_drift.streaming import MMD as MMDStreaming

    try:
        det = MMDStreaming(window_size=w, kernel=kernel_of(sigma), chunk_size=chunk)
    except Exception as e:  # noqa: BLE001
        return [("new", type(e).__name__)]
    outs = []
    for ev in events:
        if ev[0] == "fit":
            outs.append(("fit", call(lambda: (det.fit(X=ev[1]), None)[1])))
        elif ev[0] == "reset":
            det.reset()
            outs.append(("reset", None))
        else:
            v = ev[1]

            def go():
                r, _ = det.update(value=v)
                return None if r is None else float(r.distance)

            outs.append(("upd", call(go)))
    return outs


# ------------------------------------------------------------------ Coq literals


def coq_arr(a):
    a = np.asarray(a, dtype=float)
    if a.ndim == 1:
        return f"(Arr1 (A:=FloatA) {fl_list(a)})"
    return f"(Arr2 (A:=FloatA) {z(a.shape[1])} [" + "; ".join(fl_list(r) for r in a) + "])"


def coq_chunk(c):
    return "None" if c is None else f"(Some {z(c)})"


def coq_ev(ev):
    if ev[0] == "fit":
        return f"SFit {coq_arr(ev[1])}"
    if ev[0] == "reset":
        return "SReset"
    v = ev[1]
    if np.ndim(v) == 0:
        return f"SUpd (VS (A:=FloatA) {fl(v)})"
    return f"SUpd (VV (A:=FloatA) {fl_list(v)})"


def model_val(t):
    """(tag, value) from the model -> float or exception name"""
    tag, v = t
    if tag == 0:
        return float(v)
    return next((k for k, n in EXN_TAG.items() if n == tag), f"exn{tag}")


def agree(a, b):
    if isinstance(a, str) or isinstance(b, str):
        return a == b
    return close(a, b, RTOL, ATOL)


# ------------------------------------------------------------------ generators

SIGMAS = [None, None, 0.1, 0.5, 1.0, 2.0, 10.0, 2]
SIZES = [2, 2, 2, 3, 3, 4, 5, 7, 8, 9, 16, 17, 31, 32, 39, 40, 40]


def gen_sample(rng, n, d, kind, base=None):
    """n points of dimension d (d=None: 1-D array)."""
    dd = d or 1
    if kind == "const":
        row = base if base is not None else [rng.choice([0.0, 1.5, -2.0]) for _ in range(dd)]
        a = [list(row) for _ in range(n)]
    elif kind == "ints":
        a = [[float(rng.randrange(-2, 3)) for _ in range(dd)] for _ in range(n)]
    elif kind == "far":
        a = [[rng.gauss(0, 30.0) for _ in range(dd)] for _ in range(n)]
    elif kind == "tiny":
        a = [[rng.gauss(0, 1e-3) for _ in range(dd)] for _ in range(n)]
    elif kind == "shift":
        a = [[rng.gauss(1.5, 1.0) for _ in range(dd)] for _ in range(n)]
    else:
        a = [[rng.gauss(0, 1.0) for _ in range(dd)] for _ in range(n)]
    arr = np.array(a, dtype=float)
    return arr[:, 0].copy() if d is None else arr


def gen_pair(rng):
    d = rng.choice([None, None, 1, 2, 3, 4])
    n = rng.choice(SIZES + [rng.randrange(2, 41)])
    m = rng.choice(SIZES + [rng.randrange(2, 41), n])
    kind = rng.choice(["same", "same", "shift", "shift", "ints", "const", "far", "tiny", "subset"])
    if kind == "const":
        X = gen_sample(rng, n, d, "const")
        Y = gen_sample(rng, m, d, "const", base=as_points(X)[0] if rng.random() < 0.5 else None)
    elif kind == "subset":
        X = gen_sample(rng, n, d, "same")
        Y = np.array([X[rng.randrange(n)] for _ in range(m)])
    elif kind == "shift":
        X, Y = gen_sample(rng, n, d, "same"), gen_sample(rng, m, d, "shift")
    else:
        X, Y = gen_sample(rng, n, d, kind), gen_sample(rng, m, d, kind)
    sigma = rng.choice(SIGMAS)
    return d, n, m, kind, X, Y, sigma


def chunk_class(c, n, m):
    if c is None:
        return "none"
    if c >= max(n, m):
        return "ge_max"
    if n % c == 0 and m % c == 0:
        return "divides_both"
    return "ragged"


# ------------------------------------------------------------------ the check


def run(ck: Check):
    rng = ck.rng
    thorough = ck.tier == "thorough"

    # ------------------------------------------------------------ batch: every chunk size, both paths
    ck.rule(
        "batch: sample pairs of dimension 1-4 and 1-D arrays, n,m in 2..40 with 2,3,powers of two +-1 and 40 over-represented, "
        "data kinds {same law, shifted, small integers (ties), all points equal, far apart (kernel underflow), tiny scale (cancellation), Y subset of X}, "
        "bandwidth in {default, 0.1, 0.5, 1, 2, 10, int 2}; EVERY chunk_size in 1..max(n,m)+2 and None, fitted path (fit+compare) and static path "
        "(statistical_method(**statistical_kwargs)) both compared with the O(nm) index-pair double sum of the statement (math.fsum, no NumPy), rtol 1e-9 + atol 1e-12; "
        "refit with and without reset must use the new reference; non-trivial = some chunk size is ragged (divides neither n nor m evenly)"
    )
    n_batch = 90 if not thorough else 600
    corr = []  # (X, Y, sigma, chunks, impl results)
    for _ in range(n_batch):
        d, n, m, kind, X, Y, sigma = gen_pair(rng)
        sv = sig_val(sigma)
        expected = mmd_direct(X, Y, sv)
        chunks = [None] + list(range(1, max(n, m) + 3))
        results = {}
        ragged = False
        for c in chunks:
            a = impl_fitted(X, Y, sigma, c)
            b_ = impl_static(X, Y, sigma, c)
            results[c] = (a, b_)
            cc = chunk_class(c, n, m)
            ragged = ragged or cc == "ragged"
            ck.count("chunk_" + cc)
            for path, got in (("fitted", a), ("static", b_)):
                if isinstance(got, str) or not close(got, expected, RTOL, ATOL):
                    ck.violation(
                        dict(clause="estimator", path=path, chunk=cc, ndim=1 if d is None else 2),
                        dict(replay_kind="batch", what=f"MMD ({path} path) differs from the unbiased estimator", X=X.tolist(), Y=Y.tolist(), sigma=sigma, chunk_size=c, path=path, got=got, expected=expected),
                    )
        if sigma is not None:
            cset = rng.choice(chunks)
            r = impl_setters(X, Y, sigma, cset)
            ck.count("setter_cases")
            if not (isinstance(r, tuple) and close(r[0], expected, 1e-9, 1e-12) and close(r[1], expected, 1e-9, 1e-12)):
                ck.violation(
                    dict(clause="estimator", path="setters"),
                    dict(replay_kind="batch", what="kernel / chunk_size assigned through the setters: compare or the stand-alone statistic differs from the unbiased estimator with that kernel", X=X.tolist(), Y=Y.tolist(), sigma=sigma, chunk_size=cset, path="setters", got=r, expected=expected),
                )
        # the stand-alone statistic through a detector fitted on ANOTHER reference (own generator, no draw from `rng`)
        import random as _random

        prng = _random.Random(len(corr) * 7919 + 909)
        Xo = np.array([prng.gauss(0.3, 1.1) for _ in range(n)]) if d is None else np.array([[prng.gauss(0.3, 1.1) for _ in range(d)] for _ in range(n)])
        cfe = prng.choice(chunks)
        rfe = impl_static_fitted_elsewhere(X, Y, Xo, sigma, cfe)
        ck.count("static_after_other_fit_cases")
        if isinstance(rfe, str) or not close(rfe, expected, 1e-9, 1e-12):
            ck.violation(
                dict(clause="estimator", path="static-after-other-fit"),
                dict(replay_kind="batch", what="statistical_method(X, Y, **statistical_kwargs) of a detector fitted on another reference is not the unbiased estimator of the X and Y it was given", X=X.tolist(), Y=Y.tolist(), fitted_on=Xo.tolist(), sigma=sigma, chunk_size=cfe, path="static-after-other-fit", got=rfe, expected=expected),
            )
        ck.case(dict(kind="batch", data=kind, ndim=1 if d is None else 2, d=d, n=n, m=m, sigma=sigma, chunk_sizes=len(chunks), mmd=expected), nontrivial=ragged, key=repr((X.tolist(), Y.tolist(), sigma)))
        ck.count("data_" + kind)
        ck.count("ndim_1" if d is None else f"dim_{d}")
        ck.count("sigma_" + str(sigma))
        ck.count("n_eq_m" if n == m else "n_ne_m")
        # stale cache: a second fit (with / without reset) must replace the cached reference term
        X2 = gen_sample(rng, rng.choice([2, 3, n, 11]), d, rng.choice(["same", "shift", "ints"]))
        cR = rng.choice([None, 1, 2, 3, n])
        with_reset = rng.random() < 0.5
        got = impl_refit(X, X2, Y, sigma, cR, with_reset)
        exp2 = mmd_direct(X2, Y, sv)
        if isinstance(got, str) or not close(got, exp2, RTOL, ATOL):
            ck.violation(
                dict(clause="estimator", path="refit", reset=with_reset, ndim=1 if d is None else 2),
                dict(replay_kind="refit", what="compare after a second fit does not use the new reference", X1=X.tolist(), X2=X2.tolist(), Y=Y.tolist(), sigma=sigma, chunk_size=cR, with_reset=with_reset, got=got, expected=exp2),
            )
        # chunk sizes sent to the model: boundaries + a few random ones
        pool = {None, 1, 2, 3, n, m, max(n, m) + 1, max(n, m) + 2}
        pool |= {c for c in range(2, max(n, m)) if n % c and m % c and rng.random() < 0.15}
        sel = sorted(pool, key=lambda c: -1 if c is None else c)
        keep = 12 if n * m <= 100 else 8 if n * m <= 400 else 5
        if len(sel) > keep:
            sel = sel[:2] + rng.sample(sel[2:], keep - 2)
        corr.append(("both", X, Y, sigma, sel, [results[c] for c in sel]))
        corr.append(("refit", X, Y, sigma, (cR, with_reset, X2), got))

    # ------------------------------------------------------------ batch: boundary / exception classes (correspondence only)
    ck.rule(
        "batch boundaries (model vs implementation only; outside the property's n,m >= 2): n or m in {0,1} (nan / ValueError from range step 0), "
        "column-count and ndim mismatches, zero-column arrays, invalid chunk_size"
    )
    g = lambda n, d: gen_sample(rng, n, d, "same") if n else (np.zeros((0,)) if d is None else np.zeros((0, d)))  # noqa: E731
    edge = []
    for d in (None, 2):
        for n, m in ((1, 3), (3, 1), (1, 1), (0, 3), (3, 0), (0, 0)):
            edge.append((g(n, d), g(m, d), [None, 1, 2, 5]))
    edge.append((g(3, 2), g(3, 3), [None, 2]))  # columns differ
    edge.append((g(3, 2), g(3, None), [None, 2]))  # ndim differs
    edge.append((g(3, None), g(3, 1), [None, 2]))
    edge.append((np.zeros((3, 0)), np.zeros((2, 0)), [None, 1]))  # no columns
    edge.append((g(4, 1), g(3, 1), [0, -1, -5]))  # invalid chunk sizes
    for X, Y, cs in edge:
        res = [(impl_fitted(X, Y, 0.7, c), impl_static(X, Y, 0.7, c)) for c in cs]
        if cs[0] in (0, -1):  # the constructor raises for both paths; the model's static path has no constructor
            res = [(a, None) for a, _ in res]
        corr.append(("both", X, Y, 0.7, cs, res))
        ck.case(dict(kind="batch-boundary", shapeX=list(np.shape(X)), shapeY=list(np.shape(Y)), chunk_sizes=cs, impl=[r[0] if isinstance(r[0], str) else "value" for r in res]), nontrivial=False)
        ck.count("boundary_cases")

    # model
    exprs = []
    for item in corr:
        if item[0] == "both":
            _, X, Y, sigma, sel, _ = item
            cl = "[" + "; ".join(coq_chunk(c) for c in sel) + "]"
            exprs.append(f"both {fl(sig_val(sigma))} {coq_arr(X)} {coq_arr(Y)} {cl}")
        else:
            _, X, Y, sigma, (cR, with_reset, X2), _ = item
            exprs.append(f"refit {fl(sig_val(sigma))} {coq_chunk(cR)} {'true' if with_reset else 'false'} {coq_arr(X)} {coq_arr(X2)} {coq_arr(Y)}")
    res = coq_eval("C09b", HDR, exprs, shard=10)
    for item, r in zip(corr, res):
        if item[0] == "both":
            _, X, Y, sigma, sel, impl = item
            for c, (ia, ib), t in zip(sel, impl, r):
                ck.corr_cases += 1
                ma, mb = model_val(t[:2]), model_val(t[2])  # ((a, b), (c, d)) prints as (a, b, (c, d))
                if not agree(ia, ma) or (ib is not None and not agree(ib, mb)):
                    ck.mismatch(
                        "Model/MMD.v mb_fit+mb_compare / mb_statistic (FloatA) vs batch MMD",
                        dict(replay_kind="corr-batch", X=np.asarray(X).tolist(), Y=np.asarray(Y).tolist(), shapeX=list(np.shape(X)), shapeY=list(np.shape(Y)), sigma=sigma, chunk_size=c, impl=(ia, ib), model=(ma, mb)),
                    )
        else:
            _, X, Y, sigma, (cR, with_reset, X2), got = item
            ck.corr_cases += 1
            mv = model_val(r)
            if not agree(got, mv):
                ck.mismatch("Model/MMD.v refit (FloatA) vs batch MMD", dict(replay_kind="corr-refit", X1=X.tolist(), X2=X2.tolist(), Y=Y.tolist(), sigma=sigma, chunk_size=cR, with_reset=with_reset, impl=got, model=mv))

    # ------------------------------------------------------------ streaming
    ck.rule(
        "streaming: window_size 1..10 (1,2,3 over-represented), 1-D references with scalar updates or (n,d) references with d-vector updates (d 1..3), "
        "chunk_size in {None,1,2,3,w,w+1}, bandwidth grid, streams up to 60 updates, optional update-before-fit, reset (+ update while unfitted) + refit with a "
        "different reference, and second fit without reset; every update compared with: None until window_size values since the last reset, then the index-pair "
        "double sum between the reference in force and the last window_size values (monitor, w >= 2), and with a fresh batch detector on that window; "
        "w = 1 is outside n,m >= 2 (both sides nan) and only checked for streaming = batch; after every reset the remaining calls are replayed on a NEW detector and compared with exact float equality (no tolerance); non-trivial = the ring wraps after a reset or refit"
    )
    n_stream = 60 if not thorough else 400
    sc = []
    for _ in range(n_stream):
        w = rng.choice([1, 2, 2, 3, 3, 4, 5, 6, 7, 8, 9, 10])
        d = rng.choice([None, None, 1, 2, 3])
        chunk = rng.choice([None, None, 1, 2, 3, w, w + 1])
        sigma = rng.choice(SIGMAS)
        L = rng.choice([0, w - 1, w, w + 1, 2 * w + 1, rng.randrange(0, 61), rng.randrange(10, 61), 60])
        kinds = ["same", "shift", "ints"]
        mkref = lambda: gen_sample(rng, rng.choice([2, 3, 5, 12, 20]), d, rng.choice(kinds))  # noqa: E731
        mkval = lambda k: (lambda a: float(a[0]) if d is None else a[0])(gen_sample(rng, 1, d, k))  # noqa: E731
        events = []
        if rng.random() < 0.3:
            events.append(("upd", mkval("same")))
        events.append(("fit", mkref()))
        plan = rng.choice(["plain", "plain", "reset", "reset", "refit", "reset2"])
        cut = rng.randrange(0, L + 1)
        vk = rng.choice(kinds)
        for i in range(L):
            if i == cut and plan != "plain":
                if plan in ("reset", "reset2"):
                    events.append(("reset",))
                    if rng.random() < 0.5:
                        events.append(("upd", mkval(vk)))
                events.append(("fit", mkref()))
                if plan == "reset2":
                    vk = "shift"
            events.append(("upd", mkval(vk)))
            if plan == "reset2" and i == (cut + L) // 2 and i > cut:
                events.append(("reset",))
                events.append(("fit", mkref()))
        outs = impl_stream(w, chunk, sigma, events)
        # monitor
        sv = sig_val(sigma)
        ref, since, wrapped, total = None, [], False, 0
        ok = True
        for idx, (ev, out) in enumerate(zip(events, outs)):
            if ev[0] == "fit":
                if out[1] is not None:
                    ok = False
                    ck.violation(dict(clause="streaming", what="fit-raises"), dict(replay_kind="stream", w=w, chunk_size=chunk, sigma=sigma, events=ev_json(events[: idx + 1]), got=out[1]))
                    break
                ref = ev[1]
                continue
            if ev[0] == "reset":
                ref, since = None, []
                continue
            got = out[1]
            if ref is None:
                expd = "MissingFitError"
            else:
                since.append(ev[1])
                total += 1
                wrapped = wrapped or (total > w and len(since) <= total - 1 and len(since) >= w)
                if len(since) < w:
                    expd = None
                elif w >= 2:
                    expd = mmd_direct(ref, np.array(since[-w:]), sv)
                else:
                    expd = "w1"
            ck.count("updates")
            if expd == "w1":
                ck.count("updates_w1_outside_domain")
                bat = impl_fitted(ref, np.array(since[-w:]), sigma, chunk)
                good = not isinstance(got, str) and got is not None and agree(got, bat)
                expd = bat
            elif expd is None or isinstance(expd, str):
                good = got == expd
                ck.count("updates_none" if expd is None else "updates_unfitted")
            else:
                ck.count("updates_value")
                bat = impl_fitted(ref, np.array(since[-w:]), sigma, chunk)
                good = isinstance(got, float) and close(got, expd, RTOL, ATOL) and agree(got, bat)
            if not good:
                ok = False
                clause = "window-warmup" if (expd is None or got is None) else "streaming-value"
                ck.violation(
                    dict(clause=clause, ndim=1 if d is None else 2, after_reset=any(e[0] == "reset" for e in events[:idx])),
                    dict(replay_kind="stream", what="streaming MMD update differs from (None until window_size values, then the estimator on the last window_size values)", w=w, chunk_size=chunk, sigma=sigma, events=ev_json(events[: idx + 1]), got=got, expected=expd),
                )
                break
        # reset = new instance, bit for bit (C09_reset_fresh_exact): the calls after every reset are replayed
        # on a freshly constructed detector and compared with exact float equality (no tolerance: 1e-9 would
        # hide a window handed over in a different storage order)
        if ok:
            for r_idx, ev in enumerate(events):
                if ev[0] != "reset":
                    continue
                tail = events[r_idx + 1 :]
                fresh = impl_stream(w, chunk, sigma, tail)
                ck.count("reset_vs_fresh_runs")
                for j, (a, f_) in enumerate(zip(outs[r_idx + 1 :], fresh)):
                    ck.count("reset_vs_fresh_calls")
                    if not exact_same(a[1], f_[1]):
                        ok = False
                        ck.violation(
                            dict(clause="reset-fresh-exact", ndim=1 if d is None else 2),
                            dict(replay_kind="stream-fresh", what="after reset the detector does not answer exactly as a new instance", w=w, chunk_size=chunk, sigma=sigma, events=ev_json(events[: r_idx + 2 + j]), reset_index=r_idx, got=a[1], fresh=f_[1]),
                        )
                        break
                if not ok:
                    break
        ck.case(dict(kind="stream", w=w, d=d, chunk=chunk, sigma=sigma, plan=plan, updates=L, events=len(events)), nontrivial=wrapped and plan != "plain", key=repr((w, chunk, sigma, ev_json(events))))
        ck.count(f"w_{w}")
        ck.count("plan_" + plan)
        if ok:
            sc.append((w, chunk, sigma, events, outs))
    # (own generator) two legal call sequences:
    # (a) batch: the reference array is REFILLED IN PLACE and fit() is called again on the same array object: compare must
    #     use the new contents (nothing cached from the first fit may survive);
    # (b) streaming: `window_size` re-assigned to its current value in mid-stream is a no-op (the window must not be thrown
    #     away while the counter runs on)
    import random as _random
    from frouros.detectors.data_drift.batch import MMD as _MMDb
    from frouros.detectors.data_drift.streaming import MMD as _MMDs

    prng = _random.Random(90909)
    for chunk in (None, 3):
        buf = np.array([prng.gauss(0, 1) for _ in range(9)])
        Y = np.array([prng.gauss(0.8, 1.2) for _ in range(7)])
        try:
            det = _MMDb(kernel=kernel_of(0.7), chunk_size=chunk)
            det.fit(X=buf)
            det.compare(X=Y)
            buf[:] = np.array([prng.gauss(2.0, 0.5) for _ in range(9)])
            det.fit(X=buf)
            got = float(det.compare(X=Y)[0].distance)
        except Exception as e:  # noqa: BLE001
            got = repr(e)
        exp = mmd_direct(buf, Y, 0.7)
        ck.case(dict(kind="refit-same-array", chunk=chunk), nontrivial=True, key=repr(("refit-same", chunk)))
        ck.count("refit_same_array_cases")
        if isinstance(got, str) or not close(got, exp, RTOL, ATOL):
            ck.violation(dict(clause="estimator", path="refit-same-array"), dict(replay_kind="refit", what="the reference array was refilled in place and fit() called again on it: compare does not use the new contents", X2=buf.tolist(), Y=Y.tolist(), sigma=0.7, chunk_size=chunk, got=got, expected=exp))
    for w in (4, 6):
        ref = np.array([prng.gauss(0, 1) for _ in range(8)])
        stream = [prng.gauss(0.5, 1) for _ in range(3 * w)]
        try:
            d1, d2 = _MMDs(window_size=w, kernel=kernel_of(0.7)), _MMDs(window_size=w, kernel=kernel_of(0.7))
            d1.fit(X=ref)
            d2.fit(X=ref)
            o1, o2 = [], []
            for t, v in enumerate(stream):
                if t == w + 2:
                    d1.window_size = d1.window_size
                r1, _ = d1.update(value=v)
                r2, _ = d2.update(value=v)
                o1.append(None if r1 is None else float(r1.distance))
                o2.append(None if r2 is None else float(r2.distance))
            bad = None if o1 == o2 else next(i for i, (a, b_) in enumerate(zip(o1, o2)) if a != b_)
        except Exception as e:  # noqa: BLE001
            bad, o1, o2 = repr(e), [], []
        ck.case(dict(kind="window-size-reassigned", w=w), nontrivial=True, key=repr(("wsr", w)))
        ck.count("window_size_reassigned_cases")
        if bad is not None:
            ck.violation(dict(clause="streaming", scenario="window-size-reassigned"), dict(what="`detector.window_size = detector.window_size` in mid-stream changed the detector's outputs", w=w, reference=ref.tolist(), stream=stream, first_difference=bad, with_assignment=o1, without=o2))
    # (c) the stand-alone statistic `d.statistical_method(X, Y, **d.statistical_kwargs)` of a detector is the statistic under
    #     ITS OWN kernel / chunk size whatever other MMD detectors (batch or streaming, other bandwidths, other chunk sizes)
    #     were constructed or re-parameterised after it
    Xa = np.array([prng.gauss(0, 1) for _ in range(8)])
    Ya = np.array([prng.gauss(1.0, 1.5) for _ in range(6)])
    for later in ("batch", "streaming", "setter"):
        try:
            d1 = _MMDb(kernel=kernel_of(0.5), chunk_size=3)
            if later == "batch":
                _MMDb(kernel=kernel_of(3.0), chunk_size=None)
            elif later == "streaming":
                _MMDs(window_size=4, kernel=kernel_of(3.0), chunk_size=2)
            else:
                d2 = _MMDb(kernel=kernel_of(0.5), chunk_size=3)
                d2.kernel = kernel_of(3.0)
                d2.chunk_size = 5
            got = float(d1.statistical_method(Xa, Ya, **d1.statistical_kwargs))
            d1.fit(X=Xa)
            got2 = float(d1.compare(X=Ya)[0].distance)
        except Exception as e:  # noqa: BLE001
            got = got2 = repr(e)
        exp = mmd_direct(Xa, Ya, 0.5)
        ck.case(dict(kind="other-detector-constructed-later", later=later), nontrivial=True, key=repr(("later", later)))
        ck.count("other_detector_later_cases")
        for nm, g in (("stand-alone statistic", got), ("compare", got2)):
            if isinstance(g, str) or not close(g, exp, RTOL, ATOL):
                ck.violation(dict(clause="estimator", path="other-detector-constructed-later", observable=nm, later=later),
                             dict(what=f"the {nm} of an MMD detector (sigma 0.5) changed after ANOTHER MMD detector with sigma 3.0 was constructed / re-parameterised", X=Xa.tolist(), Y=Ya.tolist(), sigma=0.5, chunk_size=3, got=g, expected=exp, other=later))
    # constructor boundaries (correspondence only)
    for w, chunk in ((0, None), (-1, 2), (1, 0), (0, 0)):
        sc.append((w, chunk, None, [], impl_stream(w, chunk, None, [])))
    exprs = [f"srun {fl(sig_val(sigma))} {coq_chunk(chunk)} {z(w)} [{'; '.join(coq_ev(e) for e in events)}]" for w, chunk, sigma, events, _ in sc]
    res = coq_eval("C09s", HDR, exprs, shard=4)
    for (w, chunk, sigma, events, outs), r in zip(sc, res):
        ck.corr_cases += 1
        mo = [model_out(t) for t in r]
        io = [impl_out(o) for o in outs]
        bad = None
        if len(mo) != len(io):
            bad = f"len {len(io)} != {len(mo)}"
        else:
            for i, (a, b_) in enumerate(zip(io, mo)):
                if a[0] != b_[0] or not (a[1] == b_[1] if (a[1] is None or b_[1] is None) else agree(a[1], b_[1])):
                    bad = (i, a, b_)
                    break
        if bad is not None:
            ck.mismatch("Model/MMD.v ms_run (FloatA) vs streaming MMD", dict(replay_kind="corr-stream", w=w, chunk_size=chunk, sigma=sigma, events=ev_json(events), first_difference=bad, impl=io, model=mo))


def exact_same(a, b):
    """exact equality of two outcomes (None / exception name / float, nan = nan)"""
    if isinstance(a, float) and isinstance(b, float):
        return a == b or (math.isnan(a) and math.isnan(b))
    return a == b and type(a) is type(b)


def ev_json(events):
    return [[e[0]] + ([np.asarray(e[1]).tolist()] if len(e) > 1 else []) for e in events]


def ev_from_json(evs, d1):
    out = []
    for e in evs:
        if e[0] == "reset":
            out.append(("reset",))
        elif e[0] == "fit":
            out.append(("fit", np.array(e[1], dtype=float)))
        else:
            out.append(("upd", float(e[1]) if not isinstance(e[1], list) else np.array(e[1], dtype=float)))
    return out


def impl_out(o):
    kind, v = o
    if kind == "new":
        return ("new", v)
    if kind == "fit":
        return ("fit", v)
    if kind == "reset":
        return ("reset", None)
    return ("upd", v)


def model_out(t):
    tag, e, v = t
    name = next((k for k, n in EXN_TAG.items() if n == e), None) if e else None
    if tag == 9:
        return ("new", name)
    if tag == 0:
        return ("fit", name)
    if tag == 1:
        return ("reset", None)
    if tag == 2:
        return ("upd", name)
    return ("upd", float(v))


# ------------------------------------------------------------------ replay


def replay(obj):
    """Re-run a stored failing input on the implementation; exit status 1 iff it still fails."""
    if obj.get("kind") == "correspondence-broken":
        obj = dict(obj["first"], kind="correspondence-broken")
    rk = obj.get("replay_kind")
    sigma = obj.get("sigma")
    sv = sig_val(sigma)
    if rk in ("batch", "corr-batch"):
        X, Y = np.array(obj["X"], dtype=float), np.array(obj["Y"], dtype=float)
        if "shapeX" in obj:
            X, Y = X.reshape(obj["shapeX"]), Y.reshape(obj["shapeY"])
        c = obj["chunk_size"]
        a, b_ = impl_fitted(X, Y, sigma, c), impl_static(X, Y, sigma, c)
        if rk == "batch":
            e = mmd_direct(X, Y, sv)
            print(f"fitted={a} static={b_} expected={e}")
            return 0 if all(not isinstance(v, str) and close(v, e, RTOL, ATOL) for v in (a, b_)) else 1
        ma, mb = obj["model"]
        print(f"impl=({a}, {b_}) model=({ma}, {mb})")
        return 0 if agree(a, ma) and agree(b_, mb) else 1
    if rk in ("refit", "corr-refit"):
        X1, X2, Y = (np.array(obj[k], dtype=float) for k in ("X1", "X2", "Y"))
        got = impl_refit(X1, X2, Y, sigma, obj["chunk_size"], obj["with_reset"])
        e = mmd_direct(X2, Y, sv) if rk == "refit" else obj["model"]
        print(f"got={got} expected={e}")
        return 0 if agree(got, e) else 1
    if rk == "stream-fresh":
        events = ev_from_json(obj["events"], None)
        outs = impl_stream(obj["w"], obj["chunk_size"], sigma, events)
        fresh = impl_stream(obj["w"], obj["chunk_size"], sigma, events[obj["reset_index"] + 1 :])
        print(f"after reset: {outs[-1][1]!r}; new instance: {fresh[-1][1]!r}")
        return 0 if exact_same(outs[-1][1], fresh[-1][1]) else 1
    if rk in ("stream", "corr-stream"):
        events = ev_from_json(obj["events"], None)
        outs = impl_stream(obj["w"], obj["chunk_size"], sigma, events)
        if rk == "corr-stream":
            io = [impl_out(o) for o in outs]
            print(f"impl={io}\nmodel={obj['model']}")
            same_ = len(io) == len(obj["model"]) and all(a[0] == b_[0] and (a[1] == b_[1] if (a[1] is None or b_[1] is None) else agree(a[1], b_[1])) for a, b_ in zip(io, obj["model"]))
            return 0 if same_ else 1
        got = outs[-1][1]
        e = obj["expected"]
        print(f"last call returned {got}; expected {e}")
        return 0 if (got == e if (got is None or e is None or isinstance(e, str) or isinstance(got, str)) else close(got, e, RTOL, ATOL)) else 1
    print("nothing to replay for this record kind:", obj.get("kind"))
    return 0


def main(tier, seed):
    ck = Check("C09", tier, seed)
    ck.proof = check_props("C09")
    ck.assumptions = [
        "theorems are over Coq's R for any point kernel with k(x,x) = 1 (proved for rbf_kernel, sigma <> 0); the binary64 run of the same model is compared with the code "
        "(tolerance 1e-9 rel + 1e-12 abs: NumPy's pairwise summation, libm exp and pow(sigma,2) differ from the model's left-to-right sums and Gallina exp by rounding only)",
        "the kernel callable is modelled as a point function k with kernel(A,B)[i,j] = k(A[i],B[j]) (true of rbf_kernel); cdist's sqeuclidean is the plain coordinate loop",
        "fit-cache = static-path (C09_fit_cache) and the ring-buffer theorems hold in every number system, binary64 included",
        "streaming theorem: window_size >= 2 (for window_size = 1 the batch value is 0/0 = nan and so is the streaming one; checked by correspondence only)",
        "reset = new instance (C09_reset_fresh_exact) holds in every number system for all histories; the harness checks it with exact float equality",
    ]
    run(ck)
    return ck.finish()
