(** Executable observation functions used by the correspondence check: for each detector
    model (FloatA instance) the observables compared with the Python implementation. *)
From Coq Require Import ZArith List Bool PrimFloat.
From FV Require Import NumSys FloatA Py Queue Stats Detector Cusum SPC HDDM KS Window ADWIN BOCD.
Import ListNotations.

(** A number system whose carrier is [float]: FloatA itself, or FloatA with perturbed
    transcendental functions (used to recognise verdicts that hinge on the last bits of ln / exp). *)
Definition FloatP (k : float) : Arith := {|
  num := float;
  add := PrimFloat.add; sub := PrimFloat.sub; mul := PrimFloat.mul; div := PrimFloat.div;
  sqrt := PrimFloat.sqrt;
  exp := fun x => PrimFloat.mul (fexp x) (PrimFloat.add PrimFloat.one k);
  ln := fun x => PrimFloat.mul (fln x) (PrimFloat.add PrimFloat.one k);
  ltb := PrimFloat.ltb; leb := PrimFloat.leb; eqb := PrimFloat.eqb;
  ofZ := fofZ;
|}.

Definition obs := (bool * bool * Z * list float)%type.
Definition oinf (o : option float) : float := match o with Some x => x | None => infinity end.
Definition oninf (o : option float) : float := match o with Some x => x | None => neg_infinity end.
Definition onan (o : option float) : float := match o with Some x => x | None => nan end.
Definition zf (z : Z) : float := fofZ z.
Definition bf (b : bool) : float := if b then PrimFloat.one else PrimFloat.zero.

Definition run_obs (D : Detector) (o : d_st D -> obs) (c : d_cfg D) (ops : list (op (d_in D))) : list obs :=
  map o (trace D c ops).

Section ObsP.
Variable k : float.
Notation FloatA := (FloatP k).

(** operation lists: codes 0 / 1 = update with 0.0 / 1.0, 2 = reset *)
Definition ops_of_codes (l : list Z) : list (op float) :=
  map (fun c => if (c =? 2)%Z then Rst else Upd (zf c)) l.
(** real-valued stream with resets inserted before the listed (ascending) positions *)
Fixpoint ops_of_floats (xs : list float) (i : Z) (resets : list Z) : list (op float) :=
  match xs with
  | [] => match resets with [] => [] | _ => [Rst] end
  | x :: r =>
    match resets with
    | k :: rs => if (k =? i)%Z then Rst :: Upd x :: ops_of_floats r (i + 1) rs
                 else Upd x :: ops_of_floats r (i + 1) resets
    | [] => Upd x :: ops_of_floats r (i + 1) []
    end
  end.

Definition obs_cusum (s : cusum_st FloatA) : obs :=
  (cs_drift s, false, cs_n s, [m_mean (cs_mean s); cs_sum s]).
Definition obs_ddm (s : ddm_st FloatA) : obs :=
  (ddrift s, dwarning s, dn s,
   [m_mean (der s); oinf (option_map fst (dmins s)); oinf (option_map snd (dmins s))]).
Definition obs_rddm (s : rddm_st FloatA) : obs :=
  (rdrift s, rwarning s, rn s,
   [m_mean (rer s); oinf (option_map fst (rmins s)); oinf (option_map snd (rmins s));
    zf (rnum_warn s); bf (rflag s); zf (q_count (rpred s))]).
Definition obs_eddm (s : eddm_st FloatA) : obs :=
  (edrift s, ewarning s, en s,
   [emean s; estd s; evar s; oninf (emax s); zf (enmis s); elast s]).
Definition obs_ecdd (s : ecdd_st FloatA) : obs :=
  (cdrift s, cwarning s, cn s, [m_mean (cp s); e_mean (cz s)]).
Definition obs_hddma (s : hddma_st FloatA) : obs :=
  (hdrift s, hwarning s, hn s,
   [m_mean (hx s); zf (m_n (hx s)); m_mean (hz s); zf (m_n (hz s)); m_mean (hy s); zf (m_n (hy s))]).
Definition obs_hddmw (s : hddmw_st FloatA) : obs :=
  (wdrift s, wwarning s, wn s,
   [si_mean (wtotal s); si_ibc (wtotal s); si_mean (winc1 s); si_mean (winc2 s); oinf (winc_cut s);
    si_mean (wdec1 s); si_mean (wdec2 s); oninf (wdec_cut s)]).
Definition obs_adwin (s : adwin_st FloatA) : obs :=
  (adrift s, false, an s,
   [zf (awidth s); atotal s; avar s] ++ map (fun r => zf (Z.of_nat (length r))) (arows s)).
Definition obs_kswin (s : kswin_st FloatA) : obs :=
  (kdrift s, false, kn s, [zf (Z.of_nat (length (kwin s)))]).
Definition obs_stepd (s : stepd_st) : obs :=
  (sdrift s, swarning s, sn s, [zf (scorrect s); zf (aq_num_true (swin s)); zf (aq_size (swin s))]).
Definition obs_bocd (s : bocd_st FloatA) : obs :=
  (bdrift s, false, bn s, [onan (bpmean s); onan (bpvar s)] ++ brow s).

End ObsP.

(** exhaustive families: the [len] low bits of [i], most significant first *)
Fixpoint bits_of (i : Z) (len : nat) (acc : list Z) : list Z :=
  match len with O => acc | S k => bits_of (i / 2) k ((i mod 2)%Z :: acc) end.
Fixpoint zrange (n : nat) (from : Z) : list Z :=
  match n with O => [] | S k => from :: zrange k (from + 1) end.
(** flags of all 2^len 0/1 streams of length [len]: per stream, per step, 2*drift + warning *)
Definition flag_code (o : obs) : Z := let '(d, w, _, _) := o in (if d then 2 else 0) + (if w then 1 else 0).
Definition all01_flags (D : Detector) (inj : Z -> d_in D) (o : d_st D -> obs) (c : d_cfg D) (len : nat) : list (list Z) :=
  map (fun i => map flag_code (run_obs D o c (map (fun b => Upd (inj b)) (bits_of i len [])))) (zrange (Nat.pow 2 len) 0).
