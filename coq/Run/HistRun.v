(** Executable wrappers used by the C17 correspondence check: the history-callback system
    model run over the FloatA detector models, variables read off the [obs] projections. *)
From Coq Require Import ZArith String List Bool PrimFloat.
From FV Require Import NumSys FloatA Py Detector Callbacks Obs.
Import ListNotations.

Fixpoint index_of (k : string) (names : list string) (i : nat) : option nat :=
  match names with
  | [] => None
  | n :: r => if string_dec k n then Some i else index_of k r (S i)
  end.

(** [names] lists the tracked-variable name of each entry of the [obs] statistics list
    ("" for entries that are not tracked variables); "warning" is the flag *)
Definition vars_of_obs {D : Detector} (o : d_st D -> obs) (names : list string) (s : d_st D) (k : string) : float :=
  let '(d, w, n, st) := o s in
  if string_dec k "warning" then bf w
  else match index_of k names 0 with Some i => nth i st nan | None => nan end.

Definition run_hist (D : Detector) (o : d_st D -> obs) (names : list string)
           (c : d_cfg D) (tracked : list string) (ops : list (op (d_in D)))
  : list Z * list bool * list (string * list float) :=
  let h := logs D float (sys_exec D float (vars_of_obs o names) c tracked ops) in
  (h_ninst D float h, h_drift D float h, h_vars D float h).

(** ResetStatisticalTest over a table of p-values: [test r x] looks (r, x) up *)
Definition ptable := list (Z * Z * float).
Fixpoint plookup (t : ptable) (r x : Z) : float :=
  match t with
  | [] => nan
  | (r', x', p) :: rest => if ((r =? r') && (x =? x'))%Z then p else plookup rest r x
  end.
Definition run_reset (t : ptable) (alpha : float) (ops : list (@bop Z Z))
  : option Z * list (option (res float)) :=
  brun (A:=FloatA) Z Z float (plookup t) (fun p => p) alpha None ops.
