(** Binary64 instance of [Arith]: Coq's primitive floats.  [+ - * / sqrt] and the
    comparisons are the kernel primitives (IEEE-754, round to nearest even: what
    CPython / NumPy execute).  [fexp] / [fln] are Gallina implementations (about
    1 ulp from libm); they are used only on the executable side of the
    correspondence check, where values are compared with a tolerance. *)
From Coq Require Import ZArith List PrimFloat Uint63 FloatOps.
From FV Require Import NumSys.
Import ListNotations.

Definition fofZ (z : Z) : float :=
  if (z <? 0)%Z then PrimFloat.opp (of_uint63 (Uint63.of_Z (- z)))
  else of_uint63 (Uint63.of_Z z).

Local Open Scope float_scope.

Definition ln2_hi : float := 0x1.62e42fee00000p-1.
Definition ln2_lo : float := 0x1.a39ef35793c76p-33.
Definition inv_ln2 : float := 0x1.71547652b82fep+0.
Definition rint_magic : float := 0x1.8p+52.

(** round to nearest integer (valid for |x| < 2^51) *)
Definition frint (x : float) : float := (x + rint_magic) - rint_magic.

(** integer value of an integral float, |x| < 2^62 *)
Definition fto_Z (x : float) : Z :=
  if PrimFloat.ltb x 0 then
    let (m, e) := Z.frexp (PrimFloat.opp x) in
    (- (Z.shiftl (Uint63.to_Z (normfr_mantissa m)) (e - 53)))%Z
  else
    let (m, e) := Z.frexp x in
    Z.shiftl (Uint63.to_Z (normfr_mantissa m)) (e - 53).

(* Horner evaluation of sum_{i<n} r^i / i!  *)
Fixpoint exp_poly (r : float) (n : nat) (k : float) (acc : float) : float :=
  match n with
  | O => acc
  | S n' => exp_poly r n' (k - 1) (1 + acc * r / k)
  end.

Definition fexp (x : float) : float :=
  if PrimFloat.is_nan x then nan
  else if PrimFloat.ltb 0x1.62e42fefa39efp+9 x then infinity
  else if PrimFloat.ltb x (-0x1.74910d52d3051p+9) then 0
  else
    let k := frint (x * inv_ln2) in
    let r := (x - k * ln2_hi) - k * ln2_lo in
    let p := exp_poly r 18 18 1 in
    Z.ldexp p (fto_Z k).

(* sum_{i<n} s2^i/(2i+1) by Horner, highest first; d = 2n-1 *)
Fixpoint atanh_poly (s2 : float) (n : nat) (d : float) (acc : float) : float :=
  match n with
  | O => acc
  | S n' => atanh_poly s2 n' (d - 2) (1 / d + acc * s2)
  end.

Definition fln (x : float) : float :=
  if PrimFloat.is_nan x then nan
  else if PrimFloat.ltb x 0 then nan
  else if PrimFloat.eqb x 0 then neg_infinity
  else if PrimFloat.eqb x infinity then infinity
  else
    let (m0, e0) := Z.frexp x in
    let '(m, e) := if PrimFloat.ltb m0 0x1.6a09e667f3bcdp-1 then (m0 * 2, (e0 - 1)%Z) else (m0, e0) in
    let f := m - 1 in
    let s := f / (2 + f) in
    let s2 := s * s in
    let t := 2 * s * atanh_poly s2 14 27 0 in
    let ef := fofZ e in
    ef * ln2_hi + (t + ef * ln2_lo).

Definition FloatA : Arith := {|
  num := float;
  add := PrimFloat.add; sub := PrimFloat.sub; mul := PrimFloat.mul; div := PrimFloat.div;
  sqrt := PrimFloat.sqrt; exp := fexp; ln := fln;
  ltb := PrimFloat.ltb; leb := PrimFloat.leb; eqb := PrimFloat.eqb;
  ofZ := fofZ;
|}.
Canonical Structure FloatA.
