(** Extended numbers for code that uses [float("inf")] as a sentinel: [None] is +inf.
    Used by the definitions generated from the source (harness/py2coq.py); -inf and NaN do not occur in the
    translated subset (a product [l * inf] is taken as +inf: the levels multiplying a sentinel are validated > 0). *)
From Coq Require Import ZArith.
From FV Require Import NumSys.

Section NumX.
  Context {A : Arith}.
  Definition numx := option (num A).
  Definition xadd (a b : numx) : numx :=
    match a, b with Some x, Some y => Some (add x y) | _, _ => None end.
  Definition xmul (l : num A) (a : numx) : numx :=
    match a with Some y => Some (mul l y) | None => None end.
  (** [x < a], [a < x], [x > a] = [a < x], for finite [x] *)
  Definition x_lt_nx (x : num A) (a : numx) : bool := match a with Some y => ltb x y | None => true end.
  Definition x_lt_xn (a : numx) (x : num A) : bool := match a with Some y => ltb y x | None => false end.
  Definition x_le_nx (x : num A) (a : numx) : bool := match a with Some y => leb x y | None => true end.
  Definition x_le_xn (a : numx) (x : num A) : bool := match a with Some y => leb y x | None => false end.
  (** both extended: inf < inf is False *)
  Definition x_lt_xx (a b : numx) : bool :=
    match a, b with Some x, Some y => ltb x y | Some _, None => true | None, _ => false end.
End NumX.

(** The mirror image: [None] is -inf (sentinels initialised with [float("-inf")]). *)
Section NumXN.
  Context {A : Arith}.
  Definition numxn := option (num A).
  (** [x > a] = [a < x], [x < a], for finite [x] *)
  Definition xn_lt_xn (a : numxn) (x : num A) : bool := match a with Some y => ltb y x | None => true end.
  Definition xn_lt_nx (x : num A) (a : numxn) : bool := match a with Some y => ltb x y | None => false end.
  Definition xn_le_xn (a : numxn) (x : num A) : bool := match a with Some y => leb y x | None => true end.
  Definition xn_le_nx (x : num A) (a : numxn) : bool := match a with Some y => leb x y | None => false end.
  (** [x / a]: a finite value over -inf is (minus) zero *)
  Definition xn_div (x : num A) (a : numxn) : num A := match a with Some y => div x y | None => sub (ofZ 0) (ofZ 0) end.
End NumXN.
