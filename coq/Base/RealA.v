(** Real-number instance of [Arith] (Coq's classical reals).  Comparisons are the
    [Rlt_dec]-based booleans.  Note [Rinv 0 = 0], [sqrt x = 0] for [x < 0],
    [ln x = 0] for [x <= 0]: no theorem may lean on these; models spell out the
    IEEE outcome of every division / sqrt / ln that can leave its domain. *)
From Coq Require Import ZArith Reals Lra.
From FV Require Import NumSys.

Definition Rltb (x y : R) : bool := if Rlt_dec x y then true else false.
Definition Rleb (x y : R) : bool := if Rle_dec x y then true else false.
Definition Reqb (x y : R) : bool := if Req_EM_T x y then true else false.

Definition RealA : Arith := {|
  num := R;
  add := Rplus; sub := Rminus; mul := Rmult; div := Rdiv;
  sqrt := R_sqrt.sqrt; exp := Rtrigo_def.exp; ln := Rpower.ln;
  ltb := Rltb; leb := Rleb; eqb := Reqb;
  ofZ := IZR;
|}.

Lemma Rltb_true x y : Rltb x y = true <-> (x < y)%R.
Proof. unfold Rltb; destruct (Rlt_dec x y); split; intros; auto; discriminate. Qed.
Lemma Rltb_false x y : Rltb x y = false <-> (y <= x)%R.
Proof. unfold Rltb; destruct (Rlt_dec x y); split; intros; auto; try discriminate; lra. Qed.
Lemma Rleb_true x y : Rleb x y = true <-> (x <= y)%R.
Proof. unfold Rleb; destruct (Rle_dec x y); split; intros; auto; discriminate. Qed.
Lemma Rleb_false x y : Rleb x y = false <-> (y < x)%R.
Proof. unfold Rleb; destruct (Rle_dec x y); split; intros; auto; try discriminate; lra. Qed.
Lemma Reqb_true x y : Reqb x y = true <-> x = y.
Proof. unfold Reqb; destruct (Req_EM_T x y); split; intros; auto; discriminate. Qed.
Lemma Reqb_false x y : Reqb x y = false <-> x <> y.
Proof. unfold Reqb; destruct (Req_EM_T x y); split; intros; auto; try discriminate; contradiction. Qed.

Lemma Rltb_spec x y : Bool.reflect (x < y)%R (Rltb x y).
Proof. unfold Rltb; destruct (Rlt_dec x y); constructor; auto. Qed.
Lemma Rleb_spec x y : Bool.reflect (x <= y)%R (Rleb x y).
Proof. unfold Rleb; destruct (Rle_dec x y); constructor; auto. Qed.
Canonical Structure RealA.
