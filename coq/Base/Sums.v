(** Shared specification vocabulary: sums, suffixes, weighted sums. *)
From Coq Require Import ZArith List Reals.
Import ListNotations.

(** the last [n] elements of a list *)
Definition lastn {T} (n : nat) (l : list T) : list T := skipn (length l - n) l.

Definition Rsum (l : list R) : R := fold_right Rplus 0%R l.
Definition Rmean (l : list R) : R := (Rsum l / INR (length l))%R.

(** [wsum_rev w l k]: [l] is newest-first; the j-th element (0-based) gets weight [w (k+j)] *)
Fixpoint wsum_rev (w : nat -> R) (l : list R) (k : nat) : R :=
  match l with
  | [] => 0%R
  | x :: r => (w k * x + wsum_rev w r (S k))%R
  end.
(** [wsum w vs = sum_i w(t-1-i) * vs[i]], t = length vs: weight by age *)
Definition wsum (w : nat -> R) (vs : list R) : R := wsum_rev w (rev vs) 0.

(** sum of squared deviations from the mean *)
Definition Rssd (l : list R) : R :=
  Rsum (map (fun x => ((x - Rmean l) * (x - Rmean l))%R) l).
