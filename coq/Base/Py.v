(** Python glue semantics: results that may raise. *)
From Coq Require Import List.
Import ListNotations.

Inductive exn :=
| ValueError | TypeError | ZeroDivisionError | IndexError | AttributeError | KeyError
| MissingFitError | DimensionError | MismatchDimensionError | InsufficientSamplesError
| InvalidAverageRunLengthError | InvalidBlockError | EmptyQueueError | DownloadError
| PicklingError | FileNotFoundError | OtherError.

Inductive res (T : Type) := Ok (a : T) | Raise (e : exn).
Arguments Ok {T}. Arguments Raise {T}.

Definition bind {T U} (r : res T) (f : T -> res U) : res U :=
  match r with Ok a => f a | Raise e => Raise e end.
Notation "'do' x <- r ; k" := (bind r (fun x => k)) (at level 200, x pattern, r at level 100, k at level 200).

Definition is_ok {T} (r : res T) : bool := match r with Ok _ => true | _ => false end.

(** [for _ in range(n): body] over a state that may raise: n-fold iteration, stopping at the first exception *)
Fixpoint iter_res {S : Type} (n : nat) (f : S -> res S) (s : S) : res S :=
  match n with
  | O => Ok s
  | S k => match f s with Ok s' => iter_res k f s' | Raise e => Raise e end
  end.
