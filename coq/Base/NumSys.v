(** Number-system interface shared by every numeric model.
    Models are written once against [Arith]; [FloatA] (binary64) is what is run
    against the Python code, [RealA] (Coq's R) is what algebraic theorems are about.
    Structural theorems are proved for every [Arith]. *)
From Coq Require Import ZArith List Bool.
Import ListNotations.

Record Arith := {
  num  : Type;
  add  : num -> num -> num;
  sub  : num -> num -> num;
  mul  : num -> num -> num;
  div  : num -> num -> num;
  sqrt : num -> num;
  exp  : num -> num;
  ln   : num -> num;
  ltb  : num -> num -> bool;
  leb  : num -> num -> bool;
  eqb  : num -> num -> bool;
  ofZ  : Z -> num;
}.

Arguments add {_}. Arguments sub {_}. Arguments mul {_}. Arguments div {_}.
Arguments sqrt {_}. Arguments exp {_}. Arguments ln {_}.
Arguments ltb {_}. Arguments leb {_}. Arguments eqb {_}. Arguments ofZ {_}.

Declare Scope arith_scope.
Delimit Scope arith_scope with A.
Notation "x + y" := (add x y) : arith_scope.
Notation "x - y" := (sub x y) : arith_scope.
Notation "x * y" := (mul x y) : arith_scope.
Notation "x / y" := (div x y) : arith_scope.
Notation "x <? y" := (ltb x y) : arith_scope.
Notation "x <=? y" := (leb x y) : arith_scope.
Notation "x =? y" := (eqb x y) : arith_scope.

Section Derived.
  Context {A : Arith}.
  Local Open Scope arith_scope.
  Definition zero : num A := ofZ 0.
  Definition one  : num A := ofZ 1.
  Definition two  : num A := ofZ 2.
  Definition gtb (x y : num A) : bool := y <? x.
  Definition geb (x y : num A) : bool := y <=? x.
  Definition neg (x : num A) : num A := zero - x.
  (** [np.abs] / [abs] on a finite value *)
  Definition absA (x : num A) : num A := if x <? zero then zero - x else x.
  (** [np.maximum(0, x)] *)
  Definition max0 (x : num A) : num A := if zero <? x then x else zero.
  Definition sqr (x : num A) : num A := x * x.
  Fixpoint powN (x : num A) (n : nat) : num A :=
    match n with O => one | S k => x * powN x k end.
  Definition sumA (l : list (num A)) : num A := fold_left add l zero.
End Derived.

(** "less than +inf": [None] stands for the +inf / -inf initial values of the code. *)
Definition lt_opt {A : Arith} (x : num A) (o : option (num A)) : bool :=
  match o with None => true | Some y => ltb x y end.
Definition gt_opt {A : Arith} (x : num A) (o : option (num A)) : bool :=
  match o with None => true | Some y => ltb y x end.
