(** Validation performed by every configuration class / validated constructor, transliterated
    in the order the setters run (repaired code: ADWIN clock >= 1 (F28), KSWIN
    num_test_instances <= min_num_instances // 2 (F15), HDDM-W lambda_ in (0,1] (F33),
    RDDM min_concept_size >= 1 (F32)).  Float parameters live in an arbitrary number system
    [A] (run at FloatA against the code, reasoned about at RealA), integer parameters in Z.
    [Python: `not a <= v <= b` is negb (a <=? v && v <=? b)].  Definitions only. *)
From Coq Require Import ZArith List Bool.
From FV Require Import NumSys Py.
Import ListNotations.

Definition guard (b : bool) (e : exn) : res unit := if b then Raise e else Ok tt.
Notation "a ;; b" := (bind a (fun _ => b)) (at level 61, right associativity).

Section Config.
  Context {A : Arith}.
  Local Open Scope arith_scope.
  Notation F := (num A).

  Definition in_cc (lo hi v : F) : bool := (lo <=? v) && (v <=? hi).   (* lo <= v <= hi *)
  Definition in_oo (lo hi v : F) : bool := (lo <? v) && (v <? hi).     (* lo <  v <  hi *)
  Definition in_oc (lo hi v : F) : bool := (lo <? v) && (v <=? hi).    (* lo <  v <= hi *)

  (** BaseConceptDriftConfig.min_num_instances *)
  Definition chk_min (n : Z) : res unit := guard (n <? 1)%Z ValueError.

  (** BaseSPCConfig (DDM): min, warning_level, drift_level *)
  Definition acc_spc (w d : F) (n : Z) : res unit :=
    chk_min n ;; guard (w <=? zero) ValueError ;;
    guard (d <=? zero) ValueError ;; guard (d <=? w) ValueError.

  (** RDDMConfig: SPC, then max_concept_size (unchecked), min_concept_size, max_num_instances_warning (unchecked) *)
  Definition acc_rddm (w d : F) (n maxc minc maxw : Z) : res unit :=
    acc_spc w d n ;; guard (minc <? 1)%Z ValueError.

  (** BaseECDDConfig: min, average_run_length key, lambda_, warning_level *)
  Definition arl_ok (a : Z) : bool := ((a =? 100) || (a =? 400) || (a =? 1000))%Z.
  Definition acc_ecdd (l w : F) (arl n : Z) : res unit :=
    chk_min n ;; guard (negb (arl_ok arl)) InvalidAverageRunLengthError ;;
    guard (negb (in_cc zero one l)) ValueError ;; guard (negb (in_oo zero one w)) ValueError.

  (** EDDMConfig: alpha (unchecked), beta, level, min_num_misclassified_instances *)
  Definition acc_eddm (a b l : F) (nmis : Z) : res unit :=
    guard (b <=? zero) ValueError ;; guard (a <=? b) ValueError ;;
    guard (l <=? zero) ValueError ;; guard (nmis <? 0)%Z ValueError.

  (** BaseHDDMConfig: min, alpha_d, alpha_w, two_sided_test (isinstance bool, ValueError) *)
  Definition acc_hddma (ad aw : F) (two_is_bool : bool) (n : Z) : res unit :=
    chk_min n ;; guard (negb (in_oc zero one ad)) ValueError ;;
    guard (negb (in_oc zero one aw)) ValueError ;; guard (aw <=? ad) ValueError ;;
    guard (negb two_is_bool) ValueError.
  Definition acc_hddmw (ad aw : F) (two_is_bool : bool) (l : F) (n : Z) : res unit :=
    acc_hddma ad aw two_is_bool n ;; guard (negb (in_oc zero one l)) ValueError.

  (** CUSUM / Page-Hinkley / GMA: min, lambda_, then delta, then alpha *)
  Definition acc_cusum (delta lam : F) (n : Z) : res unit :=
    chk_min n ;; guard (lam <? zero) ValueError ;; guard (negb (in_cc zero one delta)) ValueError.
  Definition acc_ph (delta lam alpha : F) (n : Z) : res unit :=
    acc_cusum delta lam n ;; guard (negb (in_cc zero one alpha)) ValueError.
  Definition acc_gma (alpha lam : F) (n : Z) : res unit :=
    chk_min n ;; guard (lam <? zero) ValueError ;; guard (negb (in_cc zero one alpha)) ValueError.

  (** ADWINConfig: min, clock, delta, m, min_window_size *)
  Definition acc_adwin (clock : Z) (delta : F) (m mws n : Z) : res unit :=
    chk_min n ;; guard (clock <? 1)%Z ValueError ;; guard (negb (in_oo zero one delta)) ValueError ;;
    guard (m <? 1)%Z ValueError ;; guard (mws <? 1)%Z ValueError.

  (** KSWINConfig: np.random.seed(seed) first (None, or an int in [0, 2^32)), then min, alpha, num_test_instances *)
  Definition seed_ok (s : option Z) : bool :=
    match s with None => true | Some z => (0 <=? z)%Z && (z <? 4294967296)%Z end.
  Definition acc_kswin (alpha : F) (seed : option Z) (n nt : Z) : res unit :=
    guard (negb (seed_ok seed)) ValueError ;; chk_min n ;; guard (alpha <=? zero) ValueError ;;
    guard (n / 2 <? nt)%Z ValueError ;; guard (nt <? 1)%Z ValueError.

  (** STEPDConfig: min, alpha_d, alpha_w *)
  Definition acc_stepd (ad aw : F) (n : Z) : res unit :=
    chk_min n ;; guard (ad <=? zero) ValueError ;; guard (aw <=? zero) ValueError ;; guard (aw <=? ad) ValueError.

  (** BOCDConfig: min, model isinstance BaseBOCDModel (TypeError); GaussianUnknownMean: data_var *)
  Definition acc_bocd (model_ok : bool) (n : Z) : res unit := chk_min n ;; guard (negb model_ok) TypeError.
  Definition acc_gum (data_var : F) : res unit := guard (data_var <=? zero) ValueError.

  (** ResetStatisticalTest.alpha; PrequentialError.alpha (isinstance int/float first) *)
  Definition acc_reset (alpha : F) : res unit := guard (alpha <=? zero) ValueError.
  Definition acc_preq (is_num : bool) (alpha : F) : res unit :=
    guard (negb is_num) TypeError ;; guard (negb (in_oc zero one alpha)) ValueError.

  (** HDDM-W update path: [math.log(1 / lambda_)] *)
  Definition hddmw_update_raises (l : F) : option exn := if l =? zero then Some ZeroDivisionError else None.
End Config.

(** integer-only validators *)
Definition MAX_NUM_PERM : Z := 1000000.
(** PermutationTestDistanceBased: num_permutations, total_num_permutations, num_jobs, method, verbose *)
Definition acc_perm (np : Z) (total : option Z) (jobs : Z) (method_ok verbose_is_bool : bool) : res unit :=
  guard (np <? 1)%Z ValueError ;; guard (MAX_NUM_PERM <? np)%Z ValueError ;;
  match total with
  | None => Ok tt
  | Some t => guard (t <? 1)%Z ValueError ;; guard (MAX_NUM_PERM <? t)%Z ValueError
  end ;;
  guard ((jobs =? 0) || (jobs <? -1))%Z ValueError ;;
  guard (negb method_ok) ValueError ;; guard (negb verbose_is_bool) TypeError.
(** MMD.chunk_size: None | int > 0 | anything else TypeError *)
Inductive chunk_arg := ChunkNone | ChunkInt (c : Z) | ChunkOther.
Definition acc_chunk (c : chunk_arg) : res unit :=
  match c with ChunkNone => Ok tt | ChunkInt z => guard (z <=? 0)%Z ValueError | ChunkOther => Raise TypeError end.
(** num_bins of the binned / probability distance detectors; window_size of the streaming data-drift detectors *)
Definition acc_ge1 (v : Z) : res unit := guard (v <? 1)%Z ValueError.

(** * Raise sites on the update path that depend on the configuration *)
(** ADWIN: [num_instances % clock]; KSWIN: np.random.choice(older part, num_test_instances,
    replace=False) once the window is full; RDDM: the prediction queue of capacity
    min_concept_size (enqueue on a zero-capacity queue dequeues from an empty one) *)
Definition adwin_update_raises (clock : Z) : option exn := if (clock =? 0)%Z then Some ZeroDivisionError else None.
Definition kswin_update_raises (n nt window_len : Z) : option exn :=
  if (window_len <? n)%Z then None
  else if (n - nt <? nt)%Z then Some ValueError        (* larger sample than population *)
  else if ((n - nt =? 0) && (0 <? nt))%Z then Some ValueError
  else None.
Definition rddm_update_raises (minc : Z) : option exn :=
  if (minc =? 0)%Z then Some EmptyQueueError else if (minc <? 0)%Z then Some ValueError else None.
