(** frouros/datasets: synthetic generators (synthetic.py, base.py:BaseDatasetGenerator) and
    dataset download / load (base.py:BaseDatasetDownload, real.py:Elec2), transliterated.
    Definitions only.

    Oracles (behaviour of external libraries, taken as INPUT by the model):
    - NumPy's global legacy generator: the values it returns are an argument
      ([nat -> sea_draw], [nat -> dummy_draw]: the draws consumed by the i-th sample);
    - the network (package [requests]): every mirror is a script [mirror] of what HEAD and
      GET answer;
    - the ARFF parser ([scipy.io.arff.loadarff] in [Elec2.read_file]): a function
      [bytes -> parse_out]. *)
From Coq Require Import ZArith List Bool.
From FV Require Import NumSys Py.
Import ListNotations.

(* ====================================================================== *)
(** * 1. Python argument values (what a caller can pass)                    *)
(* ====================================================================== *)

Section Generators.
  Context {A : Arith}.
  Local Open Scope arith_scope.

  (** The dynamic values distinguished by the argument checks.  [PInt] also stands for
      NumPy integers, [PFloat] for a non-NaN float (NumPy float64 included), [PList] for a
      list of small non-negative ints such as [[1, 2]] (unhashable, unordered w.r.t. numbers). *)
  Inductive pyval :=
  | PInt (z : Z) | PBool (b : bool) | PFloat (x : num A) | PNan | PNone | PStr | PList.

  Definition zbool (b : bool) : Z := if b then 1%Z else 0%Z.

  (** ** [BaseDatasetGenerator.__init__]: [np.random.seed(seed)]; TypeError / ValueError
      are re-raised unchanged.  (NumPy's contract for the legacy seeding routine.) *)
  Definition seed_check (v : pyval) : res unit :=
    match v with
    | PInt z => if ((0 <=? z) && (z <? 4294967296))%Z then Ok tt else Raise ValueError
    | PBool _ => Ok tt
    | PFloat _ | PNan => Raise TypeError
    | PNone => Ok tt                      (* fresh OS entropy: not reproducible *)
    | PStr => Raise TypeError
    | PList => Ok tt
    end.

  (** ** [self._block_map[block]] with [_block_map = {1: 8.0, 2: 9.0, 3: 7.0, 4: 9.5}]:
      a dict lookup goes through hash and [==], so [True], [1.0], [np.int64(1)] find key 1;
      an unhashable key raises TypeError (not caught); KeyError becomes InvalidBlockError. *)
  Definition block_key (v : pyval) : res (option Z) :=
    match v with
    | PInt z => Ok (Some z)
    | PBool b => Ok (Some (zbool b))
    | PFloat x =>
        Ok (if x =? ofZ 1 then Some 1%Z else if x =? ofZ 2 then Some 2%Z
            else if x =? ofZ 3 then Some 3%Z else if x =? ofZ 4 then Some 4%Z else None)
    | PNan | PNone | PStr => Ok None
    | PList => Raise TypeError
    end.

  Definition block_map (k : Z) : option (num A) :=
    match k with
    | 1%Z => Some (ofZ 8) | 2%Z => Some (ofZ 9) | 3%Z => Some (ofZ 7)
    | 4%Z => Some (ofZ 19 / ofZ 2)            (* 9.5, exact in binary64 and in R *)
    | _ => None
    end.

  Definition block_lookup (v : pyval) : res (num A) :=
    do k <- block_key v;
    match k with
    | None => Raise InvalidBlockError
    | Some k => match block_map k with Some t => Ok t | None => Raise InvalidBlockError end
    end.

  (** [num_samples < 1]  (Python compares int/bool/float with 1; NaN compares False;
      None / str / list raise TypeError) *)
  Definition n_lt1 (v : pyval) : res bool :=
    match v with
    | PInt z => Ok (z <? 1)%Z
    | PBool b => Ok (negb b)
    | PFloat x => Ok (x <? ofZ 1)
    | PNan => Ok false
    | PNone | PStr | PList => Raise TypeError
    end.

  (** [range(num_samples)]: evaluated when the generator expression is CREATED (the outermost
      iterable of a generator expression is evaluated eagerly), so a float raises TypeError
      inside [generate_dataset], after the other checks. *)
  Definition n_range (v : pyval) : res Z :=
    match v with
    | PInt z => Ok z
    | PBool b => Ok (zbool b)
    | _ => Raise TypeError
    end.

  (** [not 0 <= noise <= 1] *)
  Definition noise_check (v : pyval) : res (num A) :=
    match v with
    | PInt z => if ((0 <=? z) && (z <=? 1))%Z then Ok (ofZ z) else Raise ValueError
    | PBool b => Ok (ofZ (zbool b))
    | PFloat x => if (ofZ 0 <=? x) && (x <=? ofZ 1) then Ok x else Raise ValueError
    | PNan => Raise ValueError
    | PNone | PStr | PList => Raise TypeError
    end.

  (** [class_ not in [1, 0]]: membership by [==]; never raises for these values. *)
  Definition class_check (v : pyval) : res Z :=
    match v with
    | PInt z => if ((z =? 1) || (z =? 0))%Z then Ok z else Raise ValueError
    | PBool b => Ok (zbool b)
    | PFloat x => if x =? ofZ 1 then Ok 1%Z else if x =? ofZ 0 then Ok 0%Z else Raise ValueError
    | PNan | PNone | PStr | PList => Raise ValueError
    end.

  (* ==================================================================== *)
  (** * 2. SEA                                                             *)
  (* ==================================================================== *)

  (** What the global generator returned while ONE sample was produced:
      [np.random.uniform(0, 10, size=(3,))], [np.random.random()], and
      [np.random.randint(2)] — the last is drawn only when [u < noise]
      ([d_bit] is ignored otherwise). *)
  Record sea_draw := { d_x0 : num A; d_x1 : num A; d_x2 : num A; d_u : num A; d_bit : Z }.

  Definition sample := (list (num A) * Z)%type.

  (** [SEA._generate_sample] *)
  Definition sea_sample (threshold noise : num A) (d : sea_draw) : sample :=
    let y := if d_u d <? noise then d_bit d
             else if (d_x0 d + d_x1 d) <=? threshold then 1%Z else 0%Z in
    ([d_x0 d; d_x1 d; d_x2 d], y).

  (** does the sample consume the [randint] draw? (for the replay of the draw sequence) *)
  Definition sea_uses_bit (noise : num A) (d : sea_draw) : bool := d_u d <? noise.

  (** The generator object returned by [generate_dataset]: a lazy iterator. *)
  Record sea_gen := { g_thr : num A; g_noise : num A; g_n : Z; g_pos : nat }.

  (** [SEA.generate_dataset]: checks in the code's order, then the generator object. *)
  Definition sea_generate (block noise num_samples : pyval) : res sea_gen :=
    do thr <- block_lookup block;
    do small <- n_lt1 num_samples;
    if (small : bool) then Raise ValueError else
    do nz <- noise_check noise;
    do n <- n_range num_samples;
    Ok {| g_thr := thr; g_noise := nz; g_n := n; g_pos := 0 |}.

  (** [next(gen)]: [None] is StopIteration (no draw consumed). [rng i] = draws of sample i. *)
  Definition sea_next (g : sea_gen) (d : sea_draw) : option (sample * sea_gen) :=
    if (Z.of_nat (g_pos g) <? g_n g)%Z
    then Some (sea_sample (g_thr g) (g_noise g) d,
               {| g_thr := g_thr g; g_noise := g_noise g; g_n := g_n g; g_pos := S (g_pos g) |})
    else None.

  (** [list(gen)] with at most [fuel] calls of [next] *)
  Fixpoint sea_drain (fuel : nat) (g : sea_gen) (rng : nat -> sea_draw) : list sample :=
    match fuel with
    | O => []
    | S k => match sea_next g (rng (g_pos g)) with
             | None => []
             | Some (s, g') => s :: sea_drain k g' rng
             end
    end.

  (** [list(SEA(seed).generate_dataset(block, noise, num_samples))] *)
  Definition sea_dataset (block noise num_samples : pyval) (rng : nat -> sea_draw) : res (list sample) :=
    do g <- sea_generate block noise num_samples;
    Ok (sea_drain (S (Z.to_nat (g_n g))) g rng).

  (* ==================================================================== *)
  (** * 3. Dummy                                                           *)
  (* ==================================================================== *)

  (** [np.random.uniform(0, 10, size=(2,))] *)
  Record dummy_draw := { e_x0 : num A; e_x1 : num A }.

  (** [Dummy._generate_sample]: [class_ if X[0] + X[1] < 10.0 else 1 - class_] *)
  Definition dummy_sample (cls : Z) (d : dummy_draw) : sample :=
    ([e_x0 d; e_x1 d], if (e_x0 d + e_x1 d) <? ofZ 10 then cls else (1 - cls)%Z).

  Record dummy_gen := { h_cls : Z; h_n : Z; h_pos : nat }.

  Definition dummy_generate (class_ num_samples : pyval) : res dummy_gen :=
    do c <- class_check class_;
    do small <- n_lt1 num_samples;
    if (small : bool) then Raise ValueError else
    do n <- n_range num_samples;
    Ok {| h_cls := c; h_n := n; h_pos := 0 |}.

  Definition dummy_next (g : dummy_gen) (d : dummy_draw) : option (sample * dummy_gen) :=
    if (Z.of_nat (h_pos g) <? h_n g)%Z
    then Some (dummy_sample (h_cls g) d, {| h_cls := h_cls g; h_n := h_n g; h_pos := S (h_pos g) |})
    else None.

  Fixpoint dummy_drain (fuel : nat) (g : dummy_gen) (rng : nat -> dummy_draw) : list sample :=
    match fuel with
    | O => []
    | S k => match dummy_next g (rng (h_pos g)) with
             | None => []
             | Some (s, g') => s :: dummy_drain k g' rng
             end
    end.

  Definition dummy_dataset (class_ num_samples : pyval) (rng : nat -> dummy_draw) : res (list sample) :=
    do g <- dummy_generate class_ num_samples;
    Ok (dummy_drain (S (Z.to_nat (h_n g))) g rng).

  (** helpers for the executable side: a finite tape as an oracle *)
  Definition sea_tape (l : list sea_draw) (i : nat) : sea_draw :=
    nth i l {| d_x0 := ofZ 0; d_x1 := ofZ 0; d_x2 := ofZ 0; d_u := ofZ 0; d_bit := 0%Z |}.
  Definition dummy_tape (l : list dummy_draw) (i : nat) : dummy_draw :=
    nth i l {| e_x0 := ofZ 0; e_x1 := ofZ 0 |}.
End Generators.

Arguments pyval : clear implicits.
Arguments sea_draw : clear implicits.
Arguments dummy_draw : clear implicits.
Arguments sea_gen : clear implicits.

(* ====================================================================== *)
(** * 4. Download                                                           *)
(* ====================================================================== *)

Definition bytes := list Z.

(** Exceptions that leave [download] / [load]. *)
Inductive dexn :=
| ExDownloadError        (* frouros.datasets.exceptions.DownloadError *)
| ExReadFileError        (* frouros.datasets.exceptions.ReadFileError *)
| ExFileNotFoundError
| ExTypeError            (* open(file=None, ...) after load() reset file_path *)
| ExPropagated.          (* an exception of the transport / parser that the code does not catch *)

Inductive dres (T : Type) := DOk (a : T) | DRaise (e : dexn).
Arguments DOk {T}. Arguments DRaise {T}.

(** What a transport call can raise: [ReqExc] is any subclass of
    [requests.exceptions.RequestException] (ConnectionError, Timeout, ...: the code cannot
    tell them apart), [NonReq] anything else (not caught by [download]). *)
Inductive texn := ConnErr | Timeout | NonReq.

Inductive head_out := HRaise (e : texn) | HStatus (status : Z).
Inductive body_out := BRaise (e : texn) | BBytes (b : bytes).
Inductive get_out := GRaise (e : texn) | GResp (status : Z) (body : body_out).

(** The script of one mirror: the answer to [requests.head(url, timeout=10)] and to
    [requests.get(url, stream=True, timeout=10)]; the body is read by [response.content]. *)
Record mirror := { m_head : head_out; m_get : get_out }.

(** [requests]: [Response.ok] is [not (400 <= status < 600)], [raise_for_status] raises
    HTTPError (a RequestException) on the same condition. *)
Definition http_error (s : Z) : bool := ((400 <=? s) && (s <? 600))%Z.

Inductive call := CHead (i : nat) | CGet (i : nat).

(** Result of [self._get_file(url)] up to (excluding) the write. *)
Inductive attempt := AFail | AAbort | AGot (b : bytes).

Definition of_texn (e : texn) : attempt := match e with NonReq => AAbort | _ => AFail end.

(** [_request_file] followed by [response.content] in [_save_file]. *)
Definition attempt_mirror (i : nat) (m : mirror) : attempt * list call :=
  match m_head m with
  | HRaise e => (of_texn e, [CHead i])
  | HStatus s =>
      if http_error s then (AFail, [CHead i])        (* raise RequestException() *)
      else match m_get m with
           | GRaise e => (of_texn e, [CHead i; CGet i])
           | GResp s' body =>
               if http_error s' then (AFail, [CHead i; CGet i])   (* raise_for_status *)
               else match body with
                    | BRaise e => (of_texn e, [CHead i; CGet i])
                    | BBytes b => (AGot b, [CHead i; CGet i])
                    end
           end
  end.

(** The dataset object and the one file it refers to: [dl_path] = [file_path is not None],
    [dl_file] = content of that file ([None]: does not exist). *)
Record dl := { dl_path : bool; dl_file : option bytes }.

Definition content (st : dl) : bytes := match dl_file st with Some c => c | None => [] end.

(** [_write_file]: [open(file=self.file_path, mode="wb")] — TRUNCATE (or create), then write:
    whatever the file held before is gone. *)
Definition write_file (st : dl) (b : bytes) : dres dl :=
  if dl_path st then DOk {| dl_path := true; dl_file := Some b |}
  else DRaise ExTypeError.

(** Behaviour before the repair (mode "ab", /repo commit be88f64 changed it): kept only to
    document what the monitor clause [download_exact_bytes] guards against. *)
Definition write_file_append (st : dl) (b : bytes) : dres dl :=
  if dl_path st then DOk {| dl_path := true; dl_file := Some (content st ++ b) |}
  else DRaise ExTypeError.

(** [download]: the [for ... else] over the mirrors. *)
Fixpoint download_from (i : nat) (ms : list mirror) (st : dl) : dres unit * dl * list call :=
  match ms with
  | [] => (DRaise ExDownloadError, st, [])
  | m :: rest =>
      let '(a, calls) := attempt_mirror i m in
      match a with
      | AGot b => match write_file st b with
                  | DOk st' => (DOk tt, st', calls)             (* break *)
                  | DRaise e => (DRaise e, st, calls)
                  end
      | AFail => let '(r, st', tr) := download_from (S i) rest st in (r, st', calls ++ tr)
      | AAbort => (DRaise ExPropagated, st, calls)
      end
  end.

Definition download (ms : list mirror) (st : dl) : dres unit * dl * list call := download_from 0 ms st.

(** A dataset object right after the constructor with [file_path=None]:
    [tempfile.NamedTemporaryFile(delete=False)] has created an empty file. *)
Definition dl_fresh : dl := {| dl_path := true; dl_file := Some [] |}.

(** Outcome of [read_file] on the file content. *)
Inductive parse_out (D : Type) := PData (d : D) | PIndexError | POtherExn.
Arguments PData {D}. Arguments PIndexError {D}. Arguments POtherExn {D}.

(** [load] *)
Definition load {D} (parse : bytes -> parse_out D) (st : dl) : dres D * dl :=
  if negb (dl_path st) then (DRaise ExFileNotFoundError, st)
  else match dl_file st with
       | None => (DRaise ExFileNotFoundError, st)      (* raised by the parser's open() *)
       | Some c =>
           match parse c with
           | PData d => (DOk d, {| dl_path := false; dl_file := None |})   (* unlink; file_path = None *)
           | PIndexError => (DRaise ExReadFileError, st)
           | POtherExn => (DRaise ExPropagated, st)
           end
       end.

(** *** Specification-level vocabulary *)

(** What a mirror amounts to for the loop. *)
Inductive mclass := Reach (b : bytes) | Fail | Abort.
Definition classify (m : mirror) : mclass :=
  match fst (attempt_mirror 0 m) with AGot b => Reach b | AFail => Fail | AAbort => Abort end.

(** The five outcomes named by the property, as scripts. *)
Definition OConnErr : mirror := {| m_head := HRaise ConnErr; m_get := GRaise ConnErr |}.
Definition OTimeout : mirror := {| m_head := HRaise Timeout; m_get := GRaise Timeout |}.
Definition OHeadNotOk (s : Z) : mirror := {| m_head := HStatus s; m_get := GResp 200 (BBytes []) |}.
Definition OGetBadStatus (s : Z) : mirror := {| m_head := HStatus 200; m_get := GResp s (BBytes []) |}.
Definition OGetTimeout : mirror := {| m_head := HStatus 200; m_get := GRaise Timeout |}.
Definition OBodyErr : mirror := {| m_head := HStatus 200; m_get := GResp 200 (BRaise ConnErr) |}.
Definition OSuccess (b : bytes) : mirror := {| m_head := HStatus 200; m_get := GResp 200 (BBytes b) |}.
