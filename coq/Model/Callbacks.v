(** callbacks/streaming/history.py (HistoryConceptDrift), the registration chain of
    detectors/concept_drift/base.py, and callbacks/batch/reset.py (ResetStatisticalTest)
    with the compare wiring of detectors/data_drift/batch/base.py, transliterated.
    Repaired code (F26: a variable registered at several constructor levels is tracked once).
    Definitions only. *)
From Coq Require Import ZArith List Bool String.
From FV Require Import NumSys Py Detector.
Import ListNotations.

(** [add_additional_vars]: [additional_vars.extend(v for v in vars_ if v not in additional_vars)] *)
Fixpoint add_vars (tracked vs : list string) : list string :=
  match vs with
  | [] => tracked
  | v :: r => add_vars (if in_dec string_dec v tracked then tracked else tracked ++ [v]) r
  end.
(** the unrepaired registration: plain [extend] *)
Definition add_vars_dup (tracked vs : list string) : list string := tracked ++ vs.
(** every constructor level (base class first) registers the detector's current variable names *)
Definition register (levels : list (list string)) : list string := fold_left add_vars levels [].
Definition register_dup (levels : list (list string)) : list string := fold_left add_vars_dup levels [].

Section History.
  Variable D : Detector.
  Variable V : Type.                        (* snapshot of one tracked variable *)
  Variable vars : d_st D -> string -> V.    (* detector.additional_vars[name] (BaseStat -> .get()) *)

  Record hist := { h_value : list (d_in D); h_ninst : list Z; h_drift : list bool;
                   h_vars : list (string * list V) }.

  (** the dictionary built by [add_additional_vars]: one empty list per distinct name *)
  Definition hist_init (tracked : list string) : hist :=
    {| h_value := []; h_ninst := []; h_drift := [];
       h_vars := map (fun k => (k, [])) (nodup string_dec tracked) |}.

  (** [history[k].append(x)] *)
  Fixpoint append_at (k : string) (x : V) (h : list (string * list V)) : list (string * list V) :=
    match h with
    | [] => []
    | (k', l) :: r => if string_dec k k' then (k', l ++ [x]) :: r else (k', l) :: append_at k x r
    end.

  (** [on_update_end]: one append per OCCURRENCE of a name in [additional_vars] *)
  Definition on_update_end (tracked : list string) (h : hist) (s : d_st D) (v : d_in D) : hist :=
    {| h_value := h_value h ++ [v];
       h_ninst := h_ninst h ++ [d_ninst D s];
       h_drift := h_drift h ++ [d_drift D s];
       h_vars := fold_left (fun hv k => append_at k (vars s k) hv) tracked (h_vars h) |}.

  (** [reset]: every list cleared, keys kept *)
  Definition hist_reset (h : hist) : hist :=
    {| h_value := []; h_ninst := []; h_drift := [];
       h_vars := map (fun kl => (fst kl, [])) (h_vars h) |}.

  (** detector with the callback attached: [update] = _update, then on_update_end; the logs
      returned are the history itself; [reset] resets the detector, then the callback *)
  Definition sys_apply (c : d_cfg D) (tracked : list string) (sh : d_st D * hist) (o : op (d_in D))
    : d_st D * hist :=
    match o with
    | Upd v => let s' := d_step D c (fst sh) v in (s', on_update_end tracked (snd sh) s' v)
    | Rst => (d_reset D c (fst sh), hist_reset (snd sh))
    end.
  Definition sys_exec (c : d_cfg D) (tracked : list string) (ops : list (op (d_in D))) : d_st D * hist :=
    fold_left (sys_apply c tracked) ops (d_init D c, hist_init tracked).
  Definition logs (sh : d_st D * hist) : hist := snd sh.

  (** specification side: the inputs since the last reset and the state right after it *)
  Fixpoint split_last_reset (c : d_cfg D) (s0 : d_st D) (pending : list (d_in D)) (ops : list (op (d_in D)))
    : d_st D * list (d_in D) :=
    match ops with
    | [] => (s0, pending)
    | Upd v :: r => split_last_reset c s0 (pending ++ [v]) r
    | Rst :: r =>
        split_last_reset c (d_reset D c (exec_from D c s0 (map Upd pending))) [] r
    end.
  Definition base_and_tail (c : d_cfg D) (ops : list (op (d_in D))) : d_st D * list (d_in D) :=
    split_last_reset c (d_init D c) [] ops.
  (** detector states after each update since the last reset *)
  Definition states_since_reset (c : d_cfg D) (ops : list (op (d_in D))) : list (d_st D) :=
    let '(b, tl) := base_and_tail c ops in trace_from D c b (map Upd tl).

  Definition lookup (k : string) (h : list (string * list V)) : option (list V) :=
    match find (fun kl => if string_dec k (fst kl) then true else false) h with
    | Some kl => Some (snd kl) | None => None end.
End History.
Arguments hist : clear implicits.

(** ResetStatisticalTest attached to a batch statistical-test detector:
    compare = _compare (pure), then on_compare_end resets the detector iff p_value <= alpha;
    the result handed back is the one computed before the reset. *)
Section ResetCallback.
  Context {A : Arith}.
  Variables Ref X Res : Type.
  Variable test : Ref -> X -> Res.
  Variable pval : Res -> num A.

  Inductive bop := BFit (r : Ref) | BCmp (x : X) | BRst.
  Definition bstate := option Ref.
  Definition compare_cb (alpha : num A) (s : bstate) (x : X) : res (bstate * Res) :=
    match s with
    | None => Raise MissingFitError
    | Some r => let result := test r x in
                Ok ((if leb (pval result) alpha then None else Some r), result)
    end.
  (** one operation; a failing compare leaves the state alone *)
  Definition bapply (alpha : num A) (s : bstate) (o : bop) : bstate * option (res Res) :=
    match o with
    | BFit r => (Some r, None)
    | BRst => (None, None)
    | BCmp x => match compare_cb alpha s x with
                | Ok (s', r) => (s', Some (Ok r))
                | Raise e => (s, Some (Raise e))
                end
    end.
  Fixpoint brun (alpha : num A) (s : bstate) (ops : list bop) : bstate * list (option (res Res)) :=
    match ops with
    | [] => (s, [])
    | o :: r => let '(s', out) := bapply alpha s o in
                let '(s'', outs) := brun alpha s' r in (s'', out :: outs)
    end.
End ResetCallback.
Arguments BFit {Ref X}. Arguments BCmp {Ref X}. Arguments BRst {Ref X}.
