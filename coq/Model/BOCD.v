(** change_detection/bocd.py transliterated: Gaussian model with unknown mean, constant
    hazard, log-space recursion.  Only the last two rows of [log_r] are kept (nothing
    else is ever read).  Definitions only. *)
From Coq Require Import ZArith List Bool.
From FV Require Import NumSys Detector.
Import ListNotations.

Section BOCD.
  Context {A : Arith}.
  Local Open Scope arith_scope.

  Record bocd_cfg := { bo_prior_mean : num A; bo_prior_var : num A; bo_data_var : num A;
                       bo_hazard : num A; bo_min : Z;
                       bo_ln_sqrt_2pi : num A (* the constant ln(sqrt(2 pi)), supplied by the caller *) }.
  Record bocd_st := { bn : Z; bmeans : list (num A); bprecs : list (num A);
                      bmsg : list (num A);        (* log_message *)
                      brow : list (num A);        (* log_r[num_instances] *)
                      bpmean : option (num A); bpvar : option (num A); bdrift : bool }.

  Definition bocd_init (c : bocd_cfg) : bocd_st :=
    {| bn := 0; bmeans := [bo_prior_mean c]; bprecs := [one / bo_prior_var c];
       bmsg := [zero]; brow := [zero]; bpmean := None; bpvar := None; bdrift := false |}.

  Definition var_params (c : bocd_cfg) (precs : list (num A)) : list (num A) :=
    map (fun p => one / p + bo_data_var c) precs.

  (** scipy norm(loc, scale).logpdf(x) = -((x-loc)/scale)^2/2 - ln(sqrt(2 pi)) - ln(scale) *)
  Definition norm_logpdf (c : bocd_cfg) (x mu sd : num A) : num A :=
    let y := (x - mu) / sd in
    ((zero - (y * y) / two) - bo_ln_sqrt_2pi c) - ln sd.

  Definition maxl (l : list (num A)) : option (num A) :=
    match l with [] => None | x :: r => Some (fold_left (fun a b => if a <? b then b else a) r x) end.

  (** scipy.special.logsumexp on a finite non-empty list *)
  Definition logsumexp (l : list (num A)) : num A :=
    match maxl l with
    | None => zero
    | Some mx => ln (sumA (map (fun a => exp (a - mx)) l)) + mx
    end.

  (** position of the first maximum (numpy argmax) *)
  Fixpoint argmax_from (l : list (num A)) (i best_i : Z) (best : num A) : Z :=
    match l with
    | [] => best_i
    | x :: r => if best <? x then argmax_from r (i + 1) i x else argmax_from r (i + 1) best_i best
    end.
  Definition argmax (l : list (num A)) : Z :=
    match l with [] => 0%Z | x :: r => argmax_from r 1 0 x end.

  Fixpoint zip_with {X Y Z0} (f : X -> Y -> Z0) (a : list X) (b : list Y) : list Z0 :=
    match a, b with x :: a', y :: b' => f x y :: zip_with f a' b' | _, _ => [] end.

  Definition bocd_step (c : bocd_cfg) (s : bocd_st) (v : num A) : bocd_st :=
    let t := (bn s + 1)%Z in
    let vars := var_params c (bprecs s) in
    let log_pis := zip_with (fun mu va => norm_logpdf c v mu (sqrt va)) (bmeans s) vars in
    let lpm := zip_with add log_pis (bmsg s) in
    let growth := map (fun a => a + ln (one - bo_hazard c)) lpm in
    let cp := logsumexp (map (fun a => a + ln (bo_hazard c)) lpm) in
    let joint := cp :: growth in
    let norm := logsumexp joint in
    let row := map (fun a => a - norm) joint in
    (* model.update *)
    let new_prec := map (fun p => p + one / bo_data_var c) (bprecs s) in
    let precs' := hd zero (bprecs s) :: new_prec in
    let new_mean := zip_with (fun mp np => mp / np)
                      (zip_with (fun mu p => mu * p + v / bo_data_var c) (bmeans s) (bprecs s)) new_prec in
    let means' := hd zero (bmeans s) :: new_mean in
    (* prediction: posterior-weighted mixture under row t (repaired, F16) *)
    let probs := map exp row in
    let pm := sumA (zip_with mul probs means') in
    let pv := sumA (zip_with mul probs (var_params c precs')) in
    {| bn := t; bmeans := means'; bprecs := precs'; bmsg := joint; brow := row;
       bpmean := Some pm; bpvar := Some pv;
       bdrift := if (bo_min c <=? t)%Z then negb (argmax row =? t)%Z else bdrift s |}.

  Definition bocd_reset (c : bocd_cfg) (s : bocd_st) : bocd_st := bocd_init c.

  Definition BOCDD : Detector := {|
    d_cfg := bocd_cfg; d_in := num A; d_st := bocd_st;
    d_init := bocd_init; d_step := bocd_step; d_reset := bocd_reset;
    d_drift := bdrift; d_warning := fun _ => false; d_has_warning_status := false; d_ninst := bn |}.
End BOCD.
Arguments bocd_cfg : clear implicits. Arguments bocd_st : clear implicits. Arguments BOCDD : clear implicits.
