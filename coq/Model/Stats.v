(** frouros/utils/stats.py (Mean, CircularMean, EWMA) and
    frouros/metrics/prequential_error.py, transliterated.  Definitions only. *)
From Coq Require Import ZArith List Bool.
From FV Require Import NumSys Py Queue.
Import ListNotations.

Section Stats.
  Context {A : Arith}.
  Local Open Scope arith_scope.

  (** Mean *)
  Record mean_st := { m_mean : num A; m_n : Z }.
  Definition mean_init : mean_st := {| m_mean := zero; m_n := 0 |}.
  Definition incr_op (value element : num A) (size : Z) : num A := (value - element) / ofZ size.
  Definition mean_update (s : mean_st) (v : num A) : mean_st :=
    let n := (m_n s + 1)%Z in
    {| m_mean := m_mean s + incr_op v (m_mean s) n; m_n := n |}.
  Definition mean_run (vs : list (num A)) : mean_st := fold_left mean_update vs mean_init.

  (** EWMA: [mean = alpha*value + (1-alpha)*mean], initial mean 0 *)
  Record ewma_st := { e_alpha : num A; e_1ma : num A; e_mean : num A }.
  Definition ewma_init (alpha : num A) : ewma_st :=
    {| e_alpha := alpha; e_1ma := one - alpha; e_mean := zero |}.
  Definition ewma_update (s : ewma_st) (v : num A) : ewma_st :=
    {| e_alpha := e_alpha s; e_1ma := e_1ma s; e_mean := e_alpha s * v + e_1ma s * e_mean s |}.
  Definition ewma_run (alpha : num A) (vs : list (num A)) : ewma_st :=
    fold_left ewma_update vs (ewma_init alpha).

  (** CircularMean(size): a Mean plus a CircularQueue of the last [size] values *)
  Record cmean_st := { c_mean : num A; c_n : Z; c_q : cq (num A) }.
  Definition cmean_init (size : Z) : cmean_st :=
    {| c_mean := zero; c_n := 0; c_q := cq_init size |}.
  Definition cmean_update (s : cmean_st) (v : num A) : res cmean_st :=
    do (q', el) <- cq_enqueue (c_q s) v;
    let n := cq_len q' in
    let element := match el with Some e => e | None => c_mean s end in
    Ok {| c_mean := c_mean s + incr_op v element n; c_n := n; c_q := q' |}.
  Fixpoint cmean_run (s : cmean_st) (vs : list (num A)) : res cmean_st :=
    match vs with
    | [] => Ok s
    | v :: r => do s' <- cmean_update s v; cmean_run s' r
    end.

  (** PrequentialError(alpha) *)
  Record preq_st := { p_err : num A; p_inst : num A }.
  Definition preq_init : preq_st := {| p_err := zero; p_inst := zero |}.
  Definition preq_call (alpha : num A) (s : preq_st) (e : num A) : preq_st * num A :=
    let ce := p_err s * alpha + e in
    let ci := p_inst s * alpha + one in
    ({| p_err := ce; p_inst := ci |}, ce / ci).
  Definition preq_reset (s : preq_st) : preq_st := preq_init.
End Stats.
Arguments mean_st : clear implicits.
Arguments ewma_st : clear implicits.
Arguments cmean_st : clear implicits.
Arguments preq_st : clear implicits.
