(** frouros/detectors/data_drift/batch/distance_based/mmd.py (MMD),
    frouros/detectors/data_drift/streaming/distance_based/mmd.py (streaming MMD) and
    frouros/utils/kernels.py (rbf_kernel), transliterated.  Definitions only.

    Arrays.  A sample is [Arr1 xs] (1-D ndarray) or [Arr2 d rows] (2-D ndarray of shape
    (len rows, d); input language: every row has d entries).  [expand_dims] turns a 1-D
    sample into 1-vectors, as [np.expand_dims(X, axis=1)] does.

    Kernel.  The detector takes any callable [kernel(A, B)] returning the |A| x |B| Gram
    block; the model takes the point function [k] with kernel(A,B)[i,j] = k(A[i],B[j])
    (a Section variable; every kernel of utils/kernels.py has this form).  [rbf] is
    [rbf_kernel] itself.

    Float order.  [ndarray.sum()] is modelled as the left-to-right sum of the flattened
    (row-major) block; NumPy's pairwise summation differs in rounding only. *)
From Coq Require Import ZArith List Bool.
From FV Require Import NumSys Py Queue.
Import ListNotations.

Definition zlen {T} (l : list T) : Z := Z.of_nat (length l).

(** [range(0, n, c)] for c > 0: 0, c, 2c, ... below n, i.e. ceil(n/c) indices *)
Definition range_step (n c : nat) : list nat :=
  map (fun j => (j * c)%nat) (seq 0 (Nat.div (n + c - 1) c)).

Section Chunks.
  Context {T : Type}.
  (** [MMD._get_chunks]: (data[i : i + chunk_size] for i in range(0, len(data), chunk_size)) *)
  Definition chunks_nat (c : nat) (data : list T) : list (list T) :=
    map (fun i => firstn c (skipn i data)) (range_step (length data) c).
  (** [range] raises ValueError for step 0 (reached when chunk_size is None and the sample
      is empty); a negative step gives an empty range (unreachable: chunk_size setter).
      The generator is lazy, but every caller consumes it (itertools.product / tee) before
      anything else observable happens. *)
  Definition get_chunks (data : list T) (c : Z) : res (list (list T)) :=
    if (c =? 0)%Z then Raise ValueError
    else if (c <? 0)%Z then Ok []
    else Ok (chunks_nat (Z.to_nat c) data).
End Chunks.

Section MMD.
  Context {A : Arith}.
  Local Open Scope arith_scope.

  Definition pt : Type := list (num A).
  Inductive arr := Arr1 (xs : list (num A)) | Arr2 (d : Z) (rows : list pt).

  Definition expand_dims (a : arr) : list pt :=
    match a with Arr1 xs => map (fun x => [x]) xs | Arr2 _ rows => rows end.
  Definition arr_len (a : arr) : Z := zlen (expand_dims a).

  (** * utils/kernels.py *)
  (** [cdist(X, Y, "sqeuclidean")] entry: s = 0; for each coordinate d = u_i - v_i; s += d*d *)
  Fixpoint sqeuclid (u v : pt) (s : num A) : num A :=
    match u, v with
    | x :: u', y :: v' => let d := x - y in sqeuclid u' v' (s + d * d)
    | _, _ => s
    end.
  (** [np.exp(-cdist(X, Y, "sqeuclidean") / (2 * sigma**2))]
      ([sigma**2] is libm pow(sigma, 2): at most an ulp from sigma*sigma) *)
  Definition rbf (sigma : num A) (x y : pt) : num A :=
    exp (neg (sqeuclid x y zero) / (two * (sigma * sigma))).

  Section WithKernel.
    Variable k : pt -> pt -> num A.

    (** [kernel(a, b).sum()] *)
    Definition kernel_sum (a b : list pt) : num A :=
      sumA (flat_map (fun x => map (k x) b) a).
    (** [MMD._compute_kernel]: np.array([kernel( *chunk).sum() for chunk in combos]).sum() *)
    Definition compute_kernel (combos : list (list pt * list pt)) : num A :=
      sumA (map (fun ab => kernel_sum (fst ab) (snd ab)) combos).

    Definition chunk_or (chunk : option Z) (n : Z) : Z :=
      match chunk with Some c => c | None => n end.

    (** (k_xx_sum - n) / (n * (n - 1)): "remove diagonal" is the subtraction of n *)
    Definition expected_kxx (xch : list (list pt)) (n : Z) : num A :=
      (compute_kernel (list_prod xch xch) - ofZ n) / ofZ (n * (n - 1)).

    (** the keyword argument [expected_k_xx]: absent, or present with a value that may be
        Python's None ([MMD._expected_k_xx] before any successful fit) *)
    Inductive expk := NoKey | Key (v : option (num A)).

    (** [MMD._mmd(X, Y, kernel=, chunk_size=, [expected_k_xx=])].
        Modelled for X, Y of equal ndim and equal row width (what [compare]'s dimension
        check guarantees and what the permutation callback passes); for other shapes cdist
        raises ValueError at the first Gram block, modelled as ValueError up front (this
        differs from the code only when a sample is empty). *)
    Definition mmd_py (X Y : arr) (chunk : option Z) (e : expk) : res (num A) :=
      do _ <- match X, Y with
              | Arr1 _, Arr1 _ => Ok tt
              | Arr2 dx _, Arr2 dy _ => if (dx =? dy)%Z then Ok tt else Raise ValueError
              | _, _ => Raise ValueError
              end;
      let Xp := expand_dims X in
      let Yp := expand_dims Y in
      let n := zlen Xp in
      do xch <- get_chunks Xp (chunk_or chunk n);
      let exp_xx :=
        match e with
        | Key v => v
        | NoKey => Some (expected_kxx xch n)
        end in
      let m := zlen Yp in
      do ych <- get_chunks Yp (chunk_or chunk m);
      let k_yy_sum := compute_kernel (list_prod ych ych) - ofZ m in
      let k_xy_sum := compute_kernel (list_prod xch ych) in
      match exp_xx with
      | None => Raise TypeError (* +None *)
      | Some ex => Ok ((ex + k_yy_sum / ofZ (m * (m - 1))) - (two * k_xy_sum) / ofZ (n * m))
      end.

    (** * batch detector *)
    Record mb_st := { mb_ref : option arr; mb_exp : option (num A) }.
    Definition mb_new : mb_st := {| mb_ref := None; mb_exp := None |}.

    (** chunk_size setter (None, or an int > 0) *)
    Definition valid_chunk (chunk : option Z) : res unit :=
      match chunk with
      | Some c => if (c <=? 0)%Z then Raise ValueError else Ok tt
      | None => Ok tt
      end.

    (** [_check_fit_dimensions] with MultivariateData (operator.ge); arrays with more than two
        axes (DimensionError) are outside the array language of this model *)
    Definition check_fit_dims (X : arr) : res unit :=
      match X with
      | Arr1 _ => Ok tt
      | Arr2 d _ => if (1 <=? d)%Z then Ok tt else Raise DimensionError
      end.

    (** [fit]: X_ref is assigned first; if the chunk generator then raises, X_ref stays
        assigned and the cached term keeps its previous value *)
    Definition mb_fit (chunk : option Z) (s : mb_st) (X : arr) : mb_st * res unit :=
      match check_fit_dims X with
      | Raise e => (s, Raise e)
      | Ok _ =>
        let Xp := expand_dims X in
        let n := zlen Xp in
        match get_chunks Xp (chunk_or chunk n) with
        | Raise e => ({| mb_ref := Some X; mb_exp := mb_exp s |}, Raise e)
        | Ok xch => ({| mb_ref := Some X; mb_exp := Some (expected_kxx xch n) |}, Ok tt)
        end
      end.

    (** [_check_compare_dimensions]: ndim and every axis after the first must agree *)
    Definition check_compare_dims (R X : arr) : res unit :=
      match R, X with
      | Arr1 _, Arr1 _ => Ok tt
      | Arr2 d _, Arr2 d' _ => if (d =? d')%Z then Ok tt else Raise MismatchDimensionError
      | _, _ => Raise MismatchDimensionError
      end.

    (** [compare(X)[0].distance] *)
    Definition mb_compare (chunk : option Z) (s : mb_st) (X : arr) : res (num A) :=
      match mb_ref s with
      | None => Raise MissingFitError
      | Some R => do _ <- check_compare_dims R X; mmd_py R X chunk (Key (mb_exp s))
      end.

    (** [reset]: only X_ref is cleared *)
    Definition mb_reset (s : mb_st) : mb_st := {| mb_ref := None; mb_exp := mb_exp s |}.

    (** [detector.statistical_method(X, Y, **detector.statistical_kwargs)]: the stand-alone
        statistic handed to the permutation-test callback (no expected_k_xx key) *)
    Definition mb_statistic (chunk : option Z) (X Y : arr) : res (num A) :=
      mmd_py X Y chunk NoKey.

    (** * streaming detector *)
    (** a stream value: a scalar (1-D reference) or a vector (2-D reference) *)
    Inductive sval := VS (x : num A) | VV (p : pt).

    Record ms_st := { ms_n : Z; ms_q : cq sval; ms_ref : option arr; ms_mmd : mb_st; ms_w : Z }.

    (** constructor: the batch MMD (chunk_size check) is built before window_size is checked;
        both raise ValueError *)
    Definition ms_new (w : Z) (chunk : option Z) : res ms_st :=
      do _ <- valid_chunk chunk;
      if (w <? 1)%Z then Raise ValueError
      else Ok {| ms_n := 0; ms_q := cq_init w; ms_ref := None; ms_mmd := mb_new; ms_w := w |}.

    Definition ms_fit (chunk : option Z) (s : ms_st) (X : arr) : ms_st * res unit :=
      match check_fit_dims X with
      | Raise e => (s, Raise e)
      | Ok _ =>
        let '(b, r) := mb_fit chunk (ms_mmd s) X in
        match r with
        | Raise e => ({| ms_n := ms_n s; ms_q := ms_q s; ms_ref := ms_ref s; ms_mmd := b; ms_w := ms_w s |}, Raise e)
        | Ok _ => ({| ms_n := ms_n s; ms_q := ms_q s; ms_ref := mb_ref b; ms_mmd := b; ms_w := ms_w s |}, Ok tt)
        end
      end.

    (** [reset]: X_ref := None; num_instances := 0; self.mmd.reset(); self.X_queue.clear()
        (repaired code: the window is cleared, so a reset detector reads its ring in the same
        storage order as a new one) *)
    Definition ms_reset (s : ms_st) : ms_st :=
      {| ms_n := 0; ms_q := cq_clear (ms_q s); ms_ref := None; ms_mmd := mb_reset (ms_mmd s); ms_w := ms_w s |}.

    (** [np.array(self.X_queue)]: NumPy iterates a sequence object with __getitem__ from 0
        until IndexError, i.e. over ALL slots of the ring in STORAGE order (not FIFO order,
        and not only the first [count]).  Scalars give a 1-D array, equal-length vectors a
        2-D array, anything inhomogeneous ValueError; an unfilled slot (None) would give an
        object array on which cdist fails: modelled as ValueError (unreachable, see
        Proofs/MMDR.v: the ring is full whenever this is called). *)
    Fixpoint all_scalars (l : list (option sval)) : option (list (num A)) :=
      match l with
      | [] => Some []
      | Some (VS x) :: r => match all_scalars r with Some xs => Some (x :: xs) | None => None end
      | _ :: _ => None
      end.
    Fixpoint all_vectors (d : nat) (l : list (option sval)) : option (list pt) :=
      match l with
      | [] => Some []
      | Some (VV p) :: r =>
        if Nat.eqb (length p) d
        then match all_vectors d r with Some ps => Some (p :: ps) | None => None end
        else None
      | _ :: _ => None
      end.
    Definition np_array (l : list (option sval)) : res arr :=
      match l with
      | [] => Ok (Arr1 [])
      | Some (VS _) :: _ => match all_scalars l with Some xs => Ok (Arr1 xs) | None => Raise ValueError end
      | Some (VV p) :: _ =>
        match all_vectors (length p) l with Some ps => Ok (Arr2 (zlen p) ps) | None => Raise ValueError end
      | None :: _ => Raise ValueError
      end.

    (** [update(value)[0]]: None, or the distance.  State changes made before an exception persist. *)
    Definition ms_update (chunk : option Z) (s : ms_st) (v : sval) : ms_st * res (option (num A)) :=
      match ms_ref s with
      | None => (s, Raise MissingFitError)
      | Some _ =>
        let n := (ms_n s + 1)%Z in
        match cq_enqueue (ms_q s) v with
        | Raise e => ({| ms_n := n; ms_q := ms_q s; ms_ref := ms_ref s; ms_mmd := ms_mmd s; ms_w := ms_w s |}, Raise e)
        | Ok (q, _) =>
          let s' := {| ms_n := n; ms_q := q; ms_ref := ms_ref s; ms_mmd := ms_mmd s; ms_w := ms_w s |} in
          if (n <? ms_w s)%Z then (s', Ok None)
          else (s', do a <- np_array (q_slots q);
                    do d <- mb_compare chunk (ms_mmd s) a;
                    Ok (Some d))
        end
      end.

    (** [compare] of the streaming detector delegates to the batch detector *)
    Definition ms_compare (chunk : option Z) (s : ms_st) (X : arr) : res (num A) :=
      mb_compare chunk (ms_mmd s) X.

    (** histories *)
    Inductive sev := SFit (X : arr) | SReset | SUpd (v : sval).
    Inductive sout := OFit (r : res unit) | OReset | OUpd (r : res (option (num A))).
    Definition ms_step (chunk : option Z) (s : ms_st) (e : sev) : ms_st * sout :=
      match e with
      | SFit X => let '(s', r) := ms_fit chunk s X in (s', OFit r)
      | SReset => (ms_reset s, OReset)
      | SUpd v => let '(s', r) := ms_update chunk s v in (s', OUpd r)
      end.
    Fixpoint ms_run (chunk : option Z) (s : ms_st) (h : list sev) : ms_st * list sout :=
      match h with
      | [] => (s, [])
      | e :: r => let '(s1, o) := ms_step chunk s e in
                  let '(s2, os) := ms_run chunk s1 r in (s2, o :: os)
      end.
  End WithKernel.
End MMD.

Arguments arr : clear implicits.
Arguments pt : clear implicits.
Arguments sval : clear implicits.
Arguments sev : clear implicits.
Arguments sout : clear implicits.
Arguments mb_st : clear implicits.
Arguments ms_st : clear implicits.
Arguments expk : clear implicits.
