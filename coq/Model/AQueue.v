(** AccuracyQueue under ALL its operations (enqueue / dequeue / clear / keep-last): the model of
    frouros/utils/data_structures.py:AccuracyQueue beyond [aq_enqueue] (Model/Queue.v).  Definitions only.
    [aq_keep] models [maintain_last_element] AS REPAIRED (finding F48, /repo a60d200): the inherited method, then the
    counter recounted from the one element kept. *)
From Coq Require Import ZArith List Bool.
From FV Require Import NumSys Py Queue.
Import ListNotations.
Local Open Scope Z_scope.

(** [AccuracyQueue.dequeue]: [element = super().dequeue(); self.num_true -= 1 if element else 0] (the [num_true] setter
    rejects a negative value) *)
Definition aq_dequeue (a : aq) : res (aq * option bool) :=
  do (q1, el) <- cq_dequeue (a_q a);
  let t1 := a_true a - ob2z el in
  if t1 <? 0 then Raise ValueError else Ok ({| a_q := q1; a_true := t1 |}, el).

(** [AccuracyQueue.maintain_last_element] (repaired): [super().maintain_last_element()], then, unless the queue is empty,
    [num_true = np.count_nonzero(self.queue[self.first])] *)
Definition aq_keep (a : aq) : aq :=
  let q1 := cq_keep_last (a_q a) in
  if cq_is_empty q1 then {| a_q := q1; a_true := a_true a |}
  else {| a_q := q1; a_true := ob2z (slot q1 (q_first q1)) |}.

(** the method BEFORE the repair: the counter is left as it was *)
Definition aq_keep_pre (a : aq) : aq := {| a_q := cq_keep_last (a_q a); a_true := a_true a |}.

(** one operation; a rejected call ([dequeue] on an empty queue) leaves the object as it was *)
Definition aq_apply (keep : aq -> aq) (a : aq) (o : qop bool) : aq * qout bool :=
  match o with
  | Enq v => match aq_enqueue a v with Ok a' => (a', OEl None) | Raise e => (a, OErr e) end
  | Deq => match aq_dequeue a with Ok (a', el) => (a', OEl el) | Raise e => (a, OErr e) end
  | Clr => (aq_clear a, OUnit)
  | Keep => (keep a, OUnit)
  end.
Fixpoint aq_ops (keep : aq -> aq) (a : aq) (ops : list (qop bool)) : aq * list (qout bool) :=
  match ops with
  | [] => (a, [])
  | o :: r => let '(a1, out) := aq_apply keep a o in let '(a2, outs) := aq_ops keep a1 r in (a2, out :: outs)
  end.
