(** Common interface of the streaming concept-drift detector models and the
    generic execution over operation histories.  Definitions only. *)
From Coq Require Import ZArith List Bool String.
From FV Require Import NumSys.
Import ListNotations.

Record Detector := {
  d_cfg : Type;
  d_in  : Type;                       (* input of one update *)
  d_st  : Type;
  d_init  : d_cfg -> d_st;
  d_step  : d_cfg -> d_st -> d_in -> d_st;     (* _update *)
  d_reset : d_cfg -> d_st -> d_st;
  d_drift : d_st -> bool;
  d_warning : d_st -> bool;           (* constantly false when the class has no warning *)
  d_has_warning_status : bool;        (* does [status] carry a "warning" key *)
  d_ninst : d_st -> Z;                (* num_instances *)
}.

Inductive op (I : Type) := Upd (v : I) | Rst.
Arguments Upd {I}. Arguments Rst {I}.

Section Exec.
  Variable D : Detector.
  Definition apply (c : d_cfg D) (s : d_st D) (o : op (d_in D)) : d_st D :=
    match o with Upd v => d_step D c s v | Rst => d_reset D c s end.
  Definition exec_from (c : d_cfg D) (s : d_st D) (ops : list (op (d_in D))) : d_st D :=
    fold_left (apply c) ops s.
  Definition exec (c : d_cfg D) (ops : list (op (d_in D))) : d_st D := exec_from c (d_init D c) ops.

  (** the trace of states after every operation *)
  Fixpoint trace_from (c : d_cfg D) (s : d_st D) (ops : list (op (d_in D))) : list (d_st D) :=
    match ops with
    | [] => []
    | o :: r => let s' := apply c s o in s' :: trace_from c s' r
    end.
  Definition trace (c : d_cfg D) ops := trace_from c (d_init D c) ops.

  (** [status] property of the class *)
  Definition status (s : d_st D) : list (string * bool) :=
    ("drift"%string, d_drift D s) ::
    (if d_has_warning_status D then [("warning"%string, d_warning D s)] else []).

  (** number of updates since the last reset (or construction) *)
  Fixpoint since_reset (ops : list (op (d_in D))) (acc : Z) : Z :=
    match ops with
    | [] => acc
    | Upd _ :: r => since_reset r (acc + 1)
    | Rst :: r => since_reset r 0
    end.
  Definition updates_since_reset ops := since_reset ops 0%Z.
End Exec.
