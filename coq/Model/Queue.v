(** CircularQueue / AccuracyQueue of frouros/utils/data_structures.py, transliterated.
    Definitions only. *)
From Coq Require Import ZArith List Bool.
From FV Require Import Py.
Import ListNotations.
Local Open Scope Z_scope.

Section Queue.
  Context {T : Type}.

  Record cq := { q_count : Z; q_first : Z; q_last : Z; q_max : Z; q_slots : list (option T) }.

  Definition cq_init (max_len : Z) : cq :=
    {| q_count := 0; q_first := 0; q_last := -1; q_max := max_len;
       q_slots := repeat None (Z.to_nat max_len) |}.

  Definition cq_clear (q : cq) : cq := cq_init (q_max q).

  Definition cq_is_empty (q : cq) : bool := q_count q =? 0.
  Definition cq_is_full (q : cq) : bool := q_count q =? q_max q.
  Definition cq_len (q : cq) : Z := q_count q.

  Definition slot (q : cq) (i : Z) : option T := nth (Z.to_nat i) (q_slots q) None.

  Fixpoint set_nth {X} (n : nat) (x : X) (l : list X) : list X :=
    match l, n with
    | [], _ => []
    | _ :: t, O => x :: t
    | h :: t, S k => h :: set_nth k x t
    end.

  (** [dequeue]: EmptyQueueError when empty; [% max_len] raises ZeroDivisionError
      when [max_len = 0] (unreachable: a capacity-0 queue is always empty). *)
  Definition cq_dequeue (q : cq) : res (cq * option T) :=
    if cq_is_empty q then Raise EmptyQueueError
    else if q_max q =? 0 then Raise ZeroDivisionError
    else Ok ({| q_count := q_count q - 1; q_first := (q_first q + 1) mod q_max q;
                q_last := q_last q; q_max := q_max q; q_slots := q_slots q |},
             slot q (q_first q)).

  Definition cq_enqueue (q : cq) (v : T) : res (cq * option T) :=
    do (q1, el) <- (if cq_is_full q then cq_dequeue q else Ok (q, None));
    if q_max q1 =? 0 then Raise ZeroDivisionError else
    let l := (q_last q1 + 1) mod q_max q1 in
    Ok ({| q_count := q_count q1 + 1; q_first := q_first q1; q_last := l; q_max := q_max q1;
           q_slots := set_nth (Z.to_nat l) (Some v) (q_slots q1) |}, el).

  (** [maintain_last_element] (repaired: no-op on an empty queue, finding F27) *)
  Definition cq_keep_last (q : cq) : cq :=
    if cq_is_empty q then q else
    {| q_count := 1; q_first := q_last q; q_last := q_last q; q_max := q_max q;
       q_slots := q_slots q |}.

  (** Abstraction: contents oldest first. *)
  Fixpoint read_from (q : cq) (pos : Z) (n : nat) : list (option T) :=
    match n with
    | O => []
    | S k => slot q pos :: read_from q ((pos + 1) mod q_max q) k
    end.
  Definition cq_abs (q : cq) : list (option T) := read_from q (q_first q) (Z.to_nat (q_count q)).

  (** Reference bounded deque. *)
  Definition dq_enqueue (cap : Z) (d : list T) (v : T) : list T * option T :=
    if Z.of_nat (length d) =? cap then (tl d ++ [v], hd_error d) else (d ++ [v], None).
  Definition dq_dequeue (d : list T) : res (list T * option T) :=
    match d with [] => Raise EmptyQueueError | x :: t => Ok (t, Some x) end.
  Definition dq_keep_last (d : list T) : list T :=
    match rev d with [] => [] | x :: _ => [x] end.

  (** Operation alphabet and the two runs compared by the refinement theorem. *)
  Inductive qop := Enq (v : T) | Deq | Clr | Keep.
  Inductive qout := OEl (o : option T) | OErr (e : exn) | OUnit.

  Definition cq_apply (q : cq) (o : qop) : cq * qout :=
    match o with
    | Enq v => match cq_enqueue q v with Ok (q', el) => (q', OEl el) | Raise e => (q, OErr e) end
    | Deq => match cq_dequeue q with Ok (q', el) => (q', OEl el) | Raise e => (q, OErr e) end
    | Clr => (cq_clear q, OUnit)
    | Keep => (cq_keep_last q, OUnit)
    end.

  Definition dq_apply (cap : Z) (d : list T) (o : qop) : list T * qout :=
    match o with
    | Enq v => let '(d', el) := dq_enqueue cap d v in (d', OEl el)
    | Deq => match dq_dequeue d with Ok (d', el) => (d', OEl el) | Raise e => (d, OErr e) end
    | Clr => ([], OUnit)
    | Keep => (dq_keep_last d, OUnit)
    end.

  Fixpoint cq_run (q : cq) (ops : list qop) : cq * list qout :=
    match ops with
    | [] => (q, [])
    | o :: r => let '(q1, out) := cq_apply q o in let '(q2, outs) := cq_run q1 r in (q2, out :: outs)
    end.
  Fixpoint dq_run (cap : Z) (d : list T) (ops : list qop) : list T * list qout :=
    match ops with
    | [] => (d, [])
    | o :: r => let '(d1, out) := dq_apply cap d o in let '(d2, outs) := dq_run cap d1 r in (d2, out :: outs)
    end.
End Queue.
Arguments cq : clear implicits.
Arguments qop : clear implicits.
Arguments qout : clear implicits.

(** AccuracyQueue: a CircularQueue of booleans with a true-counter.
    [enqueue] returns None (the evicted element is consumed by the counter). *)
Record aq := { a_q : cq bool; a_true : Z }.
Definition aq_init (max_len : Z) : aq := {| a_q := cq_init max_len; a_true := 0 |}.
Definition aq_clear (a : aq) : aq := aq_init (q_max (a_q a)).
Definition b2z (b : bool) : Z := if b then 1 else 0.
Definition ob2z (o : option bool) : Z := match o with Some true => 1 | _ => 0 end.
Definition aq_enqueue (a : aq) (v : bool) : res aq :=
  do (q1, el) <- (if cq_is_full (a_q a) then cq_dequeue (a_q a) else Ok (a_q a, None));
  let t1 := if cq_is_full (a_q a) then a_true a - ob2z el else a_true a in
  if q_max q1 =? 0 then Raise ZeroDivisionError else
  let l := (q_last q1 + 1) mod q_max q1 in
  Ok {| a_q := {| q_count := q_count q1 + 1; q_first := q_first q1; q_last := l; q_max := q_max q1;
                  q_slots := set_nth (Z.to_nat l) (Some v) (q_slots q1) |};
        a_true := t1 + b2z v |}.
Definition aq_num_true (a : aq) : Z := a_true a.
Definition aq_num_false (a : aq) : Z := q_count (a_q a) - a_true a.
Definition aq_size (a : aq) : Z := q_count (a_q a).
